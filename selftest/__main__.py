"""setup_cmd: self-tests of the trusted base (reader, DocSpec round trip). Exit 0 = ok."""
import glob
import os
import sys

HERE = os.path.dirname(os.path.dirname(os.path.abspath(__file__)))
sys.path.insert(0, HERE)
os.chdir(HERE)

from mc.core import repo, selfcheck  # noqa: E402


def main():
    repo.bind()
    selfcheck.fast()
    from mc.rtfreader.reader import parse
    from mc.spec import docspec

    # shipped corpus: every complete document must parse strictly
    n = 0
    for f in sorted(glob.glob(os.path.join(repo.REPO, "tests", "**", "*.rtf"), recursive=True)
                    + glob.glob(os.path.join(repo.REPO, "docs", "**", "*.rtf"), recursive=True)):
        data = open(f, "rb").read()
        if not data.lstrip().startswith(b"{\\rtf"):
            continue  # fragment fixtures (rows, cells)
        d = parse(data)
        assert not d.errors, (f, d.errors[:3])
        n += 1
    # DocSpec round trip
    b = docspec.build({"n": 4, "cols": ["s", "i", "f", "m"], "title": 2, "subline": True, "footnote": "table", "source": "para",
                       "header": "explicit", "page": {"nrow": 40}})
    d = parse(b.doc.rtf_encode())
    assert not d.errors
    roles = [docspec.block_role(x)[0] for x in d.pages[0].blocks]
    roles = [r for r in roles if r != "blank"]
    assert roles == ["title", "subline", "header", "data", "data", "data", "data", "footnote_table", "source_para"], roles
    print(f"selftest ok: reader fast cases, {n} shipped documents, DocSpec round trip")
    return 0


if __name__ == "__main__":
    sys.exit(main())

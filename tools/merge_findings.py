#!/venv/bin/python
"""Merge notes/proposed_findings/<PID>.json entries into known_findings.json (lead only)."""
import json, sys, os
HERE = os.path.dirname(os.path.dirname(os.path.abspath(__file__)))
k = json.load(open(os.path.join(HERE, "known_findings.json")))
have = {(f["property"], f["key"]) for f in k["findings"]}
for pid in sys.argv[1:]:
    p = json.load(open(os.path.join(HERE, "notes", "proposed_findings", f"{pid}.json")))
    for f in p["findings"]:
        if (f["property"], f["key"]) not in have:
            k["findings"].append(f)
            have.add((f["property"], f["key"]))
            print("added", f["property"], f["key"])
json.dump(k, open(os.path.join(HERE, "known_findings.json"), "w"), indent=1)

#!/venv/bin/python
"""Confirm and evaluate seeded property-breaking changes.

usage: tools/run_seeded.py <src-dir-with-patch.diff,demo.py,meta.json> <seed-id e.g. C06-a> [--checks C06,C14]

For one seeded change: copy /repo to a scratch directory, apply the patch there, (1) run the repository's
test suite against the patched copy (must pass), (2) run the author's demo against /repo (must pass) and
against the patched copy (must fail), (3) run the property's quick check (and any extra checks) with
VERIF_REPO pointing at the patched copy; record everything in /verif/seeded/<seed-id>/meta.json.
Nothing is ever applied to /repo itself; evidence of these runs goes to a scratch directory."""
import json
import os
import re
import shutil
import subprocess
import sys
import time

VERIF = os.path.dirname(os.path.dirname(os.path.abspath(__file__)))
PY = "/venv/bin/python"


def sh(cmd, cwd=None, env=None, timeout=3600):
    p = subprocess.run(cmd, cwd=cwd, env=env, capture_output=True, text=True, timeout=timeout)
    return p.returncode, (p.stdout + p.stderr)


def main():
    src, sid = sys.argv[1], sys.argv[2]
    pid = sid.split("-")[0]
    checks = [pid]
    if "--checks" in sys.argv:
        checks = sys.argv[sys.argv.index("--checks") + 1].split(",")
    dest = os.path.join(VERIF, "seeded", sid)
    os.makedirs(dest, exist_ok=True)
    for f in ("patch.diff", "demo.py"):
        if os.path.abspath(src) != os.path.abspath(dest):
            shutil.copy(os.path.join(src, f), os.path.join(dest, f))
    meta = json.load(open(os.path.join(src, "meta.json")))
    scratch = f"/tmp/seedrun-{sid}-{os.getpid()}"
    shutil.rmtree(scratch, ignore_errors=True)
    base = sys.argv[sys.argv.index("--base") + 1] if "--base" in sys.argv else None
    if base:  # a change seeded against an earlier commit that no longer applies to HEAD (the code it edits was repaired since)
        os.makedirs(scratch)
        subprocess.run(f"git -C /repo archive {base} | tar -x -C {scratch} --exclude=docs", shell=True, check=True)
    else:
        sh(["rsync", "-a", "--exclude", ".git", "--exclude", "docs", "/repo/", scratch + "/"])
    rc, out = sh(["git", "apply", "--unsafe-paths", "--directory", scratch, os.path.join(dest, "patch.diff")], cwd="/")
    if rc != 0:
        rc, out = sh(["patch", "-p1", "-i", os.path.join(dest, "patch.diff")], cwd=scratch)
    res = {"applied": rc == 0, "apply_output": out[-300:]}
    env_m = dict(os.environ, PYTHONPATH=os.path.join(scratch, "src"))
    env_c = dict(os.environ, PYTHONPATH="/repo/src")
    if res["applied"]:
        rc, out = sh([PY, "-c", "import rtflite;print(rtflite.__file__)"], cwd=scratch, env=env_m)
        res["imports_patched_copy"] = scratch in out
        rc, out = sh([PY, "-m", "pytest", "-q", "-p", "no:cacheprovider"], cwd=scratch, env=env_m)
        res["repo_tests"] = out.strip().splitlines()[-1] if out.strip() else ""
        res["repo_tests_pass"] = rc == 0
        rc, out = sh([PY, os.path.join(dest, "demo.py")], cwd=scratch, env=env_c, timeout=600)
        res["demo_without_change"] = {"rc": rc, "tail": out.strip()[-300:]}
        rc, out = sh([PY, os.path.join(dest, "demo.py")], cwd=scratch, env=env_m, timeout=600)
        res["demo_with_change"] = {"rc": rc, "tail": out.strip()[-300:]}
        res["checks"] = {}
        evdir = os.path.join(scratch, "evidence")
        os.makedirs(evdir, exist_ok=True)
        for c in checks:
            t = time.time()
            env = dict(os.environ, VERIF_REPO=scratch, VERIF_EVIDENCE_DIR=evdir, VERIF_REPLAY_DIR=os.path.join(scratch, "replays"))
            # VERIF_MC_ROOT: run the checks of another checkout of /verif (e.g. a worktree of the last commit, for an unbiased first pass)
            rc, out = sh([PY, "-m", "mc", c, "--tier", "quick"], cwd=os.environ.get("VERIF_MC_ROOT", VERIF), env=env)
            lines = [l for l in out.splitlines() if l.startswith("VIOLATION") or l.startswith("  #") or l.startswith("[C") or l.startswith("HARNESS")]
            res["checks"][c] = {"rc": rc, "detected": rc == 1, "wall_s": round(time.time() - t, 1),
                                "violations": [re.sub(r"replay=\S+", "replay=<scratch>", l)[:400] for l in lines[:8]]}
    meta["verification"] = res
    meta["verified_against_repo_commit"] = base or sh(["git", "-C", "/repo", "rev-parse", "--short", "HEAD"])[1].strip()
    meta["what_ran"] = ("tools/run_seeded.py: scratch copy of /repo + patch; repository suite with PYTHONPATH=<copy>/src; demo.py against /repo and against the copy; "
                        "`python -m mc <check> --tier quick` with VERIF_REPO=<copy>")
    try:  # keep the record that the first pass missed this change
        if json.load(open(os.path.join(dest, "meta.json"))).get("first_pass_detected") is False:
            meta["first_pass_detected"] = False
    except Exception:  # noqa: BLE001
        pass
    json.dump(meta, open(os.path.join(dest, "meta.json"), "w"), indent=1)
    shutil.rmtree(scratch, ignore_errors=True)
    ok = res.get("repo_tests_pass") and res.get("demo_without_change", {}).get("rc") == 0 and res.get("demo_with_change", {}).get("rc") != 0
    det = {c: v["detected"] for c, v in res.get("checks", {}).items()}
    print(f"{sid}: applied={res['applied']} tests_pass={res.get('repo_tests_pass')} demo_ok={res.get('demo_without_change', {}).get('rc')}/{res.get('demo_with_change', {}).get('rc')} "
          f"confirmed={bool(ok)} detected={det}")


if __name__ == "__main__":
    main()

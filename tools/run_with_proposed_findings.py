"""Run a check with the entries of notes/proposed_findings/<PID>.json treated as known findings IN MEMORY
(known_findings.json is not touched).  Prints every remaining violation class as UNEXPLAINED ...
Usage: [VERIF_REPO=/tmp/copy] /venv/bin/python tools/run_with_proposed_findings.py C09 quick [seed]"""
import sys, os, importlib, json
sys.path.insert(0,'/verif'); os.chdir('/verif')
os.environ.setdefault("PYTHONHASHSEED","0")
if __name__ == "__main__":
    from mc.core import engine, repo, selfcheck
    pid, tier = sys.argv[1], sys.argv[2]
    seed = int(sys.argv[3]) if len(sys.argv) > 3 else 0
    repo.bind(); selfcheck.fast()
    mod = importlib.import_module(f"mc.props.{pid.lower()}")
    run = engine.Run(pid, mod.LEVEL, tier, seed, technique=mod.TECHNIQUE)
    prop = json.load(open(f"/verif/notes/proposed_findings/{pid}.json"))["findings"] if os.path.exists(f"/verif/notes/proposed_findings/{pid}.json") else []
    for k in prop:
        run.known_keys[k["key"]] = k
    mod.plan(run)
    for sig, e in run.viol.items():
        print("UNEXPLAINED", sig, e["count"], json.dumps(e["case"]), e["detail"][:300])
    rc = run.finish()
    sys.exit(rc)

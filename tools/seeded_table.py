#!/venv/bin/python
"""Regenerate the seeded-change table of DESIGN.md from seeded/*/meta.json."""
import glob, json, os, re
HERE = os.path.dirname(os.path.dirname(os.path.abspath(__file__)))
rows = ["| seed | what was changed (author's words) | needs | suite | demo repo/copy | detected by |", "|---|---|---|---|---|---|"]
for d in sorted(glob.glob(os.path.join(HERE, "seeded", "*"))):
    m = json.load(open(os.path.join(d, "meta.json")))
    v = m.get("verification", {})
    det = ", ".join(f"{c}: {'**yes**' if r['detected'] else 'NO'}" for c, r in v.get("checks", {}).items())
    if m.get("first_pass_detected") is False:
        det += " (after strengthening; first pass: no)"
    rc = m.get("recheck") or {}
    if rc.get("checks"):  # last regression run (tools/recheck_seeded.py): only the detecting checks are re-run
        ok = all(x.get("detected") for x in rc["checks"].values())
        det += f"; re-run at {rc.get('repo_commit')}: {'detected' if ok else 'MISSED ' + ','.join(c for c, x in rc['checks'].items() if not x.get('detected'))}"
    def cut(t, n):
        t = re.sub(r"\s+", " ", str(t)).replace("|", "/")
        return t if len(t) <= n else t[: n - 1] + "…"
    rows.append(f"| {os.path.basename(d)} | {cut(m.get('summary', ''), 170)} | {cut(m.get('needs', ''), 150)} | {'pass' if v.get('repo_tests_pass') else 'FAIL'} | "
                f"{v.get('demo_without_change', {}).get('rc')}/{v.get('demo_with_change', {}).get('rc')} | {det} |")
p = os.path.join(HERE, "DESIGN.md")
s = open(p).read()
block = "<!-- SEEDED-TABLE-BEGIN -->\n" + "\n".join(rows) + "\n<!-- SEEDED-TABLE-END -->"
s = re.sub(r"<!-- SEEDED-TABLE-BEGIN -->.*?<!-- SEEDED-TABLE-END -->", lambda m: block, s, flags=re.S)
open(p, "w").write(s)
print(len(rows) - 2, "seeded changes")

#!/venv/bin/python
"""Regression over the kept seeded changes: re-apply each one to a scratch copy of /repo (HEAD; if the patch no longer
applies because the code it edits was repaired since, the commit it was verified against) and re-run only the quick
checks that are recorded as detecting it.  Updates meta.json["recheck"]; never touches /repo.

usage: tools/recheck_seeded.py [ids...]   (default: all of /verif/seeded)"""
import json
import os
import re
import shutil
import subprocess
import sys
import time

VERIF = "/verif"
PY = "/venv/bin/python"


def sh(cmd, **kw):
    p = subprocess.run(cmd, capture_output=True, text=True, **kw)
    return p.returncode, p.stdout + p.stderr


def main():
    ids = sys.argv[1:] or sorted(os.listdir(os.path.join(VERIF, "seeded")))
    head = sh(["git", "-C", "/repo", "rev-parse", "--short", "HEAD"])[1].strip()
    for sid in ids:
        d = os.path.join(VERIF, "seeded", sid)
        meta = json.load(open(os.path.join(d, "meta.json")))
        rec = (meta.get("verification") or {}).get("checks") or {}
        checks = [c for c, v in rec.items() if v.get("detected")] or [sid.split("-")[0]]
        if os.environ.get("RECHECK_CHECKS"):  # second pass of a seeding round: the named checks, recorded as verification results
            checks = [c if c != "OWN" else sid.split("-")[0] for c in os.environ["RECHECK_CHECKS"].split(",")]
            checks = list(dict.fromkeys(checks))
        scratch = f"/tmp/recheck-{sid}-{os.getpid()}"
        used = None
        for base in (None, meta.get("verified_against_repo_commit"), "021ef1c"):
            shutil.rmtree(scratch, ignore_errors=True)
            if base is None:
                sh(["rsync", "-a", "--exclude", ".git", "--exclude", "docs", "/repo/", scratch + "/"])
            else:
                os.makedirs(scratch)
                if subprocess.run(f"git -C /repo archive {base} | tar -x -C {scratch} --exclude=docs", shell=True).returncode:
                    continue
            rc, out = sh(["git", "apply", "--unsafe-paths", "--directory", scratch, os.path.join(d, "patch.diff")], cwd="/")
            if rc == 0:
                used = base or head
                break
        res = {"repo_commit": used, "checks": {}}
        if used is None:
            print(f"{sid}: patch does not apply", flush=True)
        else:
            evdir = os.path.join(scratch, "evidence")
            os.makedirs(evdir, exist_ok=True)
            for c in checks:
                t = time.time()
                env = dict(os.environ, VERIF_REPO=scratch, VERIF_EVIDENCE_DIR=evdir, VERIF_REPLAY_DIR=os.path.join(scratch, "replays"),
                           VERIF_STOP_ON_VIOLATION="1")
                rc, out = sh([PY, "-m", "mc", c, "--tier", "quick"], cwd=VERIF, env=env)
                res["checks"][c] = {"rc": rc, "detected": rc == 1, "wall_s": round(time.time() - t, 1)}
            print(f"{sid}: base={used} " + " ".join(f"{c}={'DETECTED' if v['detected'] else 'MISSED rc=' + str(v['rc'])}" for c, v in res["checks"].items()), flush=True)
        if os.environ.get("RECHECK_CHECKS"):
            for c, v in res["checks"].items():
                meta.setdefault("verification", {}).setdefault("checks", {})[c] = dict(v, violations=["second pass: tools/recheck_seeded.py with RECHECK_CHECKS, early stop"])
        else:
            meta["recheck"] = res
        json.dump(meta, open(os.path.join(d, "meta.json"), "w"), indent=1)
        shutil.rmtree(scratch, ignore_errors=True)


if __name__ == "__main__":
    main()

#!/venv/bin/python
"""Regenerate /verif/MANIFEST.json from the check modules (mc/props/cNN.py)."""
import importlib
import json
import os
import sys

HERE = os.path.dirname(os.path.dirname(os.path.abspath(__file__)))
sys.path.insert(0, HERE)

ALL = [f"C{i:02d}" for i in range(1, 21)]
NOT_BUILT_REASON = "check not built yet in this round (see DESIGN.md section 8, build order); no claim is made"


def main():
    checks, na = [], []
    ready = set(open(os.path.join(HERE, "tools", "ready.txt")).read().split())
    for pid in ALL:
        path = os.path.join(HERE, "mc", "props", pid.lower() + ".py")
        if not os.path.exists(path) or pid not in ready:
            na.append({"property_id": pid, "reason": NOT_BUILT_REASON})
            continue
        m = importlib.import_module(f"mc.props.{pid.lower()}")
        if getattr(m, "NOT_APPLICABLE", None):
            na.append({"property_id": pid, "reason": m.NOT_APPLICABLE})
            continue
        checks.append({
            "property_id": pid,
            "quick_cmd": f"/venv/bin/python -m mc {pid} --tier quick",
            "thorough_cmd": f"/venv/bin/python -m mc {pid} --tier thorough",
            "evidence_file": f"/verif/evidence/{pid}.json",
            "replay_cmd_template": f"/venv/bin/python -m mc {pid} --replay {{path}}",
            "engine": getattr(m, "ENGINE", "mc"),
            "level_claimed": {"category": m.LEVEL, "text": getattr(m, "LEVEL_TEXT", m.__doc__.strip().split("\n\n")[0]),
                              "design_ref": f"DESIGN.md section 5, {pid}"},
            "level_note": getattr(m, "LEVEL_NOTE", "trusted base: the independent RTF reader (mc/rtfreader, self-tested), the DocSpec builder (public constructors only), CPython; bounds as stated in the evidence 'rule'"),
            "technique": m.TECHNIQUE,
        })
    man = {
        "version": 1,
        "setup_cmd": "/venv/bin/python -m selftest",
        "hooks": {
            "guard": "RTFLITE_VERIF",
            "enable": "none needed: no source hook exists; checks import rtflite from /repo/src (or $VERIF_REPO/src) in fresh worker processes and instrument it from outside (sys.settrace, converter stub, private temp dir)",
            "baseline_off_cmd": "cd /repo && /venv/bin/python -m pytest -ra -q -p no:cacheprovider --timeout=900 --continue-on-collection-errors",
            "source_commits": [],
            "add_only": True,
        },
        "engines": [
            {"name": "mc", "path": "/verif/mc", "serves_properties": [c["property_id"] for c in checks],
             "kind_free_text": "hand-written explicit-state / bounded-exhaustive explorers driving the real rtflite code (configuration graph, paginator automaton, process-state machine, preemption-bounded thread scheduler, fault enumerator) with an independent RTF reader as observation function"},
        ],
        "checks": checks,
        "notes": "All checks: cwd=/verif, honour VERIF_SEED / VERIF_TIER / VERIF_REPO; exit 0 held (KNOWN-FINDING lines for findings listed in known_findings.json), 1 VIOLATION, 2 harness error.",
        "not_applicable": na,
    }
    with open(os.path.join(HERE, "MANIFEST.json"), "w") as f:
        json.dump(man, f, indent=1)
    print(f"MANIFEST.json: {len(checks)} checks, {len(na)} not_applicable")


if __name__ == "__main__":
    main()

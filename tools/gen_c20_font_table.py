#!/venv/bin/python
"""Freeze the RTF font number -> font name table used by C20 ("a font given by number or by name gives
identical results").  Generated ONCE from /repo at the pinned commit; the check reads data/c20_font_numbers.json
and never the live table, so a later change of the live mapping is detected instead of followed.

    /venv/bin/python /verif/tools/gen_c20_font_table.py
"""
import json
import os
import subprocess
import sys

sys.path.insert(0, "/repo/src")
from rtflite.fonts_mapping import FontMapping  # noqa: E402

HERE = os.path.dirname(os.path.dirname(os.path.abspath(__file__)))


def main():
    table = FontMapping.get_font_table()
    by_number = {str(n): name for n, name in zip(table["type"], table["name"])}
    other = {str(k): v for k, v in FontMapping.get_font_number_to_name_mapping().items()}
    assert by_number == other, "the two live tables disagree"
    try:
        commit = subprocess.run(["git", "-C", "/repo", "rev-parse", "HEAD"], capture_output=True, text=True).stdout.strip()
    except Exception:  # noqa: BLE001
        commit = ""
    out = {"_doc": "RTF font number -> name, frozen from /repo/src/rtflite/fonts_mapping.py (documented as fonts 1-10)",
           "source_commit": commit, "fonts": by_number}
    path = os.path.join(HERE, "data", "c20_font_numbers.json")
    with open(path, "w") as f:
        json.dump(out, f, indent=1)
    print(path, by_number)


if __name__ == "__main__":
    main()

import polars as pl, rtflite as rtf, rd, io, contextlib, struct, os
from rtflite import assemble_rtf
df = pl.DataFrame({"a":[f"r{i}" for i in range(5)],"b":list(range(5))})
def W(doc, p):
    with contextlib.redirect_stdout(io.StringIO()): doc.write_rtf(p)
d1 = rtf.RTFDocument(df=df, rtf_page=rtf.RTFPage(nrow=4), rtf_title=rtf.RTFTitle(text="ONE"), rtf_body=rtf.RTFBody(text_color="red"))
d2 = rtf.RTFDocument(df=df.head(2), rtf_page=rtf.RTFPage(orientation="landscape"), rtf_title=rtf.RTFTitle(text="TWO"), rtf_page_header=rtf.RTFPageHeader(), rtf_body=rtf.RTFBody(text_color="blue"))
png = b"\x89PNG\r\n\x1a\n" + b"\x00\x00\x00\rIHDR" + struct.pack(">II", 300, 200) + b"\x08\x02\x00\x00\x00" + b"\xde\xad\xbe\xef" + os.urandom(50)
open("t/f.png","wb").write(png)
d3 = rtf.RTFDocument(rtf_figure=rtf.RTFFigure(figures=["t/f.png","t/f.png"], fig_width=[3.0], fig_height=[2.0,2.5,9]), rtf_title=rtf.RTFTitle(text="FIG"), rtf_footnote=rtf.RTFFootnote(text="fn", as_table=False))
W(d1,"t/1.rtf"); W(d2,"t/2.rtf"); W(d3,"t/3.rtf")
for combo in (["t/1.rtf","t/2.rtf"],["t/2.rtf","t/1.rtf","t/3.rtf"],["t/3.rtf","t/1.rtf"],["t/1.rtf"]):
    assemble_rtf(combo, "t/out.rtf")
    b = open("t/out.rtf","rb").read()
    try:
        d = rd.parse(b)
        print(combo, "pages", len(d["pages"]), "hdr", d["header"], "colortbl", d["colortbl"], "picts", len(d["picts"]))
        for pg in d["pages"]:
            print("   ", [ (x[1] if x[0]=="par" else x[2]) for x in pg if (x[0]=="row" or x[1])][:4])
    except Exception as e:
        print(combo, "PARSE FAIL", e)
print(open("t/1.rtf","rb").read()==open("t/out.rtf","rb").read())
d = rd.parse(open("t/3.rtf","rb").read())
for p in d["picts"]:
    print({k:v for k,v in p.items() if k!="hex"}, bytes.fromhex(p["hex"].decode())==png)

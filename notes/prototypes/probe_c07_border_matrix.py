import polars as pl, rtflite as rtf, rd, itertools
df = pl.DataFrame({"a":[f"r{i}" for i in range(5)],"b":list(range(5))})
def P(doc): return rd.parse(doc.rtf_encode().encode())
res = {}
for fn, src, pf, ps, hdr in itertools.product(["none","table","par"],["none","table","par"],["first","last","all"],["first","last","all"],["explicit","none"]):
    kw = {}
    if fn!="none": kw["rtf_footnote"]=rtf.RTFFootnote(text="FN", as_table=(fn=="table"))
    if src!="none": kw["rtf_source"]=rtf.RTFSource(text="SRC", as_table=(src=="table"))
    if hdr=="explicit": kw["rtf_column_header"]=[rtf.RTFColumnHeader(text=["A","B"])]
    else: kw["rtf_column_header"]=[]
    doc = rtf.RTFDocument(df=df, rtf_page=rtf.RTFPage(nrow=6, page_footnote=pf, page_source=ps, border_first="double", border_last="thick"),
        rtf_body=rtf.RTFBody(border_first="dashed", border_last="dotted"), **kw)
    d = P(doc)
    bad = []
    pages = d["pages"]
    for pi, pg in enumerate(pages):
        rows = [b for b in pg if b[0]=="row"]
        if not rows: bad.append(f"p{pi}:norows"); continue
        first, last = rows[0], rows[-1]
        datarows = [r for r in rows if r[2][0].startswith("r")]
        # top of first table row of doc
        if pi==0:
            if any(c.get("t")!="brdrdb" for c in first[3]): bad.append("doc-top")
        # first data row top
        exp = "brdrdash" if (pi>0 or hdr=="explicit") else "brdrdb"
        if any(c.get("t")!=exp for c in datarows[0][3]): bad.append(f"p{pi}:datatop={datarows[0][3][0].get('t')}")
        # last row bottom
        exp = "brdrth" if pi==len(pages)-1 else "brdrdot"
        if any(c.get("b")!=exp for c in last[3]): bad.append(f"p{pi}:lastbot={last[3][0].get('b')}({last[2][0]})")
    res[(fn,src,pf,ps,hdr)] = (len(pages), bad)
nbad = 0
for k,v in res.items():
    if v[1]:
        nbad+=1; print(k, v)
print(nbad, "of", len(res))

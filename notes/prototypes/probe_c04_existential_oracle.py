import polars as pl, rtflite as rtf, rd, itertools, sys
from PIL import ImageFont
FONT="/repo/src/rtflite/fonts/liberation/LiberationSerif-Regular.ttf"
f9=ImageFont.truetype(FONT, size=9)
def filler(tag, lines, col_in):
    if lines==1: return tag
    target=(lines-0.5)*col_in*72
    s=tag
    while f9.getlength(s)<target: s+=" wwww"
    return s
def P(doc): return rd.parse(doc.rtf_encode().encode())
def greedy(costs, forced, K):
    pages=[];cur=[];fill=0
    for i,(c,fb) in enumerate(zip(costs,forced)):
        if cur and (fb or fill+c>K): pages.append(cur);cur=[];fill=0
        cur.append(i); fill+=c
    if cur: pages.append(cur)
    return pages
def run_gamma(strategy, nrow, hdr, fn, src, L, n, new_page=False):
    R_max=(1 if hdr else 0)+(1 if fn else 0)+(1 if src else 0)+(1 if strategy=="subline" else 0)
    Ks=list(range(max(1,nrow-R_max), nrow+1))
    cands={(K,sc,cc) for K in Ks for sc in ("one","rendered") for cc in ("zero","rendered")}
    ncases=0
    gpat = [()] if strategy=="plain" else None
    for hs in itertools.product((1,2,3),repeat=n):
        pats = [tuple([0]*n)] if strategy=="plain" else itertools.product(range(L+1), repeat=n-1)
        for pat in pats:
            if strategy!="plain": pat=(1,)+tuple(pat)
            # build keys
            keys=[]; cur=[0]*L
            for i,g in enumerate(pat):
                if strategy!="plain" and g>0:
                    cur[g-1]+=1
                    for l in range(g,L): cur[l]+=1
                keys.append(tuple(cur))
            colw = 6.25/2
            data={}
            if strategy!="plain":
                for l in range(L): data[f"g{l}"]=[f"G{l}v{k[l]}" for k in keys]
            data["x"]=[filler(f"D{i}",hs[i],colw) for i in range(n)]
            data["y"]=[f"E{i}" for i in range(n)]
            df=pl.DataFrame(data)
            kw={}
            ncolshown=2
            kw["rtf_column_header"]=[rtf.RTFColumnHeader(text=["HX","HY"] if strategy!="plain" or True else None)] if hdr else []
            if fn: kw["rtf_footnote"]=rtf.RTFFootnote(text="FTN")
            if src: kw["rtf_source"]=rtf.RTFSource(text="SRC")
            bkw={}
            if strategy=="page_by": bkw=dict(page_by=[f"g{l}" for l in range(L)], new_page=new_page, pageby_row="first_row" if new_page else "column")
            if strategy=="subline": bkw=dict(subline_by=[f"g{l}" for l in range(L)])
            doc=rtf.RTFDocument(df=df, rtf_page=rtf.RTFPage(nrow=nrow), rtf_body=rtf.RTFBody(**bkw), **kw)
            d=P(doc); ncases+=1
            obs=[]
            for pg in d["pages"]:
                rows=[int(b[2][0].split()[0][1:]) for b in pg if b[0]=="row" and b[2][0].startswith("D")]
                obs.append(rows)
            # forced
            forced=[False]*n
            for i in range(1,n):
                if strategy=="subline" and keys[i]!=keys[i-1]: forced[i]=True
                if strategy=="page_by" and new_page and keys[i]!=keys[i-1]: forced[i]=True
            surv=set()
            for (K,sc,cc) in cands:
                # simulate greedy with policy; costs depend on page start -> do explicit sim
                pages=[];curp=[];fill=0
                for i in range(n):
                    # heading rows rendered if row i starts group (levels changed) 
                    if strategy=="page_by":
                        if i==0: chg=L
                        else:
                            chg=0
                            for l in range(L):
                                if keys[i][l]!=keys[i-1][l]: chg=L-l; break
                        start_cost = (0 if chg==0 else (1 if sc=="one" else chg))
                    else: start_cost=0; chg=0
                    c=hs[i]+start_cost
                    if curp and (forced[i] or fill+c>K):
                        pages.append(curp);curp=[];fill=0
                    if not curp and strategy=="page_by" and chg==0 and cc=="rendered":
                        fill+=L  # continuation headings all levels
                    curp.append(i); fill+=c
                if curp: pages.append(curp)
                if pages==obs: surv.add((K,sc,cc))
            cands=surv
            if not cands:
                return ncases, None, (hs,pat,obs)
    return ncases, cands, None
import time
t=time.time()
for strategy,L,new_page in (("plain",0,False),("page_by",1,False),("page_by",2,False),("page_by",1,True),("subline",1,False)):
    for nrow in (3,4,6):
        for hdr,fn,src in ((False,False,False),(True,True,True),(True,False,False)):
            r=run_gamma(strategy,nrow,hdr,fn,src,L,4,new_page)
            print(strategy,L,new_page,nrow,hdr,fn,src,"cases",r[0],"surviving",sorted(r[1]) if r[1] else None, r[2] if r[2] else "")
print(time.time()-t)

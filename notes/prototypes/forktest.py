import os, sys, time, pickle
import polars as pl, rtflite as rtf  # imported, not used, no threads started by us
import pkgutil, importlib
for m in pkgutil.walk_packages(rtf.__path__, "rtflite."): importlib.import_module(m.name)
def child_work(i):
    df = pl.DataFrame({"a":["x","y"],"b":[i,2]})
    d = rtf.RTFDocument(df=df, rtf_body=rtf.RTFBody(text_color="red"))
    return len(d.rtf_encode())
t=time.time(); ok=0
for i in range(200):
    r,w=os.pipe()
    pid=os.fork()
    if pid==0:
        os.close(r)
        try: out=child_work(i)
        except BaseException as e: out=repr(e)
        os.write(w, pickle.dumps(out)); os._exit(0)
    os.close(w)
    data=b""
    while True:
        c=os.read(r,65536)
        if not c: break
        data+=c
    os.close(r); os.waitpid(pid,0)
    ok += isinstance(pickle.loads(data), int)
print("forks ok", ok, "ms each", (time.time()-t)/200*1000)

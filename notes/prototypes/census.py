import sys, types, hashlib, polars as pl, rtflite as rtf
import rtflite.encoding.unified_encoder, rtflite.pagination.strategies.registry
IMMUT=(int,float,str,bytes,bool,type(None),complex,frozenset,range)
def canon(o, seen, depth=0):
    if isinstance(o, IMMUT): return repr(o)
    if id(o) in seen: return "<cyc>"
    if depth>6: return "<deep>"
    seen=seen|{id(o)}
    if isinstance(o,(list,tuple)): return "["+",".join(canon(x,seen,depth+1) for x in o)+"]"
    if isinstance(o,dict): return "{"+",".join(f"{canon(k,seen,depth+1)}:{canon(v,seen,depth+1)}" for k,v in o.items())+"}"
    if isinstance(o,(set,)): return "set("+",".join(sorted(canon(x,seen,depth+1) for x in o))+")"
    if isinstance(o,(types.FunctionType,types.BuiltinFunctionType,types.MethodType,type,types.ModuleType,classmethod,staticmethod,property)): return f"<{type(o).__name__} {getattr(o,'__qualname__',getattr(o,'__name__','?'))}>"
    if type(o).__module__.startswith("rtflite") and hasattr(o,"__dict__"):
        return f"<{type(o).__qualname__} "+canon(vars(o),seen,depth+1)+">"
    return f"<opaque {type(o).__module__}.{type(o).__qualname__}>"
def census():
    out={}
    for name,mod in sorted(sys.modules.items()):
        if not name.startswith("rtflite") or mod is None: continue
        for k,v in sorted(vars(mod).items()):
            if k.startswith("__"): continue
            if isinstance(v,type) and v.__module__.startswith("rtflite"):
                for ak,av in sorted(vars(v).items()):
                    if ak.startswith("__") and ak.endswith("__"): continue
                    if isinstance(av,(dict,list,set)) or (hasattr(av,"__dict__") and type(av).__module__.startswith("rtflite")):
                        out[f"{name}.{k}.{ak}"]=canon(av,frozenset())
            elif isinstance(v,(dict,list,set)) or (hasattr(v,"__dict__") and type(v).__module__.startswith("rtflite") and not isinstance(v,type)):
                out[f"{name}.{k}"]=hashlib.md5(canon(v,frozenset()).encode()).hexdigest() if len(canon(v,frozenset()))>200 else canon(v,frozenset())
    return out
c0=census(); print(len(c0))
df=pl.DataFrame({"a":["x","y","x"],"b":[1,2,3]})
d=rtf.RTFDocument(df=df, rtf_body=rtf.RTFBody(group_by="a", text_color="red"))
c1=census()
print("after construct:", {k:(c0.get(k),v) for k,v in c1.items() if c0.get(k)!=v})
try: d.rtf_encode()
except ValueError: pass
c2=census()
print("after failed encode:", {k:(c1.get(k),v) for k,v in c2.items() if c1.get(k)!=v})

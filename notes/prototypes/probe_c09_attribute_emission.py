import polars as pl, rtflite as rtf, re
df = pl.DataFrame({"a":["D0.0","D1.0","D2.0"],"b":["D0.1","D1.1","D2.1"]})
def cells(s):
    # returns dict tag -> (cell def string, content string) single page
    out={}
    rows=s.split("\\trowd")[1:]
    for r in rows:
        lines=r.split("\n")
        defs=[l for l in lines if "\\cellx" in l]; cont=[l for l in lines if l.endswith("\\cell")]
        hdr=lines[0]
        for d,c in zip(defs,cont):
            m=re.search(r"(D\d\.\d)",c)
            if m: out[m.group(1)]=(hdr,d,c)
    return out
ATTRS={
 "text_font":[[1,4],[9,1],[4,9]], "text_font_size":[[9,12],[18,9],[12,18]], "text_format":[["b","i"],["u",""],["bi","s"]],
 "text_color":[["red","blue"],["green","red"],["blue","green"]], "text_background_color":[["red","blue"],["green","red"],["blue","green"]],
 "text_justification":[["l","c"],["r","j"],["c","l"]], "text_indent_first":[[100,200],[300,100],[200,300]], "text_indent_left":[[100,200],[300,100],[200,300]],
 "text_indent_right":[[100,200],[300,100],[200,300]], "text_space":[[1,2],[3,1],[2,3]], "text_space_before":[[10,20],[30,10],[20,30]], "text_space_after":[[10,20],[30,10],[20,30]],
 "text_hyphenation":[[True,False],[False,True],[True,True]],
 "border_left":[["single","double"],["dotted","single"],["double","dotted"]], "border_right":[["single","double"],["dotted","single"],["double","dotted"]],
 "border_top":[["single","double"],["dotted","single"],["double","dotted"]], "border_bottom":[["single","double"],["dotted","single"],["double","dotted"]],
 "border_width":[[15,30],[45,15],[30,45]], "border_color_top":[["red","blue"],["green","red"],["blue","green"]],
 "cell_vertical_justification":[["top","center"],["bottom","top"],["center","bottom"]], "cell_height":[[0.15,0.3],[0.5,0.15],[0.3,0.5]], "cell_justification":[["l","c"],["r","l"],["c","r"]],
}
base=cells(rtf.RTFDocument(df=df, rtf_column_header=[]).rtf_encode())
for a,v in ATTRS.items():
    try:
        s=rtf.RTFDocument(df=df, rtf_column_header=[], rtf_body=rtf.RTFBody(**{a:v})).rtf_encode()
    except Exception as e:
        print(a,"EXC",type(e).__name__,str(e)[:80]); continue
    c=cells(s)
    diffs={}
    for tag in sorted(c):
        d=[]
        for k in (0,1,2):
            if c[tag][k]!=base[tag][k]:
                # show tokens that differ
                ta=set(re.findall(r"\\[a-z]+-?\d*",c[tag][k])); tb=set(re.findall(r"\\[a-z]+-?\d*",base[tag][k]))
                d.append("+"+",".join(sorted(ta-tb))+" -"+",".join(sorted(tb-ta)))
        diffs[tag]=";".join(d)
    print(a, diffs)

import polars as pl, rtflite as rtf, rd, itertools
def P(doc): return rd.parse(doc.rtf_encode().encode())
def pages_rows(d): return [[b[2] for b in pg if b[0]=="row"] for pg in d["pages"]]
bad=0; tot=0
# 2-level page_by: all key sequences sorted contiguous with runs
L1=["A","B"]; L2=["u","v","-----"]
import itertools
def seqs(n):
    # all sequences of (l1,l2) of length n that are contiguous at both levels
    keys=[(a,b) for a in L1 for b in L2]
    for s in itertools.product(keys, repeat=n):
        # contiguity l1
        ok=True
        seen=[]; 
        for k in s:
            if not seen or seen[-1]!=k: 
                if k in seen: ok=False;break
                seen.append(k)
        if not ok: continue
        l1=[k[0] for k in s]; seen=[]
        for k in l1:
            if not seen or seen[-1]!=k:
                if k in seen: ok=False;break
                seen.append(k)
        if ok: yield s
issues={}
for n in range(1,6):
  for s in seqs(n):
    for nrow in (3,4,5):
      for hdr in (True,False):
        df=pl.DataFrame({"g1":[k[0] for k in s],"g2":[k[1] for k in s],"x":[f"D{i}" for i in range(n)]})
        kw={}
        if not hdr: kw["rtf_column_header"]=[]
        else: kw["rtf_column_header"]=[rtf.RTFColumnHeader(text=["X"])]
        doc=rtf.RTFDocument(df=df, rtf_page=rtf.RTFPage(nrow=nrow), rtf_body=rtf.RTFBody(page_by=["g1","g2"]), **kw)
        tot+=1
        try: pr=pages_rows(P(doc))
        except Exception as e:
            issues.setdefault(type(e).__name__,[]).append((s,nrow,hdr)); continue
        # oracle: per page, walk rows; maintain current heading state; reset at page top
        di=0
        for pi,rows in enumerate(pr):
            cur=[None,None]  # headings shown on this page so far
            prev_kind=None
            for r in rows:
                t=r[0]
                if t=="X" : continue
                if t.startswith("D"):
                    i=int(t[1:]); 
                    if i!=di: issues.setdefault("order",[]).append((s,nrow,hdr,pr)); 
                    di+=1
                    exp=[s[i][0], s[i][1] if s[i][1]!="-----" else None]
                    # expected: cur must equal exp for non-divider levels
                    if cur[0]!=exp[0] or (exp[1] is not None and cur[1]!=exp[1]):
                        issues.setdefault("heading-missing",[]).append((s,nrow,hdr,pr))
                    if exp[1] is None and cur[1] is not None and prev_kind=="H2":
                        issues.setdefault("divider-heading",[]).append((s,nrow,hdr,pr))
                    prev_kind="D"
                else:
                    if t=="-----": issues.setdefault("divider-shown",[]).append((s,nrow,hdr,pr))
                    if t in L1: cur=[t,None]; prev_kind="H1"
                    else: cur[1]=t; prev_kind="H2"
            if prev_kind in ("H1","H2"): issues.setdefault("stranded",[]).append((s,nrow,hdr,pr))
            nrows=len(rows)
            ndata=len([r for r in rows if r[0].startswith("D")])
            if nrows>nrow and ndata>1: issues.setdefault("budget",[]).append((s,nrow,hdr,pr))
        if di!=n: issues.setdefault("lost",[]).append((s,nrow,hdr,pr))
print(tot)
for k,v in issues.items():
    print(k, len(v)); print("   e.g.", v[0])

import polars as pl, rtflite as rtf, rd, itertools, time, io, contextlib, os
def P(doc): return rd.parse(doc.rtf_encode().encode())
# C13 one level, alphabet {a,b,None}, n<=6, nrow such that page starts everywhere
classes={}
tot=0
t=time.time()
for n in range(1,6):
    for seq in itertools.product(("a","b",None), repeat=n):
        # contiguity
        runs=[]; 
        for v in seq:
            if not runs or runs[-1]!=v: runs.append(v)
        contig = len(runs)==len(set(runs))
        for nrow in range(1,n+2):
            df=pl.DataFrame({"g":list(seq),"x":[f"D{i}" for i in range(n)]}, schema={"g":pl.Utf8,"x":pl.Utf8})
            doc=rtf.RTFDocument(df=df, rtf_page=rtf.RTFPage(nrow=nrow), rtf_column_header=[], rtf_body=rtf.RTFBody(group_by="g"))
            tot+=1
            try: d=P(doc)
            except ValueError as e:
                if contig: classes.setdefault("unexpected ValueError",[]).append((seq,nrow))
                continue
            if not contig: classes.setdefault("noncontig accepted",[]).append((seq,nrow)); continue
            for pg in d["pages"]:
                rows=[b[2] for b in pg if b[0]=="row"]
                for j,r in enumerate(rows):
                    i=int(r[1][1:])
                    exp_blank = (j>0 and i>0 and seq[i]==seq[i-1])
                    exp = "" if (exp_blank or seq[i] is None) else seq[i]
                    if r[0]!=exp:
                        kind = "after-null" if (i>0 and seq[i-1] is None and seq[i] is not None and j>0) else ("null-after-value" if seq[i] is None else "other")
                        classes.setdefault(kind,[]).append((seq,nrow,i,r[0],exp))
print(tot, time.time()-t)
for k,v in classes.items(): print(k,len(v),v[0])
# C10 throughput: 2000 single-char cells
chars=[chr(c) for c in range(0x100,0x100+2000)]
df=pl.DataFrame({f"c{j}":[f"D{i}.{j}|"+chars[i*4+j] for i in range(500)] for j in range(4)})
doc=rtf.RTFDocument(df=df)
t=time.time(); 
with contextlib.redirect_stdout(io.StringIO()): doc.write_rtf("t/u.rtf")
print("encode 2000 cells", time.time()-t)
t=time.time(); d=rd.parse(open("t/u.rtf","rb").read()); print("parse", time.time()-t, len(d["pages"]))
# polars accepts noncharacters / all planes?
for cp in (0xFFFE,0xFFFF,0x1FFFE,0x10FFFF,0xE000,0xD7FF,0x80,0x9F,0xAD):
    try:
        s=pl.DataFrame({"a":[chr(cp)]})["a"][0]; print(hex(cp), s==chr(cp))
    except Exception as e: print(hex(cp), "ERR", e)

import polars as pl, rtflite as rtf, rd, itertools, re
def P(doc): return rd.parse(doc.rtf_encode().encode())
issues={}
tot=0
for nrows, strat, pt, pf, ps, fn, src, pbh, hdr in itertools.product([2,5,9],["plain","page_by","subline"],["first","last","all"],["first","last","all"],["first","last","all"],["none","table","par"],["none","table","par"],[True,False],["explicit","default","none"]):
    df=pl.DataFrame({"g":[("G1" if i<nrows//2+1 else "G2") for i in range(nrows)],"x":[f"D{i}" for i in range(nrows)],"y":[f"E{i}" for i in range(nrows)]})
    kw={}
    if fn!="none": kw["rtf_footnote"]=rtf.RTFFootnote(text="FTN", as_table=(fn=="table"))
    if src!="none": kw["rtf_source"]=rtf.RTFSource(text="SRC", as_table=(src=="table"))
    ncol = 3 if strat=="plain" else 2
    if hdr=="explicit": kw["rtf_column_header"]=[rtf.RTFColumnHeader(text=[f"H{j}" for j in range(ncol)])]
    elif hdr=="none": kw["rtf_column_header"]=[]
    bkw={"pageby_header":pbh}
    if strat=="page_by": bkw["page_by"]=["g"]
    if strat=="subline": bkw["subline_by"]=["g"]
    doc=rtf.RTFDocument(df=df, rtf_page=rtf.RTFPage(nrow=6,page_title=pt,page_footnote=pf,page_source=ps), rtf_title=rtf.RTFTitle(text="TTL"), rtf_subline=rtf.RTFSubline(text="SUB"), rtf_body=rtf.RTFBody(**bkw), **kw)
    tot+=1
    try: d=P(doc)
    except Exception as e:
        issues.setdefault("EXC "+type(e).__name__,[]).append((nrows,strat,pt,pf,ps,fn,src,pbh,hdr)); continue
    pages=d["pages"]; n=len(pages)
    for pi,pg in enumerate(pages):
        roles=[]
        for b in pg:
            t = b[1] if b[0]=="par" else b[2][0]
            if b[0]=="par" and not t: continue
            if t=="TTL": roles.append("title")
            elif t=="SUB": roles.append("subline")
            elif t in ("G1","G2"): roles.append("ghead")
            elif t.startswith("H") or t in ("x","g"): roles.append("colhdr")
            elif t.startswith("D"): roles.append("data")
            elif t=="FTN": roles.append("fn")
            elif t=="SRC": roles.append("src")
            else: roles.append("?"+t)
        def want(opt): return n==1 or opt=="all" or (opt=="first" and pi==0) or (opt=="last" and pi==n-1)
        key=(nrows,strat,pt,pf,ps,fn,src,pbh,hdr,pi,n,tuple(roles))
        if (roles.count("title")==1)!=want(pt) or roles.count("title")>1: issues.setdefault("title",[]).append(key)
        if (roles.count("subline")==1)!=want(pt): issues.setdefault("subline",[]).append(key)
        if fn!="none" and (roles.count("fn")==1)!=want(pf): issues.setdefault("fn",[]).append(key)
        if src!="none" and (roles.count("src")==1)!=want(ps): issues.setdefault("src",[]).append(key)
        wanthdr = hdr!="none" and (pi==0 or pbh)
        if (roles.count("colhdr")>=1)!=wanthdr: issues.setdefault("colhdr",[]).append(key)
        order={"title":0,"subline":1,"ghead":2,"colhdr":3,"data":4,"fn":5,"src":6}
        seq=[order.get(r,99) for r in roles if not (r=="ghead" and strat=="page_by")]
        if seq!=sorted(seq): issues.setdefault("order",[]).append(key)
print(tot)
for k,v in issues.items(): print(k,len(v)); print("   e.g.",v[0])

import polars as pl, rtflite as rtf
DF2 = lambda: pl.DataFrame({"a": ["r0", "r1", "r2"], "b": [1, 2, 3]})
DF1 = lambda: pl.DataFrame({"a": ["r0", "r1", "r2"]})
DFBAD = lambda: pl.DataFrame({"a": ["x", "y", "x"], "b": [1, 2, 3]})
def mk_shared():
    return {"body": rtf.RTFBody(), "sub": rtf.RTFSubline(text="S0"), "page": rtf.RTFPage(nrow=3)}
POOL = {
    "plain": lambda sh: rtf.RTFDocument(df=DF2()),
    "red": lambda sh: rtf.RTFDocument(df=DF2(), rtf_body=rtf.RTFBody(text_color="red"), rtf_page=rtf.RTFPage(nrow=3)),
    "bad": lambda sh: rtf.RTFDocument(df=DFBAD(), rtf_body=rtf.RTFBody(group_by="a", text_color="blue")),
    "multi": lambda sh: rtf.RTFDocument(df=[DF2(), DF2()], rtf_body=[rtf.RTFBody(text_color="red"), rtf.RTFBody(text_color="green")], rtf_footnote=rtf.RTFFootnote(text="F0")),
    "shA": lambda sh: rtf.RTFDocument(df=DF2(), rtf_body=sh["body"], rtf_subline=sh["sub"], rtf_page=sh["page"]),
    "shB": lambda sh: rtf.RTFDocument(df=DF1(), rtf_body=sh["body"], rtf_subline=sh["sub"], rtf_page=sh["page"]),
}

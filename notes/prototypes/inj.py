import sys, os, tempfile, io, contextlib, pathlib, shutil, time
import polars as pl, rtflite as rtf
LIB="/repo/src/rtflite/"
class Fault(Exception): pass
class Stub:
    def __init__(self, mode): self.mode=mode
    def convert(self, input_files, output_dir, format="pdf", overwrite=False):
        out = pathlib.Path(output_dir)/f"{pathlib.Path(input_files).stem}.{format}"
        if self.mode=="raise_before": raise RuntimeError("conv fail")
        out.write_bytes(b"CONVERTED:"+pathlib.Path(input_files).read_bytes()[:20])
        if self.mode=="raise_after": raise RuntimeError("conv fail late")
        if self.mode=="list": return [out]
        if self.mode=="html_res":
            (out.parent/f"{out.name}_files").mkdir(); (out.parent/f"{out.name}_files"/"img.png").write_bytes(b"x")
        return out
def snapshot(root):
    s={}
    for p in sorted(pathlib.Path(root).rglob("*")):
        s[str(p.relative_to(root))] = p.read_bytes() if p.is_file() else None
    return s
df = pl.DataFrame({"a":["x","y"],"b":[1,2]})
doc = rtf.RTFDocument(df=df, rtf_title=rtf.RTFTitle(text="T"))
def run(k, method, conv, pre):
    box = tempfile.mkdtemp(prefix="box", dir="/root/scratch/t")
    tmp = os.path.join(box,"tmp"); os.mkdir(tmp); out=os.path.join(box,"out"); os.mkdir(out)
    tempfile.tempdir = tmp
    target = os.path.join(out, "sub" if pre=="missingdir" else "", "r."+method)
    if pre=="exists": open(target,"wb").write(b"OLD")
    before = snapshot(box)
    n=[0]
    def tr(frame, ev, arg):
        if ev=="call" and frame.f_code.co_filename.startswith(LIB):
            n[0]+=1
            if n[0]==k: raise Fault(f"injected at {frame.f_code.co_name}")
        return None
    res=None
    with contextlib.redirect_stdout(io.StringIO()):
        sys.settrace(tr)
        try:
            if method=="rtf": doc.write_rtf(target)
            else: getattr(doc,"write_"+method)(target, converter=Stub(conv))
            res=("ok",)
        except BaseException as e:
            res=("exc", type(e).__name__, str(e)[:60])
        finally:
            sys.settrace(None); tempfile.tempdir=None
    after = snapshot(box)
    shutil.rmtree(box)
    return res, before, after, n[0]
res,b,a,total = run(0,"rtf",None,"absent"); print(res, total, sorted(a))
t=time.time(); stats={}
for k in range(1,total+1):
    res,b,a,_=run(k,"rtf",None,"exists")
    key=(res[0], res[1] if len(res)>1 else "", tuple(sorted(set(a)-set(b))), a.get("out/r.rtf")==b"OLD")
    stats[key]=stats.get(key,0)+1
print(time.time()-t); 
for k,v in stats.items(): print(v,k)
for conv in ("ok","raise_before","raise_after","list","html_res"):
    for pre in ("absent","exists","missingdir"):
        res,b,a,_=run(0,"html",conv,pre); print(conv,pre,res, sorted(set(a)-set(b)), {k:v for k,v in a.items() if k in b and a[k]!=b[k]})
stats={}
for k in range(1,total+1):
    res,b,a,_=run(k,"docx","ok","exists")
    key=(res[0], res[1] if len(res)>1 else "", tuple(sorted(set(a)-set(b))), a.get("out/r.docx")==b"OLD")
    stats[key]=stats.get(key,0)+1
for k,v in stats.items(): print(v,k)

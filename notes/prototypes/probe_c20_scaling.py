from rtflite.strwidth import get_string_width as w
chars = [chr(c) for c in list(range(32,127))+list(range(0xA0,0x100))+list(range(0x391,0x3CA))]
worst=0; cnt=0
sizes=[4+0.5*i for i in range(89)]
for font in (1,4,6,7,8,9):
    for ch in chars:
        ref = w(ch,font,48)/48
        if ref==0: 
            continue
        for s in sizes:
            v=w(ch,font,s)/s
            rel=abs(v-ref)/ref
            cnt+=1
            if rel>worst: worst=rel; print("worst",font,repr(ch),s,rel)
print(cnt, worst)
# zero-width chars?
for font in (1,4,6,7,8,9):
    z=[ch for ch in chars if w(ch,font,12)==0]
    print(font, "zero width:", [hex(ord(c)) for c in z])

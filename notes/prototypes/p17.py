import itertools, re, polars as pl, rtflite as rtf, time
from rtflite.dictionary.unicode_latex import latex_to_char
exec(open("p16.py").read().split("t=time.time()")[0].split("def ref(text):")[0])  # TOK, imports
src16=open("p16.py").read()
# pull real_sources and src_events
ns={}
exec("import re, polars as pl, rtflite as rtf\n"+ "def real_sources"+src16.split("def real_sources")[1].split("t=time.time()")[0], ns)
real_sources, src_events = ns["real_sources"], ns["src_events"]
SUP,SUB,LINE,PGN,TOT,NUMP="","","","","",""
def ref_marked(text, blanks):
    """text-level reference: literal keyword/operator replacement on the INPUT, LaTeX by longest letter run (+ brace group of the input)."""
    out=[]; i=0
    lit=[("\\pagenumber",PGN),("\\totalpage",TOT),("\\pagefield",NUMP+(" " if blanks else "")),(">=","≥"+(" " if blanks else "")),("<=","≤"+(" " if blanks else "")),("^",SUP),("_",SUB),("\n",LINE)]
    while i<len(text):
        for k,v in lit:
            if text.startswith(k,i): out.append(v); i+=len(k); break
        else:
            if text[i]=="\\":
                m=re.match(r"\\[a-zA-Z]+", text[i:])
                if m:
                    name=m.group(0); j=i+len(name)
                    mb=re.match(r"\{[^}]*\}", text[j:])
                    if mb:
                        full=name+mb.group(0)
                        out.append(latex_to_char.get(full, full)); i=j+len(mb.group(0)); continue
                    out.append(latex_to_char.get(name,name)); i=j; continue
            out.append(text[i]); i+=1
    return "".join(out)
def marked_events(s):
    # lex the marked string as RTF source (sentinels are text), then map sentinels to events
    ev=src_events(s)
    out=[]
    for e in ev:
        if e[0]!="t": out.append(e); continue
        buf=""
        for ch in e[1]:
            m={SUP:("super",),SUB:("sub",),LINE:("line",),PGN:("chpgn",),TOT:("totalpage",),NUMP:("numpages",)}.get(ch)
            if m:
                if buf: out.append(("t",buf)); buf=""
                out.append(m)
            else: buf+=ch
        if buf: out.append(("t",buf))
    return out
texts=sorted({"".join(c) for k in (1,2,3) for c in itertools.product(TOK,repeat=k)})
srcs=[]
for i in range(0,len(texts),3000): srcs+=real_sources(texts[i:i+3000])
cls={}
for tx,s in zip(texts,srcs):
    o=src_events(s)
    if o==marked_events(ref_marked(tx,False)): continue
    if o==marked_events(ref_marked(tx,True)): cls.setdefault("blank-after-replacement",[]).append(tx); continue
    cls.setdefault("other",[]).append((tx,s,marked_events(ref_marked(tx,True)),o))
for k,v in cls.items():
    print(k,len(v))
    for x in v[:12]: print("    ",repr(x))

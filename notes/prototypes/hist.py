"""Prototype of the C14 process-state explorer (scratch only)."""
import sys, os, types, hashlib, copy, collections, importlib, pkgutil, subprocess, json, time
import polars as pl
import rtflite as rtf

for m in pkgutil.walk_packages(rtf.__path__, "rtflite."):
    importlib.import_module(m.name)

IMMUT = (int, float, str, bytes, bool, type(None), complex, frozenset, range)


def canon(o, seen=frozenset(), depth=0):
    if isinstance(o, IMMUT):
        return repr(o)
    if id(o) in seen:
        return "<cyc>"
    if depth > 8:
        return "<deep>"
    seen = seen | {id(o)}
    if isinstance(o, (list, tuple)):
        return "[" + ",".join(canon(x, seen, depth + 1) for x in o) + "]"
    if isinstance(o, dict):
        return "{" + ",".join(f"{canon(k, seen, depth+1)}:{canon(v, seen, depth+1)}" for k, v in o.items()) + "}"
    if isinstance(o, set):
        return "set(" + ",".join(sorted(canon(x, seen, depth + 1) for x in o)) + ")"
    if isinstance(o, pl.DataFrame):
        return "DF" + hashlib.md5(repr((o.schema, o.rows())).encode()).hexdigest()
    if isinstance(o, (types.FunctionType, types.BuiltinFunctionType, types.MethodType, type, types.ModuleType, classmethod, staticmethod, property)):
        return f"<{type(o).__name__} {getattr(o, '__qualname__', getattr(o, '__name__', '?'))}>"
    if type(o).__module__.startswith("rtflite") and hasattr(o, "__dict__"):
        return f"<{type(o).__qualname__} " + canon(vars(o), seen, depth + 1) + ">"
    if type(o).__module__.startswith("contextvars") or type(o).__name__ == "ContextVar":
        try:
            return "CV:" + canon(o.get(), seen, depth + 1)
        except LookupError:
            return "CV:<unset>"
    return f"<opaque {type(o).__module__}.{type(o).__qualname__}>"


def census_objects():
    objs = {}
    for name, mod in sorted(sys.modules.items()):
        if not name.startswith("rtflite") or mod is None:
            continue
        for k, v in sorted(vars(mod).items()):
            if k.startswith("__"):
                continue
            cands = []
            if isinstance(v, type) and v.__module__.startswith("rtflite"):
                for ak, av in sorted(vars(v).items()):
                    if ak.startswith("__") and ak.endswith("__"):
                        continue
                    cands.append((f"{v.__module__}.{v.__qualname__}.{ak}", av))
            else:
                cands.append((f"{name}.{k}", v))
            for label, av in cands:
                if isinstance(av, (dict, list, set)) or type(av).__name__ == "ContextVar" or (
                    hasattr(av, "__dict__") and type(av).__module__.startswith("rtflite") and not isinstance(av, type)
                ):
                    objs.setdefault(id(av), (label, av))
    return objs


def census():
    return hashlib.md5("|".join(f"{l}={canon(o)}" for l, o in sorted(census_objects().values(), key=lambda t: t[0])).encode()).hexdigest()


# snapshot for restore
_SNAP = {}
for i, (label, o) in census_objects().items():
    if isinstance(o, dict):
        _SNAP[i] = ("dict", o, dict(o))
    elif isinstance(o, list):
        _SNAP[i] = ("list", o, list(o))
    elif isinstance(o, set):
        _SNAP[i] = ("set", o, set(o))
    elif type(o).__name__ == "ContextVar":
        _SNAP[i] = ("cv", o, o.get())
    else:
        _SNAP[i] = ("obj", o, copy.deepcopy(vars(o)))
C0 = census()


def restore():
    for kind, o, snap in _SNAP.values():
        if kind == "dict":
            o.clear(); o.update(snap)
        elif kind == "list":
            o[:] = snap
        elif kind == "set":
            o.clear(); o.update(snap)
        elif kind == "cv":
            o.set(snap)
        else:
            vars(o).clear(); vars(o).update(copy.deepcopy(snap))
    assert census() == C0, "restore failed"


DF2 = lambda: pl.DataFrame({"a": ["r0", "r1", "r2"], "b": [1, 2, 3]})
DF1 = lambda: pl.DataFrame({"a": ["r0", "r1", "r2"]})
DFBAD = lambda: pl.DataFrame({"a": ["x", "y", "x"], "b": [1, 2, 3]})

# pool: name -> (constructor taking shared dict, shared keys)
def mk_shared():
    return {"body": rtf.RTFBody(), "sub": rtf.RTFSubline(text="S0"), "page": rtf.RTFPage(nrow=3)}

POOL = {
    "plain": lambda sh: rtf.RTFDocument(df=DF2()),
    "red": lambda sh: rtf.RTFDocument(df=DF2(), rtf_body=rtf.RTFBody(text_color="red"), rtf_page=rtf.RTFPage(nrow=3)),
    "bad": lambda sh: rtf.RTFDocument(df=DFBAD(), rtf_body=rtf.RTFBody(group_by="a", text_color="blue")),
    "multi": lambda sh: rtf.RTFDocument(df=[DF2(), DF2()], rtf_body=[rtf.RTFBody(text_color="red"), rtf.RTFBody(text_color="green")], rtf_footnote=rtf.RTFFootnote(text="F0")),
    "shA": lambda sh: rtf.RTFDocument(df=DF2(), rtf_body=sh["body"], rtf_subline=sh["sub"], rtf_page=sh["page"]),
    "shB": lambda sh: rtf.RTFDocument(df=DF1(), rtf_body=sh["body"], rtf_subline=sh["sub"], rtf_page=sh["page"]),
}


def baseline(name):
    code = f"""
import sys; sys.path.insert(0, {os.environ.get('RTFSRC','/repo/src')!r}); sys.path.insert(0, '/root/scratch')
import hist_pool as hp, json
d = hp.POOL[{name!r}](hp.mk_shared())
try: print(json.dumps(["ok", d.rtf_encode()]))
except Exception as e: print(json.dumps(["exc", type(e).__name__]))
"""
    outs = set()
    for seed in ("0", "1", "7"):
        env = dict(os.environ, PYTHONHASHSEED=seed)
        outs.add(subprocess.run([sys.executable, "-c", code], capture_output=True, text=True, env=env).stdout.strip())
    assert len(outs) == 1, ("hash-seed dependent", name)
    return tuple(json.loads(outs.pop()))


def run(hist):
    """replay history from pristine state; returns (canonical state, list of observations)"""
    restore()
    sh = mk_shared()
    docs = {}
    obs = []
    for ev, name in hist:
        if ev == "new":
            docs[name] = POOL[name](sh)
            obs.append(("new", name))
        else:
            if name not in docs:
                docs[name] = POOL[name](sh)
            d = docs[name]
            dfs_before = canon(d.df)
            try:
                r = ("ok", d.rtf_encode())
            except Exception as e:
                r = ("exc", type(e).__name__)
            if ev == "enc2" and r[0] == "ok":
                r2 = d.rtf_encode()
                if r2 != r[1]:
                    r = ("twice-differs",)
            obs.append((ev, name, r, canon(d.df) == dfs_before))
    state = (census(), tuple(sorted(docs)), canon({k: v for k, v in sh.items()}), canon({k: {f: getattr(v, f) for f in type(v).model_fields if f != 'df'} for k, v in docs.items()}))
    return hashlib.md5(repr(state).encode()).hexdigest(), obs


if __name__ == "__main__":
    t = time.time()
    BASE = {n: baseline(n) for n in POOL}
    print("baselines", {n: (b[0], len(b[1]) if b[0] == "ok" else b[1]) for n, b in BASE.items()}, time.time() - t)
    EVENTS = [(e, n) for n in POOL for e in ("new", "enc")]
    seen = {}
    frontier = collections.deque([()])
    s0, _ = run(())
    seen[s0] = ()
    transitions = 0
    viol = collections.OrderedDict()
    maxdepth = int(sys.argv[1]) if len(sys.argv) > 1 else 6
    while frontier:
        h = frontier.popleft()
        if len(h) >= maxdepth:
            continue
        for ev in EVENTS:
            h2 = h + (ev,)
            s, obs = run(h2)
            transitions += 1
            last = obs[-1]
            if last[0] != "new":
                if last[2] != BASE[last[1]]:
                    key = (last[1], "differs-from-fresh")
                    viol.setdefault(key, h2)
                if not last[3]:
                    viol.setdefault((last[1], "df-mutated"), h2)
            if s not in seen:
                seen[s] = h2
                frontier.append(h2)
    print("states", len(seen), "transitions", transitions, "maxlen", max(len(h) for h in seen.values()), "time", time.time() - t)
    for k, h in viol.items():
        print("VIOL", k, "shortest history:", h)

import itertools, re, polars as pl, rtflite as rtf, rd, time
from rtflite.dictionary.unicode_latex import latex_to_char
TOK=["a","1"," ","^","_",">=","<=","<",">","=","\n","\\alpha","\\alphax","\\mathbb{R}","\\mathbb{X}","\\pagenumber","\\totalpage","\\pagefield","{x}"]
def ref(text):
    """reference: returns list of events"""
    ev=[]; i=0; n=len(text)
    def emit(s):
        if ev and ev[-1][0]=="t": ev[-1]=("t",ev[-1][1]+s)
        else: ev.append(("t",s))
    while i<n:
        c=text[i]
        if c=="\\":
            m=re.match(r"\\[a-zA-Z]+", text[i:])
            if m:
                name=m.group(0); j=i+len(name)
                if name=="\\pagenumber": ev.append(("chpgn",)); i=j; continue
                if name=="\\totalpage": ev.append(("totalpage",)); i=j; continue
                if name=="\\pagefield": ev.append(("numpages",)); i=j; continue
                mb=re.match(r"\{[^}]*\}", text[j:])
                if mb:
                    full=name+mb.group(0)
                    if full in latex_to_char: emit(latex_to_char[full]); i=j+len(mb.group(0)); continue
                    # unknown braced: verbatim
                    ev.append(("raw",full)); i=j+len(mb.group(0)); continue
                if name in latex_to_char: emit(latex_to_char[name]); i=j; continue
                ev.append(("raw",name)); i=j; continue
            ev.append(("raw","\\")); i+=1; continue
        if c=="^": ev.append(("super",)); i+=1; continue
        if c=="_": ev.append(("sub",)); i+=1; continue
        if text.startswith(">=",i): emit("\u2265"); i+=2; continue
        if text.startswith("<=",i): emit("\u2264"); i+=2; continue
        if c=="\n": ev.append(("line",)); i+=1; continue
        emit(c); i+=1
    return ev
# real: use public API: one doc with many cells, read raw source of each cell instead of my weak scratch reader events
def real_sources(texts):
    df=pl.DataFrame({"t":[f"D{i}|" for i in range(len(texts))],"v":texts})
    doc=rtf.RTFDocument(df=df, rtf_page=rtf.RTFPage(nrow=100000), rtf_column_header=[])
    s=doc.rtf_encode()
    cells=re.findall(r"\\fs18\{\\f0 (.*?)\}\\cell\n", s, flags=re.S)
    return cells[1::2]
def src_events(src):
    """decode source of a cell into events (scratch mini-reader)"""
    ev=[]; i=0
    def emit(s):
        if ev and ev[-1][0]=="t": ev[-1]=("t",ev[-1][1]+s)
        else: ev.append(("t",s))
    skip=0
    while i<len(src):
        m=re.match(r"\\([a-zA-Z]+)(-?\d+)? ?", src[i:])
        if m:
            w,p=m.group(1),m.group(2); i+=m.end()
            if w=="u": emit(chr(int(p) % 65536)); skip=1
            elif w=="uc": pass
            elif w=="super": ev.append(("super",))
            elif w=="sub": ev.append(("sub",))
            elif w=="line": ev.append(("line",))
            elif w=="chpgn": ev.append(("chpgn",))
            elif w=="totalpage": ev.append(("totalpage",))
            else: ev.append(("raw","\\"+w+(p or "")))
            continue
        if src.startswith("{\\field{\\*\\fldinst NUMPAGES }}",i):
            ev.append(("numpages",)); i+=len("{\\field{\\*\\fldinst NUMPAGES }}"); 
            if src[i:i+1]==" ": emit(" "); i+=1   # literal blank after group
            continue
        c=src[i]; i+=1
        if c=="\n": continue
        if skip: skip-=1; continue
        emit(c)
    return ev
t=time.time()
texts=[]
for k in (1,2,3):
    for combo in itertools.product(TOK, repeat=k):
        texts.append("".join(combo))
texts=sorted(set(texts))
print(len(texts))
srcs=[]
B=3000
for i in range(0,len(texts),B): srcs+=real_sources(texts[i:i+B])
assert len(srcs)==len(texts), (len(srcs),len(texts))
cls={}
for tx,src in zip(texts,srcs):
    r=ref(tx); 
    # normalise ref raw braced: source will show \name then text {..}
    r2=[]
    for e in r:
        if e[0]=="raw" and "{" in e[1]:
            nm,rest=e[1].split("{",1); r2.append(("raw",nm)); r2.append(("t","{"+rest))
        else: r2.append(e)
    # merge adjacent t
    rr=[]
    for e in r2:
        if rr and e[0]=="t" and rr[-1][0]=="t": rr[-1]=("t",rr[-1][1]+e[1])
        else: rr.append(e)
    o=src_events(src)
    if o!=rr:
        # classify
        def strip_sp(evs):
            out=[]
            for e in evs:
                if e[0]=="t":
                    out.append(("t",e[1].replace("\u2265 ","\u2265").replace("\u2264 ","\u2264")))
                else: out.append(e)
            return out
        if strip_sp(o)==strip_sp(rr): k="cmp-space"
        else: k="other"
        cls.setdefault(k,[]).append((tx,src,rr,o))
print(time.time()-t)
for k,v in cls.items():
    print(k,len(v))
    for x in v[:6]: print("    ",repr(x[0]),"| src",repr(x[1]),"| ref",x[2],"| obs",x[3])

"""Prototype: cooperative baton scheduler over sys.settrace call events (scratch only)."""
import sys, threading, time, re
import polars as pl
import rtflite as rtf

LIB = "/repo/src/rtflite/"


class Sched:
    def __init__(self, bodies, plan):
        # plan: list of (thread_idx, point_no, switch_to) preemptions; start thread = plan_start
        self.bodies = bodies
        self.n = len(bodies)
        self.sems = [threading.Semaphore(0) for _ in bodies]
        self.done = [False] * self.n
        self.counts = [0] * self.n
        self.results = [None] * self.n
        self.plan = dict(plan)  # (tid, point) -> switch_to
        self.main = threading.Semaphore(0)
        self.trace_log = []

    def tracer(self, tid):
        def tr(frame, ev, arg):
            if ev == "call" and frame.f_code.co_filename.startswith(LIB):
                self.counts[tid] += 1
                key = (tid, self.counts[tid])
                if key in self.plan:
                    to = self.plan[key]
                    if not self.done[to]:
                        self.sems[to].release()
                        self.sems[tid].acquire()
            return None
        return tr

    def worker(self, tid):
        self.sems[tid].acquire()
        sys.settrace(self.tracer(tid))
        try:
            self.results[tid] = ("ok", self.bodies[tid]())
        except BaseException as e:  # noqa
            self.results[tid] = ("exc", type(e).__name__, str(e)[:100])
        finally:
            sys.settrace(None)
            self.done[tid] = True
            # hand over to next not-done thread (lowest id), else main
            for j in range(self.n):
                if not self.done[j]:
                    self.sems[j].release()
                    break
            else:
                self.main.release()

    def run(self, start=0):
        ths = [threading.Thread(target=self.worker, args=(i,)) for i in range(self.n)]
        for t in ths:
            t.start()
        self.sems[start].release()
        self.main.acquire()
        for t in ths:
            t.join()
        return self.results, self.counts


df = pl.DataFrame({"a": ["x", "y"], "b": [1, 2]})
dA = rtf.RTFDocument(df=df, rtf_body=rtf.RTFBody(text_color="red"))
dB = rtf.RTFDocument(df=df, rtf_body=rtf.RTFBody(text_color=[["blue", "green"]]))
soloA, soloB = dA.rtf_encode(), dB.rtf_encode()
r, counts = Sched([dA.rtf_encode, dB.rtf_encode], []).run()
assert r[0][1] == soloA and r[1][1] == soloB
print("points", counts)
t = time.time()
bad = 0
outcomes = set()
for i in range(1, counts[0] + 1):
    r, _ = Sched([dA.rtf_encode, dB.rtf_encode], [((0, i), 1)]).run(start=0)
    ok = r[0] == ("ok", soloA) and r[1] == ("ok", soloB)
    cf = (tuple(sorted(set(re.findall(r"\\cf\d+", r[0][1])))) if r[0][0] == "ok" else r[0], tuple(sorted(set(re.findall(r"\\cf\d+", r[1][1])))) if r[1][0] == "ok" else r[1])
    outcomes.add(cf)
    bad += not ok
print("1-preemption schedules", counts[0], "violating", bad, "time", time.time() - t)
print(outcomes)

"""Scratch RTF reader used only for probing while writing DESIGN.md."""
import re

TOK = re.compile(
    rb"\\([a-zA-Z]+)(-?\d+)? ?|\\'([0-9a-fA-F]{2})|\\([^a-zA-Z'])|([{}])|([^\\{}]+)", re.S
)


def tokenize(b: bytes):
    pos = 0
    out = []
    while pos < len(b):
        m = TOK.match(b, pos)
        if not m:
            raise ValueError(f"lex error at {pos}: {b[pos:pos+20]!r}")
        pos = m.end()
        if m.group(1) is not None:
            out.append(("cw", m.group(1).decode(), int(m.group(2)) if m.group(2) else None))
        elif m.group(3) is not None:
            out.append(("hex", int(m.group(3), 16), None))
        elif m.group(4) is not None:
            out.append(("sym", m.group(4).decode("latin1"), None))
        elif m.group(5) is not None:
            out.append(("grp", m.group(5).decode(), None))
        else:
            out.append(("txt", m.group(6), None))
    return out


DEST = {"fonttbl", "colortbl", "header", "footer", "pict", "fldinst", "info", "stylesheet"}


def parse(b: bytes):
    """Returns dict(pages=[ [block,...] ], colortbl, fonttbl, header, footer, picts)"""
    toks = tokenize(b)
    depth = 0
    stack = []  # (dest, uc, charstate)
    state = {"dest": None, "uc": 1, "super": False, "sub": False, "cf": 0, "f": None, "fs": None, "b": False}
    pages = [[]]
    cur_text = []  # current paragraph/cell text
    row = None
    rows_cells = []
    cellx = []
    celldefs = []
    curdef = {}
    skip = 0
    doc = {"pages": pages, "colortbl": None, "fonttbl": [], "header": 0, "footer": 0, "picts": [], "events": []}
    colorbuf = None
    closed_at = None
    for idx, (k, a, p) in enumerate(toks):
        if closed_at is not None:
            if k == "txt" and not a.strip():
                continue
            raise ValueError("content after final brace")
        if k == "grp":
            if a == "{":
                stack.append(dict(state))
                depth += 1
            else:
                if state["dest"] == "colortbl" and (not stack or stack[-1]["dest"] != "colortbl"):
                    doc["colortbl"] = colorbuf
                    colorbuf = None
                state = stack.pop()
                depth -= 1
                if depth == 0:
                    closed_at = idx
            continue
        d = state["dest"]
        if k == "cw":
            if a == "u":
                ch = p if p >= 0 else p + 65536
                if d is None:
                    cur_text.append(chr(ch))
                skip = state["uc"]
                continue
            if a == "uc":
                state["uc"] = p
                continue
            if a in DEST:
                state["dest"] = a
                if a == "colortbl":
                    colorbuf = [[None, None, None]]
                    # first entry until ';'
                if a == "header":
                    doc["header"] += 1
                if a == "footer":
                    doc["footer"] += 1
                if a == "pict":
                    doc["picts"].append({"hex": b"", "page": len(pages) - 1})
                continue
            if d == "colortbl":
                if a in ("red", "green", "blue"):
                    colorbuf[-1][("red", "green", "blue").index(a)] = p
                continue
            if d == "pict":
                doc["picts"][-1][a] = p
                continue
            if d is not None:
                continue
            if a == "page":
                pages.append([])
            elif a == "par":
                pages[-1].append(("par", "".join(cur_text)))
                cur_text = []
            elif a == "trowd":
                cellx = []
                celldefs = []
                curdef = {}
                rows_cells = []
            elif a == "cellx":
                cellx.append(p)
                celldefs.append(curdef)
                curdef = {}
            elif a.startswith("clbrdr"):
                curdef["_side"] = a[-1]
                curdef[a[-1]] = ""
            elif a.startswith("brdr") and a not in ("brdrw", "brdrcf"):
                if "_side" in curdef:
                    curdef[curdef["_side"]] = a
            elif a == "cell":
                rows_cells.append("".join(cur_text))
                cur_text = []
            elif a == "row":
                pages[-1].append(("row", list(cellx), list(rows_cells), list(celldefs)))
            elif a == "line":
                cur_text.append("\n")
            else:
                doc["events"].append((a, p))
        elif k == "txt":
            if d == "colortbl":
                for ch in a.decode("latin1"):
                    if ch == ";":
                        colorbuf.append([None, None, None])
                continue
            if d == "pict":
                doc["picts"][-1]["hex"] += bytes(c for c in a if c not in b"\r\n ")
                continue
            if d is not None:
                continue
            t = a.replace(b"\r", b"").replace(b"\n", b"")
            s = t.decode("cp1252", errors="replace")
            while skip and s:
                s = s[1:]
                skip -= 1
            cur_text.append(s)
        elif k == "hex":
            if skip:
                skip -= 1
                continue
            if d is None:
                cur_text.append(bytes([a]).decode("cp1252", errors="replace"))
        elif k == "sym":
            if d is None and a in "\\{}":
                cur_text.append(a)
    if depth != 0:
        raise ValueError(f"unbalanced depth {depth}")
    if doc["colortbl"]:
        doc["colortbl"] = doc["colortbl"][:-1] if doc["colortbl"][-1] == [None, None, None] else doc["colortbl"]
    return doc


def show(doc):
    for i, pg in enumerate(doc["pages"]):
        print(f"--- page {i+1}")
        for blk in pg:
            if blk[0] == "par":
                if blk[1]:
                    print("  P:", repr(blk[1]))
            else:
                tb = [d.get("t") for d in blk[3]]
                bb = [d.get("b") for d in blk[3]]
                print("  R:", blk[1], blk[2], "top", tb[0], "bot", bb[0])

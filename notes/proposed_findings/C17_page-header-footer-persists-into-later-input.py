"""C17 / page-header-footer-persists-into-later-input - stand-alone reproduction (plain rtflite calls).

assemble_rtf([with_header.rtf, plain.rtf]): plain.rtf has no page header/footer of its own, the output holds exactly
one {\\header ...} and one {\\footer ...} (from the first input) and nothing ends their scope before the pages of
plain.rtf, so those pages are read back with the first input's header and footer.
Run: /venv/bin/python C17_page-header-footer-persists-into-later-input.py
"""
import re
import tempfile

import polars as pl
import rtflite as rtf

d = tempfile.mkdtemp()
df = pl.DataFrame({"a": ["x", "y"], "b": [1, 2]})
rtf.RTFDocument(df=df, rtf_title=rtf.RTFTitle(text="DOC WITH HEADER"), rtf_page_header=rtf.RTFPageHeader(text="CONFIDENTIAL-HEADER"),
                rtf_page_footer=rtf.RTFPageFooter(text="CONFIDENTIAL-FOOTER")).write_rtf(f"{d}/hf.rtf")
rtf.RTFDocument(df=df, rtf_title=rtf.RTFTitle(text="PLAIN DOC")).write_rtf(f"{d}/plain.rtf")
print("plain.rtf alone: header destinations =", open(f"{d}/plain.rtf").read().count("{\\header"))
rtf.assemble_rtf([f"{d}/hf.rtf", f"{d}/plain.rtf"], f"{d}/out.rtf")
text = open(f"{d}/out.rtf").read()
cur = {"header": None, "footer": None}
for m in re.finditer(r"\{\\(header|footer)\{.*?\{\\f\d+ ([^}]*)\}|(DOC WITH HEADER|PLAIN DOC)|\\page(?![a-z])", text):
    if m.group(1):
        cur[m.group(1)] = m.group(2)
    elif m.group(3):
        print(f"{m.group(3)!r:18} pages: header in force = {cur['header']!r}, footer in force = {cur['footer']!r}",
              "<-- WRONG (input has none)" if m.group(3) == "PLAIN DOC" and cur["header"] else "")

"""C10 astral-u-escape-wraps-into-bmp: U+10041 is written as \\u65 = 'A'."""
import polars as pl, rtflite as rtf, re
s = rtf.RTFDocument(df=pl.DataFrame({"a": ["D0"], "b": ["\U00010041"]})).rtf_encode()
print(re.findall(r"\\u-?\d+\*?", s), "-> a reader shows", chr(0x10041 - 65536))

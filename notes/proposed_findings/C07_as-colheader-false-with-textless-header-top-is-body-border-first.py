"""C07 / as-colheader-false-with-textless-header-top-is-body-border-first - plain rtflite reproduction.

RTFBody(as_colheader=False) next to the default RTFColumnHeader (no text) renders NO header row; the first
data row is then the first table row of the document and must carry rtf_page.border_first ("double") at its
top, as it does with rtf_column_header=[].  It carries rtf_body.border_first ("dashed").
Run: /venv/bin/python notes/proposed_findings/C07_as-colheader-false-with-textless-header-top-is-body-border-first.py
"""
import re

import polars as pl
import rtflite as rtf

df = pl.DataFrame({"a": ["r0", "r1"], "b": ["s0", "s1"]})


def first_row(**kw):
    out = rtf.RTFDocument(df=df, rtf_page=rtf.RTFPage(border_first="double", border_last="thick"), **kw).rtf_encode()
    row = re.search(r"\\trowd(.*?)\\row(?![a-z])", out, re.S).group(1)
    text = re.search(r"\{\\f\d+\S* ([^}]*)\}\\cell", row).group(1)
    top = re.search(r"\\clbrdrt(?:\\(brdr(?!w)[a-z]+))?", row).group(1)
    return text, top


if __name__ == "__main__":
    for label, kw in (("as_colheader=False, default header", dict(rtf_body=rtf.RTFBody(as_colheader=False, border_first="dashed"))),
                      ("as_colheader=False, header=[]     ", dict(rtf_body=rtf.RTFBody(as_colheader=False, border_first="dashed"), rtf_column_header=[])),
                      ("as_colheader=True,  header=[]     ", dict(rtf_body=rtf.RTFBody(border_first="dashed"), rtf_column_header=[]))):
        text, top = first_row(**kw)
        print(f"{label}: first table row {text!r} top border = {top}   (expected brdrdb)")

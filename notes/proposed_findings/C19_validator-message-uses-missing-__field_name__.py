"""C19 / validator-message-uses-missing-__field_name__ : stand-alone reproduction (plain rtflite calls).

Run:  /venv/bin/python /verif/notes/proposed_findings/C19_validator-message-uses-missing-__field_name__.py
Each call passes an invalid value that rtflite does detect - the validator reaches its `raise ValueError(...)` -
but the message is built from `cls.__field_name__`, which pydantic v2 classes do not have, so the caller sees
AttributeError('__field_name__') and `except ValueError` misses it.
"""
import sys

sys.path.insert(0, "/repo/src")
import rtflite as rtf

CALLS = [
    ("RTFPage(nrow=0)", lambda: rtf.RTFPage(nrow=0)),
    ("RTFPage(width=-1)", lambda: rtf.RTFPage(width=-1)),
    ("RTFPage(height=0)", lambda: rtf.RTFPage(height=0)),
    ("RTFPage(col_width=-0.5)", lambda: rtf.RTFPage(col_width=-0.5)),
    ("RTFPage(border_first='bogus')", lambda: rtf.RTFPage(border_first="bogus")),
    ("RTFBody(border_left=[['single', 'Single']])", lambda: rtf.RTFBody(border_left=[["single", "Single"]])),
    ("RTFColumnHeader(text='T', border_width=[15, 0])", lambda: rtf.RTFColumnHeader(text="T", border_width=[15, 0])),
    ("RTFFootnote(text='T', cell_height=[[0.15], [-1]])", lambda: rtf.RTFFootnote(text="T", cell_height=[[0.15], [-1]])),
    ("RTFSource(text='T', col_rel_width=[1, 0])", lambda: rtf.RTFSource(text="T", col_rel_width=[1, 0])),
    # for comparison: a validator that does not use __field_name__
    ("RTFPage(orientation='Portrait')   [comparison]", lambda: rtf.RTFPage(orientation="Portrait")),
]
bad = 0
for text, fn in CALLS:
    try:
        fn()
        print(f"{text:60s} -> constructed (!)")
    except Exception as e:  # noqa: BLE001
        ok = isinstance(e, ValueError)
        bad += not ok
        print(f"{text:60s} -> {type(e).__name__}({str(e)[:40]!r})  {'ok' if ok else 'NOT a ValueError'}")
print(f"{bad} call(s) raised something other than ValueError")

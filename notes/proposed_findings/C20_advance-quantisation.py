"""C20 / advance-quantisation : stand-alone reproduction (plain rtflite calls).

Run:  /venv/bin/python /verif/notes/proposed_findings/C20_advance-quantisation.py
get_string_width returns Pillow's FreeTypeFont.getlength, a sum of 26.6 fixed-point advances: every width is a whole
multiple of 1/64 px.  For a glyph about 1 px wide the rounding (<= 1/128 px per size) is more than 1 % of the width, so
width/size is not constant to within 1 % although each measurement is as exact as the representation allows.
"""
import sys

sys.path.insert(0, "/repo/src")
from rtflite import get_string_width as w

for text, font, a, b in [("'", 1, 5, 7.5), ("·", 8, 4.5, 9.5), ("l,", 8, 4, 5), ("i  ", 7, 4.5, 6), ("W", 8, 4.5, 9.5)]:
    wa, wb = w(text, font, a, "px"), w(text, font, b, "px")
    ra, rb = wa / a, wb / b
    rel = abs(ra - rb) / max(ra, rb)
    bound = len(text) / 128 * (1 / a + 1 / b)
    print(f"font {font} {text!r:6}: {wa * 64:6.0f}/64 px at {a} pt, {wb * 64:6.0f}/64 px at {b} pt -> per-pt {ra:.5f} vs {rb:.5f}: "
          f"{100 * rel:.2f} % {'> 1 %  VIOLATES' if rel > 0.01 else '<= 1 % ok'}   (rounding alone allows {bound:.5f} px/pt, observed {abs(ra - rb):.5f})")

"""C09: an nrow x ncol attribute is looked up with page-relative rows.
Run: /venv/bin/python C09_matrix-row-rebased-per-page.py"""
import re
import polars as pl
import rtflite as rtf

df = pl.DataFrame({"a": [f"D{r}.0" for r in range(4)], "b": [f"D{r}.1" for r in range(4)]})
fmt = [["b", "b"], ["", ""], ["i", "i"], ["", ""]]       # row 0 bold, row 2 italic


def show(nrow):
    out = rtf.RTFDocument(df=df, rtf_column_header=[], rtf_page=rtf.RTFPage(nrow=nrow), rtf_body=rtf.RTFBody(text_format=fmt)).rtf_encode()
    for m in re.finditer(r"\{\\f0((?:\\[a-z]+)*) (D\d\.\d)\}\\cell", out):
        print(f"  nrow={nrow} {m.group(2)} {m.group(1) or '(plain)'}")


show(40)
show(2)
print("expected with nrow=2 as with nrow=40: D0.* bold, D2.* italic; observed with nrow=2: D2.* (first row of page 2) bold")

"""C11 blank-after-replacement: '>=', '<=' and '\\pagefield' leave a blank behind."""
import polars as pl, rtflite as rtf
texts = ["a>=b", "a<=b", "n\\pagefield.", "a^b"]
s = rtf.RTFDocument(df=pl.DataFrame({"a": texts})).rtf_encode()
cells = [l.split("{\\f0 ")[1].rsplit("}\\cell")[0] for l in s.splitlines() if l.endswith("\\cell")][1:]
for c, out in zip(texts, cells):
    print(f"{c!r:16} emitted: {out!r}")
print("the blank after \\u8805* / \\u8804* / }} is literal text (the one after \\super is the control-word delimiter and is not)")

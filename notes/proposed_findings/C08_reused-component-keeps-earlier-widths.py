"""C08: a body / header object used by an earlier document keeps that document's widths.
Run: /venv/bin/python C08_reused-component-keeps-earlier-widths.py"""
import re
import polars as pl
import rtflite as rtf


def frame(k):
    return pl.DataFrame({f"c{j}": [f"D{r}.{j}" for r in range(2)] for j in range(k)})


body = rtf.RTFBody()
rtf.RTFDocument(df=frame(3), rtf_body=body)            # earlier document, 3 columns (not even encoded)
out = rtf.RTFDocument(df=frame(2), rtf_body=body).rtf_encode()
for row in out.split("\\trowd")[1:]:
    print([int(x) for x in re.findall(r"\\cellx(\d+)", row)])
print("expected [4500, 9000] for every row of the 2-column document; body.col_rel_width is now", body.col_rel_width)
body2 = rtf.RTFBody()
rtf.RTFDocument(df=frame(2), rtf_body=body2)
try:
    rtf.RTFDocument(df=frame(3), rtf_body=body2).rtf_encode()
except Exception as e:
    print("2-column body re-used for a 3-column document:", type(e).__name__, e)

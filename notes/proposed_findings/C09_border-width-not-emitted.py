"""C09: border_width never reaches the output.
Run: /venv/bin/python C09_border-width-not-emitted.py"""
import re
import polars as pl
import rtflite as rtf

df = pl.DataFrame({"a": ["D0.0"], "b": ["D0.1"], "c": ["D0.2"]})
out = rtf.RTFDocument(df=df, rtf_column_header=[], rtf_body=rtf.RTFBody(border_width=[[15, 30, 45]])).rtf_encode()
print(sorted(set(re.findall(r"\\brdrw\d+", out))), "expected \\brdrw15, \\brdrw30 and \\brdrw45")

"""C07 / per-column-border-top-overrides-body-border-first - plain rtflite reproduction.

rtf_body.border_first="dashed" must be the top edge of the first data row of every page.
A scalar border_top="dotted" is overridden by it (correct); the same request written per column
replaces border_first in every column whose entry is non-empty.
Run: /venv/bin/python notes/proposed_findings/C07_per-column-border-top-overrides-body-border-first.py
"""
import re

import polars as pl
import rtflite as rtf


def rows(out):
    """[(page, text of the first cell, {side: border style word or None})] for every table row."""
    res = []
    for page, part in enumerate(re.split(r"\\page(?![a-z])", out), start=1):
        for m in re.finditer(r"\\trowd(.*?)\\row(?![a-z])", part, re.S):
            first = m.group(1).split("\\cellx")[0]
            sides = {}
            for s in "ltrb":
                k = re.search(r"\\clbrdr" + s + r"(?:\\(brdr(?!w)[a-z]+))?", first)
                sides[s] = k.group(1) if k else None
            text = re.search(r"\{\\f\d+\S* ([^}]*)\}\\cell", m.group(1))
            res.append((page, text.group(1) if text else "?", sides))
    return res


if __name__ == "__main__":
    df = pl.DataFrame({"a": ["r0", "r1"], "b": ["s0", "s1"], "c": ["t0", "t1"]})
    for label, bt in (("scalar 'dotted'          ", "dotted"), ("per column dotted/wavy/''", ["dotted", "wavy", ""])):
        doc = rtf.RTFDocument(df=df, rtf_column_header=[rtf.RTFColumnHeader(text=["A", "B", "C"])],
                              rtf_body=rtf.RTFBody(border_first="dashed", border_top=bt))
        out = doc.rtf_encode()
        m = [x for x in re.finditer(r"\\trowd(.*?)\\row(?![a-z])", out, re.S) if "r0}" in x.group(1)][0]
        tops = re.findall(r"\\clbrdrt(?:\\(brdr(?!w)[a-z]+))?", m.group(1))
        print(f"border_top {label}: top edges of the first data row = {tops}   (expected 3 x brdrdash)")

"""C10 latin1-raw-utf8-under-ansi: U+00E9 in a body cell is written as the raw UTF-8 bytes C3 A9 under \\ansi."""
import os, shutil, tempfile, polars as pl, rtflite as rtf
p = os.path.join(tempfile.mkdtemp(), "x.rtf")
rtf.RTFDocument(df=pl.DataFrame({"a": ["D0"], "b": ["\u00e9"]})).write_rtf(p)
data = open(p, "rb").read()
print("header:", data[:12])
i = data.index(b"D0}\\cell")
cell = data[i:].split(b"\\cell")[1]
print("cell after D0:", cell)
print("bytes C3 A9 present, no \\u233 / \\'e9:", b"\xc3\xa9" in cell, b"\\u233" not in cell and b"\\'e9" not in cell)
print("an \\ansi (cp1252) reader shows:", "\u00e9".encode("utf-8").decode("cp1252"))
shutil.rmtree(os.path.dirname(p))

"""C16 / jpeg-fill-bytes-before-frame-header - stand-alone reproduction (plain rtflite calls).

A 300x200 JPEG whose SOF0 marker is preceded by one 0xFF fill byte (ITU T.81 B.1.1.2: "Any marker may
optionally be preceded by any number of fill bytes") is embedded with \\picw288\\pich192 (= 3 in * 96, 2 in * 96,
the fallback) instead of the 300x200 stated in the frame header.  Without the fill byte: \\picw300\\pich200.
Run: /venv/bin/python C16_jpeg-fill-bytes-before-frame-header.py
"""
import io
import re
import struct
import tempfile

import rtflite as rtf


def jpeg(width, height, fill):
    sof = b"\xff" * fill + b"\xff\xc0" + struct.pack(">HBHHB", 11, 8, height, width, 1) + b"\x01\x11\x00"
    sos = b"\xff\xda" + struct.pack(">H", 8) + b"\x01\x01\x00\x00\x3f\x00" + bytes(range(32))
    return b"\xff\xd8" + sof + sos + b"\xff\xd9"


for fill in (0, 1):
    data = jpeg(300, 200, fill)
    try:
        from PIL import Image
        pil = Image.open(io.BytesIO(data)).size
    except ImportError:
        pil = "n/a"
    with tempfile.NamedTemporaryFile(suffix=".jpg") as f:
        f.write(data)
        f.flush()
        out = rtf.RTFDocument(rtf_figure=rtf.RTFFigure(figures=f.name, fig_width=3, fig_height=2)).rtf_encode()
    m = re.search(r"\\picw(\d+)\\pich(\d+)", out)
    print(f"fill bytes={fill}: frame header says 300x200, Pillow says {pil}, rtflite wrote \\picw{m.group(1)}\\pich{m.group(2)}",
          "OK" if (m.group(1), m.group(2)) == ("300", "200") else "<-- WRONG (96-dpi fallback)")

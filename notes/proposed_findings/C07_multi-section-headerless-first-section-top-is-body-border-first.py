"""C07 / multi-section-headerless-first-section-top-is-body-border-first - plain rtflite reproduction.

Two sections without column headers ([None] per section is the documented spelling).  The first
table row of the document must carry rtf_page.border_first="double" at its top; it carries the
section's rtf_body.border_first="dashed".  The single-section document without headers is right.
Run: /venv/bin/python notes/proposed_findings/C07_multi-section-headerless-first-section-top-is-body-border-first.py
"""
import re

import polars as pl
import rtflite as rtf


def rows(out):
    """[(page, text of the first cell, {side: border style word or None})] for every table row."""
    res = []
    for page, part in enumerate(re.split(r"\\page(?![a-z])", out), start=1):
        for m in re.finditer(r"\\trowd(.*?)\\row(?![a-z])", part, re.S):
            first = m.group(1).split("\\cellx")[0]
            sides = {}
            for s in "ltrb":
                k = re.search(r"\\clbrdr" + s + r"(?:\\(brdr(?!w)[a-z]+))?", first)
                sides[s] = k.group(1) if k else None
            text = re.search(r"\{\\f\d+\S* ([^}]*)\}\\cell", m.group(1))
            res.append((page, text.group(1) if text else "?", sides))
    return res


if __name__ == "__main__":
    df = pl.DataFrame({"a": ["r0", "r1"]})
    page = dict(border_first="double", border_last="thick")
    single = rtf.RTFDocument(df=df, rtf_page=rtf.RTFPage(**page), rtf_column_header=[], rtf_body=rtf.RTFBody(border_first="dashed"))
    multi = rtf.RTFDocument(df=[df, df], rtf_page=rtf.RTFPage(**page), rtf_column_header=[[None], [None]],
                            rtf_body=[rtf.RTFBody(border_first="dashed"), rtf.RTFBody(border_first="dashed")])
    for label, doc in (("single section, no header", single), ("two sections, [None]     ", multi)):
        first = rows(doc.rtf_encode())[0]
        print(f"{label}: first table row {first[1]!r} top border = {first[2]['t']}   (expected brdrdb)")

"""C07 / first-placed-table-component-not-closed-on-single-page - plain rtflite reproduction.

One-page table, source rendered as a table row with page_source="first" (on a one-page document
the first page IS the last page): the source row closes the table and must carry
rtf_page.border_last="thick" at its bottom; instead the last DATA row gets it and the source row
ends without a bottom border.  page_source="last" / "all" are right.
Run: /venv/bin/python notes/proposed_findings/C07_first-placed-table-component-not-closed-on-single-page.py
"""
import re

import polars as pl
import rtflite as rtf


def rows(out):
    """[(page, text of the first cell, {side: border style word or None})] for every table row."""
    res = []
    for page, part in enumerate(re.split(r"\\page(?![a-z])", out), start=1):
        for m in re.finditer(r"\\trowd(.*?)\\row(?![a-z])", part, re.S):
            first = m.group(1).split("\\cellx")[0]
            sides = {}
            for s in "ltrb":
                k = re.search(r"\\clbrdr" + s + r"(?:\\(brdr(?!w)[a-z]+))?", first)
                sides[s] = k.group(1) if k else None
            text = re.search(r"\{\\f\d+\S* ([^}]*)\}\\cell", m.group(1))
            res.append((page, text.group(1) if text else "?", sides))
    return res


if __name__ == "__main__":
    df = pl.DataFrame({"a": ["r0", "r1", "r2"]})
    for place in ("first", "last", "all"):
        doc = rtf.RTFDocument(df=df, rtf_page=rtf.RTFPage(page_source=place, border_first="double", border_last="thick"),
                              rtf_column_header=[], rtf_body=rtf.RTFBody(border_first="dashed", border_last="dotted"),
                              rtf_source=rtf.RTFSource(text="SRC", as_table=True))
        rr = rows(doc.rtf_encode())
        print(f"page_source={place!r:8}: last data row {rr[-2][1]!r} bottom = {rr[-2][2]['b']}; "
              f"closing row {rr[-1][1]!r} bottom = {rr[-1][2]['b']}   (expected: None / brdrth)")

"""C08: a header that inherits its widths keeps the un-sliced widths after page_by removes a column.
Run: /venv/bin/python C08_header-keeps-unsliced-widths-after-column-removal.py"""
import re
import polars as pl
import rtflite as rtf

df = pl.DataFrame({"grp": ["G0", "G0", "G1"], "a": ["D0.0", "D1.0", "D2.0"], "b": ["D0.1", "D1.1", "D2.1"], "c": ["D0.2", "D1.2", "D2.2"]})
doc = rtf.RTFDocument(df=df, rtf_page=rtf.RTFPage(col_width=6.25), rtf_body=rtf.RTFBody(page_by=["grp"]))
out = doc.rtf_encode()
for row in out.split("\\trowd")[1:]:
    cellx = [int(x) for x in re.findall(r"\\cellx(\d+)", row)]
    texts = re.findall(r"\{\\f0 ([^}]*)\}\\cell", row)
    print(cellx, texts)
print("expected: every row ends at 9000 (= 6.25 in); the header row ['a','b','c'] should read [3000, 6000, 9000]")

"""C10 subline-by-heading-unescaped: the subline_by heading is not escaped at all; the same text in a cell is."""
import polars as pl, rtflite as rtf
df = pl.DataFrame({"u": ["\u0394\u00b1"], "t": ["D0"], "v": ["\u0394\u00b1"]})
s = rtf.RTFDocument(df=df, rtf_body=rtf.RTFBody(subline_by=["u"])).rtf_encode()
for line in s.splitlines():
    if "\u0394" in line or "\\u916" in line:
        print(repr(line[-60:]))
print("file bytes of the heading:", "\u0394\u00b1".encode("utf-8"), "-> read under \\ansi as", "\u0394\u00b1".encode("utf-8").decode("cp1252"))

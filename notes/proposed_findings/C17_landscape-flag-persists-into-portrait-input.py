"""C17 / landscape-flag-persists-into-portrait-input - stand-alone reproduction (plain rtflite calls).

assemble_rtf([landscape.rtf, portrait.rtf]): the portrait input starts on a new page and restates its own
\\paperw/\\paperh/margins, but \\landscape (set by the first input, a flag RTF cannot clear without a new section)
is still in force there.  In the other order the flag is only set from the second input on.
Run: /venv/bin/python C17_landscape-flag-persists-into-portrait-input.py
"""
import os
import re
import tempfile

import polars as pl
import rtflite as rtf

d = tempfile.mkdtemp()
df = pl.DataFrame({"a": ["x", "y"], "b": [1, 2]})
rtf.RTFDocument(df=df, rtf_title=rtf.RTFTitle(text="LANDSCAPE DOC"), rtf_page=rtf.RTFPage(orientation="landscape")).write_rtf(f"{d}/land.rtf")
rtf.RTFDocument(df=df, rtf_title=rtf.RTFTitle(text="PORTRAIT DOC")).write_rtf(f"{d}/port.rtf")
for order in (["land", "port"], ["port", "land"]):
    out = f"{d}/out_{'_'.join(order)}.rtf"
    rtf.assemble_rtf([f"{d}/{n}.rtf" for n in order], out)
    text = open(out).read()
    state = {"landscape": False}
    print("order", order)
    for m in re.finditer(r"\\(landscape|paperw|paperh|page)(\d*)(?![a-z])|(LANDSCAPE DOC|PORTRAIT DOC)", text):
        if m.group(3):
            print(f"   {m.group(3)!r:16} is laid out with paperw={state.get('paperw')} paperh={state.get('paperh')} landscape flag={state['landscape']}",
                  "<-- WRONG" if m.group(3).startswith("PORTRAIT") and state["landscape"] else "")
        elif m.group(1) == "landscape":
            state["landscape"] = True
        elif m.group(1) != "page":
            state[m.group(1)] = int(m.group(2))

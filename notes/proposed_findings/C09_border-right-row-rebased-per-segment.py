"""C09: border_right ignores the row offset of the segment rendered below a page_by heading (single page).
Run: /venv/bin/python C09_border-right-row-rebased-per-segment.py"""
import re
import polars as pl
import rtflite as rtf

n = 4
df = pl.DataFrame({"grp": ["G0", "G0", "G1", "G1"], "a": [f"D{r}.0" for r in range(n)], "b": [f"D{r}.1" for r in range(n)]})
right = [["single"] * 3, ["double"] * 3, ["dotted"] * 3, ["dashed"] * 3]    # one style per original row
out = rtf.RTFDocument(df=df, rtf_column_header=[], rtf_body=rtf.RTFBody(page_by=["grp"], border_right=right)).rtf_encode()
for row in out.split("\\trowd")[1:]:
    m = re.search(r"\\clbrdrr\\(brdr[a-z]+)", row)
    t = re.findall(r" (D\d\.\d)\}\\cell", row)
    if t:
        print(t[-1], m.group(1) if m else None)
print("expected D0.1 brdrs, D1.1 brdrdb, D2.1 brdrdot, D3.1 brdrdash; observed D2.1 brdrs, D3.1 brdrdb (rows counted from the group heading)")

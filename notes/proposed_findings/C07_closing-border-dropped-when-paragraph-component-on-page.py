"""C07 / closing-border-dropped-when-paragraph-component-on-page - plain rtflite reproduction.

6 rows on 2 pages, rtf_body.border_last="dotted", a source rendered as a paragraph on every page:
the last data row before the page break must end with \\brdrdot but has no bottom border at all.
Without the source (or with as_table=True) the border is there.
Run: /venv/bin/python notes/proposed_findings/C07_closing-border-dropped-when-paragraph-component-on-page.py
"""
import re

import polars as pl
import rtflite as rtf


def rows(out):
    """[(page, text of the first cell, {side: border style word or None})] for every table row."""
    res = []
    for page, part in enumerate(re.split(r"\\page(?![a-z])", out), start=1):
        for m in re.finditer(r"\\trowd(.*?)\\row(?![a-z])", part, re.S):
            first = m.group(1).split("\\cellx")[0]
            sides = {}
            for s in "ltrb":
                k = re.search(r"\\clbrdr" + s + r"(?:\\(brdr(?!w)[a-z]+))?", first)
                sides[s] = k.group(1) if k else None
            text = re.search(r"\{\\f\d+\S* ([^}]*)\}\\cell", m.group(1))
            res.append((page, text.group(1) if text else "?", sides))
    return res


if __name__ == "__main__":
    df = pl.DataFrame({"a": [f"r{i}" for i in range(6)]})
    for label, kw in (("no source          ", {}),
                      ("source as paragraph", {"rtf_source": rtf.RTFSource(text="SRC", as_table=False)}),
                      ("source as table    ", {"rtf_source": rtf.RTFSource(text="SRC", as_table=True)})):
        doc = rtf.RTFDocument(df=df, rtf_page=rtf.RTFPage(nrow=5, page_source="all", border_first="double", border_last="thick"),
                              rtf_column_header=[], rtf_body=rtf.RTFBody(border_first="dashed", border_last="dotted"), **kw)
        page1 = [r for r in rows(doc.rtf_encode()) if r[0] == 1]
        last = page1[-1]
        print(f"{label}: last table row of page 1 = {last[1]!r:6} bottom border = {last[2]['b']}   (expected brdrdot)")

"""C11 command-before-pagefield: '\\alpha\\pagefield' keeps \\alpha verbatim, '\\alpha \\pagefield' converts it."""
import polars as pl, rtflite as rtf
texts = ["\\alpha\\pagefield", "\\alpha \\pagefield", "\\alpha\\pagenumber"]
s = rtf.RTFDocument(df=pl.DataFrame({"a": texts})).rtf_encode()
cells = [l.split("{\\f0 ")[1].rsplit("}\\cell")[0] for l in s.splitlines() if l.endswith("\\cell")][1:]
for c, out in zip(texts, cells):
    print(f"{c!r:24} emitted: {out!r}")

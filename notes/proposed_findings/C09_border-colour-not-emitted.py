"""C09: border_color_* never reach the output.
Run: /venv/bin/python C09_border-colour-not-emitted.py"""
import re
import polars as pl
import rtflite as rtf

df = pl.DataFrame({"a": ["D0.0", "D1.0"], "b": ["D0.1", "D1.1"], "c": ["D0.2", "D1.2"]})
body = rtf.RTFBody(border_left="single", border_color_left=[["red", "blue", "green"]], border_top="single", border_color_top="red")
out = rtf.RTFDocument(df=df, rtf_column_header=[], rtf_body=body).rtf_encode()
print("\\brdrcf occurrences:", re.findall(r"\\brdrcf\d+", out), "| colour table:", re.findall(r"\{\\colortbl[^}]*\}", out))
print("expected: a \\brdrcf<n> on every left and top border, resolving to red / blue / green")

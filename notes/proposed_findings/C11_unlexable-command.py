"""C11 unlexable-command: four commands of the table can never be converted."""
import polars as pl, rtflite as rtf
from rtflite.dictionary.unicode_latex import latex_to_char
cmds = ["\\|", "\\:", "\\sqrt[3]", "\\sqrt[4]", "\\sqrt"]
s = rtf.RTFDocument(df=pl.DataFrame({"a": cmds})).rtf_encode()
cells = [l.split("{\\f0 ")[1].rsplit("}\\cell")[0] for l in s.splitlines() if l.endswith("\\cell")][1:]
for c, out in zip(cmds, cells):
    print(f"{c!r:12} in table: {c in latex_to_char} -> U+{ord(latex_to_char[c]):04X}   emitted: {out!r}")

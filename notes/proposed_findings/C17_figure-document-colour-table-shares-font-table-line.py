"""C17 / figure-document-colour-table-shares-font-table-line - stand-alone reproduction (plain rtflite calls).

A figure-only document that uses a colour (here: a red title) writes the font table's closing brace and
'{\\colortbl;' on ONE line.  assemble_rtf skips "2 lines after the last \\fcharset line" of every later input, which
for such a file lands INSIDE the colour table: the output gets the stray text '\\red255\\green0\\blue0;' and a '}' that
closes the whole document early (everything after it is outside the RTF group).  As the FIRST input the same file is fine.
Run: /venv/bin/python C17_figure-document-colour-table-shares-font-table-line.py
"""
import struct
import tempfile
import zlib

import polars as pl
import rtflite as rtf


def png(w, h):
    def chunk(tag, body):
        return struct.pack(">I", len(body)) + tag + body + struct.pack(">I", zlib.crc32(tag + body))
    return b"\x89PNG\r\n\x1a\n" + chunk(b"IHDR", struct.pack(">IIBBBBB", w, h, 8, 2, 0, 0, 0)) + chunk(b"IDAT", b"abc") + chunk(b"IEND", b"")


def depth_profile(text):
    """-> (offset at which the top-level group closes, total length of non-blank text)"""
    depth, i, closed_at = 0, 0, None
    while i < len(text):
        c = text[i]
        if c == "\\":
            i += 2
            continue
        if c == "{":
            depth += 1
        elif c == "}":
            depth -= 1
            if depth == 0 and closed_at is None:
                closed_at = i
        i += 1
    return closed_at, len(text.rstrip())


d = tempfile.mkdtemp()
open(f"{d}/a.png", "wb").write(png(3, 2))
rtf.RTFDocument(df=pl.DataFrame({"a": ["x"]}), rtf_title=rtf.RTFTitle(text="TABLE")).write_rtf(f"{d}/table.rtf")
rtf.RTFDocument(rtf_figure=rtf.RTFFigure(figures=f"{d}/a.png", fig_width=2, fig_height=1),
                rtf_title=rtf.RTFTitle(text="FIGURE", text_color=["red"])).write_rtf(f"{d}/figure_red_title.rtf")
print("line of figure_red_title.rtf that holds the colour table start:",
      [ln for ln in open(f"{d}/figure_red_title.rtf").read().split("\n") if "colortbl" in ln])
for order in (["figure_red_title", "table"], ["table", "figure_red_title"]):
    out = f"{d}/out_{'_'.join(order)}.rtf"
    rtf.assemble_rtf([f"{d}/{n}.rtf" for n in order], out)
    text = open(out).read()
    closed_at, total = depth_profile(text)
    ok = closed_at == total - 1
    print(order, "-> top-level group closes at offset", closed_at, "of", total, "OK" if ok else "<-- WRONG: the rest of the file is outside the document")
    if not ok:
        lines = text.split("\n")
        k = lines.index("\\page")
        print("   lines after the inserted \\page:", lines[k + 1:k + 4])

"""C12 / colour-context-not-set-on-multi-section-or-figure-path - plain rtflite reproduction.

Multi-section and figure documents reference colours by their index in the 657-entry master
table although the document carries a dense table with only the colours it uses.
Run: /venv/bin/python notes/proposed_findings/C12_colour-context-not-set-on-multi-section-or-figure-path.py
"""
import os
import re
import struct
import tempfile
import zlib

import polars as pl
import rtflite as rtf


def report(name, out):
    table = re.search(r"\{\\colortbl;([^}]*)\}", out)
    entries = 1 + table.group(1).count(";") if table else 0
    used = sorted({int(x) for x in re.findall(r"\\(?:cf|cb|chcbpat|brdrcf)(\d+)", out)})
    print(f"{name}: colour table has {entries} entries (indices 0..{entries - 1}); indices referenced: {used}",
          "-> OUT OF RANGE" if used and used[-1] >= entries else "-> ok")


df = pl.DataFrame({"a": ["x", "y"], "b": ["u", "v"]})
report("single section ", rtf.RTFDocument(df=df, rtf_body=rtf.RTFBody(text_color="red"),
                                          rtf_title=rtf.RTFTitle(text="t", text_color="blue")).rtf_encode())
report("two sections   ", rtf.RTFDocument(df=[df, df], rtf_body=[rtf.RTFBody(text_color="red"), rtf.RTFBody(text_color="blue")],
                                          rtf_column_header=[[None], [None]]).rtf_encode())


def chunk(tag, data):
    return struct.pack(">I", len(data)) + tag + data + struct.pack(">I", zlib.crc32(tag + data) & 0xFFFFFFFF)


png = b"\x89PNG\r\n\x1a\n" + chunk(b"IHDR", struct.pack(">IIBBBBB", 2, 2, 8, 2, 0, 0, 0)) + chunk(b"IDAT", b"\x00") + chunk(b"IEND", b"")
with tempfile.TemporaryDirectory() as d:
    p = os.path.join(d, "f.png")
    open(p, "wb").write(png)
    report("figure document", rtf.RTFDocument(rtf_figure=rtf.RTFFigure(figures=[p]), rtf_title=rtf.RTFTitle(text="t", text_color="red"),
                                              rtf_footnote=rtf.RTFFootnote(text="f", as_table=False, text_color="blue")).rtf_encode())

"""C10 astral-u-escape-out-of-range: U+1F600 is written as \\u62976 (> 32767)."""
import polars as pl, rtflite as rtf, re
s = rtf.RTFDocument(df=pl.DataFrame({"a": ["D0"], "b": ["\U0001F600"]})).rtf_encode()
print(re.findall(r"\\u-?\d+\*?", s))
print("RTF \\uN is a signed 16-bit value (-32768..32767); expected the surrogate pair \\u-10179*\\u-8704*")

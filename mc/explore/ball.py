"""E3 - configuration-graph explorer.

A Space is an ordered dict of named dimensions, each an ordered small domain whose FIRST element is
the anchor value.  Nodes of the configuration graph are configurations, edges change one dimension.
`ball(k)` enumerates every configuration that differs from the anchor in at most k dimensions
(breadth-first over the graph to depth k); `product(names)` the full Cartesian product of some
dimensions with the others at their anchor value."""
from __future__ import annotations

import itertools


class Space:
    def __init__(self, dims: dict, valid=None):
        self.dims = dims
        self.names = list(dims)
        self.valid = valid or (lambda c: True)

    def anchor(self):
        return {k: v[0] for k, v in self.dims.items()}

    def ball(self, k: int, exact: bool = False):
        """Yield (config, deviations) for every valid configuration within Hamming distance k."""
        a = self.anchor()
        for r in range(k if exact else 0, k + 1):
            for names in itertools.combinations(self.names, r):
                for idx in itertools.product(*[range(1, len(self.dims[n])) for n in names]):
                    c = dict(a)
                    for n, i in zip(names, idx):
                        c[n] = self.dims[n][i]
                    if self.valid(c):
                        yield c, {n: self.dims[n][i] for n, i in zip(names, idx)}

    def size(self, k: int) -> int:
        return sum(1 for _ in self.ball(k))

    def edges(self, k: int) -> int:
        """Number of single-dimension deviation edges inside the ball of radius k."""
        return sum(len(dev) for _, dev in self.ball(k))

    def product(self, names):
        a = self.anchor()
        for vals in itertools.product(*[self.dims[n] for n in names]):
            c = dict(a)
            c.update(zip(names, vals))
            if self.valid(c):
                yield c

"""E4 - paginator-automaton explorer.

Pagination is (claimed to be) a left fold over data rows.  For a fixed layout
configuration gamma the event alphabet is

    row(h, g, d):  h = lines the row needs (1..3, realised by measured filler text),
                   g = 0 same group | k in 1..L: the group key changes at level k
                       (levels k..L get new values) | 's': the subline_by value changes,
                   d = 1: the new value at level g is the divider '-----'

A history is a word over that alphabet.  ``observe(gamma, hist)`` builds the DataFrame
(group keys are run counters => contiguity holds by construction), encodes it with the
real code and reads the pages back.  Every state visited is produced by the real code.

Two enumerators (both run inside worker processes, a case = a subtree or a BFS):
  * unmerged: every extension of a prefix up to a depth (no state merging);
  * merged breadth-first closure over the abstract state ``canon(last page)`` to a
    fixpoint.  Observed abstract transitions (s, e) -> (broke?, s') are returned to the
    parent, which checks that they form a *function* across all histories (merged states
    must have equal futures - otherwise that is itself a C04 violation).
"""
from __future__ import annotations

import itertools
import re

from ..rtfreader.reader import parse
from ..spec import docspec

# --------------------------------------------------------------------------- gamma / history -> document


def norm_gamma(g: dict) -> dict:
    d = {"strategy": "plain", "L": 1, "nrow": 6, "header": "explicit", "footnote": None, "source": None,
         "new_page": False, "pageby_row": "column", "pageby_header": True, "place": ["all", "last", "last"],
         "font": 1, "size": 9, "inner_repeat": True, "heights": [1, 2, 3], "group_cols_reversed": False, "recur": False,
         "numeric_groups": False, "dup_narrow": False, "padded": False, "nulls": False, "other_col_size": None, "group_by_lines": None, "nan_groups": False, "indent_wrap": None, "key_not_first": False, "wide_fill": False}
    d.update(g)
    if d["strategy"] == "plain":
        d["L"] = 0
    return d


def alphabet(gamma: dict, divider: bool = False, nulls: bool = False):
    g = norm_gamma(gamma)
    groups = [0]
    if g["strategy"] in ("page_by", "subline+page_by", "group_by"):
        groups += list(range(1, g["L"] + 1))
    if g["strategy"] == "subline":
        groups += list(range(1, g["L"] + 1))
    if g["strategy"] == "subline+page_by":
        groups += ["s"]
    evs = [(h, gg, 0) for gg in groups for h in g["heights"]]
    if divider:
        evs += [(1, gg, 1) for gg in groups if gg not in (0, "s")]
        evs += [(1, gg, 3) for gg in groups if gg not in (0, "s") and gg < g["L"]]
    if g.get("recur"):  # d = 4: the new value at level g is the value of the group before the current one (A, B, A)
        evs += [(1, gg, 4) for gg in groups if gg not in (0, "s")]
    if g.get("padded"):  # d = 5: the new value at level g is the current value plus / minus one trailing blank
        evs += [(1, gg, 5) for gg in groups if gg not in (0, "s")]
    if g.get("nan_groups"):  # d = 7: the new value at level g is the float NaN (consecutive NaN rows are one group)
        evs += [(1, gg, 7) for gg in groups if gg not in (0, "s")]
    if nulls or g.get("nulls"):  # d = 2: the new value at level g is null ; d = 6: level g changes and the innermost new value is null
        evs += [(1, gg, 2) for gg in groups if gg not in (0, "s")]
        evs += [(1, gg, 6) for gg in groups if gg not in (0, "s") and gg < g["L"]]
    return evs


def keys_of(gamma: dict, hist):
    """-> (page_by/subline key vectors per level, subline ordinals per row, start[])
    start[i] = 0 (same group as row i-1) | k: outermost level (1-based) whose value differs
    from row i-1 | 's': the subline_by value differs.  start[0] opens every level.
    Key values are ordinals (-1 = divider '-----'); with inner_repeat an inner level restarts
    at 0 under a new outer group (same text under a new parent), otherwise it is fresh."""
    g = norm_gamma(gamma)
    L, rep, strat = g["L"], g["inner_repeat"], g["strategy"]
    ordv, isdiv, fresh, sub = [0] * L, [0] * L, [0] * L, 0  # isdiv: 0 value, 1 divider '-----', 2 null
    pad = [0] * L  # 1: the value carries a trailing blank
    before, top = [None] * L, [0] * L  # per level: the value of the previous group, the largest ordinal used
    rows, subs = [], []
    for i, (h, gg, d) in enumerate(hist):
        if i > 0:
            if gg == "s":
                sub += 1
                for l in range(L):
                    fresh[l] += 1
                    ordv[l] = 0 if rep else fresh[l]
                    isdiv[l] = 0
                    pad[l] = 0
            elif gg and d in (1, 2, 7) and isdiv[gg - 1] == d:
                pass  # "becomes null / the divider" on a level that already is: not a change, nothing is re-started
            elif gg:
                lv = gg - 1
                fresh[lv] += 1
                if d == 5:
                    pad[lv] ^= 1  # same value, blank added or removed
                elif d in (1, 2, 7):
                    pass  # entering a divider / null / NaN group consumes no ordinal
                elif isdiv[lv] and rep:
                    pass  # leaving a divider / null group back to the value shown before it (x, -----, x)
                elif d == 4 and before[lv] is not None:
                    ordv[lv], before[lv] = before[lv], ordv[lv]  # the value of the group before the current one recurs (A, B, A)
                else:
                    before[lv] = ordv[lv]
                    ordv[lv] = ordv[lv] + 1 if rep else fresh[lv]
                    if rep and before[lv] is not None and d != 4:
                        ordv[lv] = max(ordv[lv], top[lv] + 1)
                    top[lv] = max(top[lv], ordv[lv])
                isdiv[lv] = int(d) if d in (1, 2, 7) else (isdiv[lv] if d == 5 else 0)
                if d != 5:
                    pad[lv] = 0
                for l in range(lv + 1, L):
                    fresh[l] += 1
                    ordv[l] = 0 if rep else fresh[l]
                    isdiv[l] = 0
                    pad[l] = 0
                if d == 3 and lv + 1 < L:  # outer change whose innermost new value is the divider
                    isdiv[L - 1] = 1
                if d == 6 and lv + 1 < L:  # outer change whose innermost new value is null (null on both sides if it was null before)
                    isdiv[L - 1] = 2
        rows.append(tuple((-1 if isdiv[l] == 1 else ("nan" if isdiv[l] == 7 else None)) if isdiv[l] else (f"{ordv[l]}p" if pad[l] else ordv[l]) for l in range(L)))
        subs.append(sub)
    start = []
    for i in range(len(rows)):
        if i == 0:
            start.append("s" if strat == "subline+page_by" else (1 if L else 0))
        elif subs[i] != subs[i - 1]:
            start.append("s")
        else:
            start.append(next((l + 1 for l in range(L) if rows[i][l] != rows[i - 1][l]), 0))
    pb = [[r[l] for r in rows] for l in range(L)]
    return pb, subs, start


def spec_of(gamma: dict, hist) -> dict:
    g = norm_gamma(gamma)
    n = len(hist)
    pt, pf, ps = g["place"]
    spec = {"n": n, "cols": ["s", "s"], "title": 0, "header": g["header"], "footnote": g["footnote"], "source": g["source"],
            "pageby_header": g["pageby_header"], "heights": [h for h, _, _ in hist], "font": g["font"], "size": g["size"],
            "page": {"nrow": g["nrow"], "page_title": pt, "page_footnote": pf, "page_source": ps}}
    body = {}
    if g["font"] != 1:
        body["text_font"] = g["font"]
    if g["size"] != 9:
        body["text_font_size"] = g["size"]
    pb, sl, _ = keys_of(g, hist)
    if g.get("indent_wrap"):
        spec["indent_wrap"] = g["indent_wrap"]
    if g.get("wide_fill"):
        spec["wide_fill"] = True
    if g.get("other_col_size"):
        # per-column font sizes: the tall column keeps the layout's size, the other data column gets another one; the vector
        # is given per DataFrame column (group columns first), as the library documents it
        ngrp = {"plain": 0, "page_by": g["L"], "subline": g["L"], "subline+page_by": g["L"] + 1, "group_by": g["L"]}[g["strategy"]]
        body["text_font_size"] = [[g["size"]] * ngrp + [g["size"], g["other_col_size"]]]
    if body:
        spec["body"] = body
    strat = g["strategy"]
    if g.get("dup_narrow"):
        # the second column repeats the first column's text in a column a third as wide
        spec["dup_cols"] = {"c1": "c0"}
        spec["col_rel_width"] = [3, 1]
    if g.get("numeric_groups"):
        spec["page_by_numeric"] = True
    if g.get("nan_groups"):
        spec["page_by_numeric"] = "float"
    if strat == "page_by":
        spec["page_by"] = pb
        spec["new_page"] = g["new_page"]
        spec["pageby_row"] = g["pageby_row"]
        if g.get("group_cols_reversed") and g["L"] >= 2:
            # the page_by columns sit in the DataFrame in the opposite order of the page_by list, after the data columns
            spec["colorder"] = ["c0"] + [f"g{l}" for l in reversed(range(g["L"]))] + ["c1"]
    if g.get("key_not_first") and g["L"] == 1 and strat in ("page_by", "subline"):
        # the consumed key column is not a leading column of the frame (tall column first, key in the middle)
        spec["colorder"] = ["c0", "g0" if strat == "page_by" else "u0", "c1"]
        spec["col_rel_width"] = [2, 1, 5]
    if strat == "group_by":
        # value suppression, no headings: the group value text itself wraps to group_by_lines lines in its column
        spec["group_by"] = pb
        spec["group_by_lines"] = g.get("group_by_lines") or 1
    if strat == "subline":
        spec["subline_by"] = pb  # L subline columns
    elif strat == "subline+page_by":
        spec["subline_by"] = [sl]
        spec["page_by"] = pb
    return spec


# --------------------------------------------------------------------------- observation


_UVALS = re.compile(r"U(\d+)v(-?\d+)")


class Obs:
    __slots__ = ("pages", "error", "doc", "built", "n", "divider_text")

    def __init__(self):
        self.pages = []  # list of list of (role, info, lines)
        self.error = None
        self.doc = None
        self.built = None
        self.n = 0
        self.divider_text = False

    def data_pages(self):
        return [[info[1] for role, info, _ in pg if role == "data"] for pg in self.pages]


def row_lines(row, prev_x0: int = 0) -> int:
    """Independent lower bound on the lines a rendered table row needs: max over cells of
    ceil(width of the cell text at the cell's OWN font and size / the cell's own width)."""
    best = 1
    x0 = 0
    for c in row.cells:
        w_in = ((c.cellx or 0) - x0) / 1440.0
        x0 = c.cellx or x0
        txt = c.text
        if not txt:
            continue
        f, fs = 1, 9.0
        for e in c.events:
            if e[0] == "t":
                f = (e[2].get("f") or 0) + 1
                fs = (e[2].get("fs") or 18) / 2.0
                break
        best = max(best, docspec.lines_lower_bound(txt, w_in, f if f in docspec.FONT_FILES else 1, fs))
    return best


def observe(gamma: dict, hist, keep_doc: bool = False) -> Obs:
    o = Obs()
    o.n = len(hist)
    spec = spec_of(gamma, hist)
    try:
        b = docspec.build(spec)
        out = b.doc.rtf_encode()
    except Exception as e:  # reported by the caller
        o.error = f"{type(e).__name__}: {e}"
        return o
    d = parse(out)
    if d.errors:
        o.error = f"unparseable: {d.errors[:2]}"
        return o
    numeric_groups = norm_gamma(gamma).get("numeric_groups")
    for pg in d.pages:
        items = []
        for blk in pg.blocks:
            role, info = docspec.block_role(blk)
            if role == "blank":
                continue
            if role == "row_other" and numeric_groups and blk.kind == "row" and len(blk.cells) == 1 and re.fullmatch(r"-?\d+", blk.cells[0].text.strip() or "x"):
                role, info = "group", ("G", 0, int(blk.cells[0].text.strip()))  # numeric page_by value shown as heading
            lines = row_lines(blk) if blk.kind == "row" else 1
            txt = blk.text if blk.kind == "para" else (" ".join(blk.texts) if blk.kind == "row" else "")
            if "-----" in txt:
                o.divider_text = True
            if role == "subline_by":  # all values named by the heading paragraph, outer first
                info = tuple(info) + ([int(v) for _, v in _UVALS.findall(txt)],)
            items.append((role, info, lines))
        o.pages.append(items)
    if keep_doc:
        o.doc, o.built = d, b
    return o


# --------------------------------------------------------------------------- abstract state


def canon(gamma: dict, hist, obs: Obs):
    """Abstract state after `hist`: what a left-fold paginator can depend on.
    (data lines on the open page, heading rows on it, group starts on it, page opened by a
    continuation heading?, page non-empty)"""
    if not obs.pages or not hist:
        return (0, 0, 0, False, False)
    pb, _, start = keys_of(gamma, hist)
    if norm_gamma(gamma)["strategy"] == "subline+page_by":
        # a subline_by change that keeps the page_by value opens its page with a re-emitted (continuation)
        # heading, not with a group start: the two have different futures and must not be merged
        start = [0 if (st == "s" and i > 0 and all(col[i] == col[i - 1] for col in pb)) else st for i, st in enumerate(start)]
    last = obs.pages[-1]
    data = [(info[1], lines) for role, info, lines in last if role == "data"]
    heads = sum(1 for role, _, _ in last if role in ("group", "subline_by"))
    D = sum(l for _, l in data)
    starts = sum(1 for r, _ in data if start[r] not in (0,))
    cont = bool(data) and start[data[0][0]] == 0 and heads > 0
    gn = norm_gamma(gamma)
    if gn.get("nulls") or gn.get("padded") or gn.get("nan_groups"):
        # events "the value becomes null" / "a blank is added or removed" act on the current value: whether they change it
        # depends on what the last row holds (null -> null is no change), which therefore belongs to the state
        kind = tuple((v if v is None or v == -1 or v == "nan" else ("p" if isinstance(v, str) else 0)) for v in (col[-1] for col in pb))
        return (D, heads, starts, cont, bool(data), kind)
    if norm_gamma(gamma)["strategy"] == "subline+page_by":
        # the event 's' re-starts the page_by ordinals: whether it keeps the running page_by value depends on
        # the value of the last row, which therefore belongs to the state (otherwise 's' is not deterministic)
        return (D, heads, starts, cont, bool(data), all(col[-1] == 0 for col in pb))
    return (D, heads, starts, cont, bool(data))


def subtree(prefix, events, depth):
    """All extensions of `prefix` by 0..depth events (DFS order, prefix itself first)."""
    yield tuple(prefix)
    if depth <= 0:
        return
    for e in events:
        yield from subtree(tuple(prefix) + (e,), events, depth - 1)


def first_events(gamma):
    """Valid first events (the first row always opens a group: g is irrelevant, use 0)."""
    g = norm_gamma(gamma)
    return [(h, 0, 0) for h in g["heights"]]


# --------------------------------------------------------------------------- greedy reference


def greedy_pages(costs, forced, K, top_cost=None):
    """Reference left fold: costs[i] = rows charged to row i when it is placed,
    forced[i] = a grouping rule demands a break before i, top_cost(i) = extra rows charged
    when row i opens a page (continuation headings)."""
    pages, cur, fill = [], [], 0
    for i, c in enumerate(costs):
        if cur and (forced[i] or fill + c > K):
            pages.append(cur)
            cur, fill = [], 0
        if not cur and top_cost is not None:
            fill += top_cost(i)
        cur.append(i)
        fill += c
    if cur:
        pages.append(cur)
    return pages


# --------------------------------------------------------------------------- generic drivers


def explore(gamma, case, visit, events=None, keep_doc=False):
    """Run one work unit on the real code and call ``visit(hist, obs, parent_obs)`` for every
    history executed.  case["mode"]:
      'unmerged' : prefix + every extension up to case['depth'] (DFS)
      'bfs'      : breadth-first closure over canon() states to a fixpoint (caps: max_states, max_len)
      'list'     : the explicit histories in case['histories']
    Returns dict(observations, states=set of abstract states, trans=set of (s, e, broke, s2), capped)."""
    events = [tuple(e) for e in (events or case.get("events") or alphabet(gamma, case.get("divider", False), case.get("nulls", False)))]
    stats = {"observations": 0, "states": set(), "trans": set(), "capped": False, "max_len": 0}

    def step(hist, parent_obs, parent_state):
        obs = observe(gamma, hist, keep_doc=keep_doc)
        stats["observations"] += 1
        stats["max_len"] = max(stats["max_len"], len(hist))
        visit(hist, obs, parent_obs)
        if obs.error:
            return obs, None
        s = canon(gamma, hist, obs)
        stats["states"].add(s)
        if parent_state is not None and parent_obs is not None:
            stats["trans"].add((parent_state, hist[-1], len(obs.pages) > len(parent_obs.pages), s))
        return obs, s

    mode = case["mode"]
    if mode == "list":
        for h in case["histories"]:
            step(tuple(tuple(e) for e in h), None, None)
    elif mode == "unmerged":
        prefix = tuple(tuple(e) for e in case["prefix"])
        obs, st = None, None
        for k in range(1, len(prefix) + 1):
            obs, st = step(prefix[:k], obs, st)
            if obs.error:
                return stats

        def dfs(h, obs, st, d):
            if d <= 0:
                return
            for e in events:
                o2, s2 = step(h + (e,), obs, st)
                if s2 is not None:
                    dfs(h + (e,), o2, s2, d - 1)

        dfs(prefix, obs, st, case["depth"])
    elif mode == "bfs":
        max_states, max_len = case.get("max_states", 400), case.get("max_len", 40)
        seen, frontier = {}, []
        for e in first_events(gamma):
            o, s = step((e,), None, None)
            if s is not None and s not in seen:
                seen[s] = ((e,), o)
                frontier.append(s)
        while frontier:
            nxt = []
            for s in frontier:
                h, o = seen[s]
                if len(h) >= max_len:
                    stats["capped"] = True
                    continue
                for e in events:
                    o2, s2 = step(h + (e,), o, s)
                    if s2 is not None and s2 not in seen:
                        if len(seen) >= max_states:
                            stats["capped"] = True
                            continue
                        seen[s2] = (h + (e,), o2)
                        nxt.append(s2)
            frontier = nxt
    else:
        raise ValueError(mode)
    return stats


def split_cases(gamma, depth, bfs=True, divider=False, bfs_caps=(400, 40), split_at=6, nulls=False):
    """Work units covering all histories of gamma up to `depth` (+ the BFS closure)."""
    evs = alphabet(gamma, divider, nulls)
    firsts = first_events(gamma)
    cases = []
    if depth >= 4 and len(evs) >= split_at:
        for f in firsts:
            cases.append({"gamma": gamma, "mode": "unmerged", "prefix": [list(f)], "depth": 0, "divider": divider, "nulls": nulls})
            for e in evs:
                cases.append({"gamma": gamma, "mode": "unmerged", "prefix": [list(f), list(e)], "depth": depth - 2, "divider": divider, "nulls": nulls})
    else:
        for f in firsts:
            cases.append({"gamma": gamma, "mode": "unmerged", "prefix": [list(f)], "depth": depth - 1, "divider": divider, "nulls": nulls})
    if bfs:
        cases.append({"gamma": gamma, "mode": "bfs", "max_states": bfs_caps[0], "max_len": bfs_caps[1], "divider": divider, "nulls": nulls})
    return cases


def runs_history(run_lengths, level_of_run, height=1):
    """History from explicit group runs: run_lengths[i] rows, the run starts with a change at
    level_of_run[i] (ignored for the first run)."""
    h = []
    for i, (n, lv) in enumerate(zip(run_lengths, level_of_run)):
        for j in range(n):
            h.append((height, (lv if (j == 0 and i > 0) else 0), 0))
    return h

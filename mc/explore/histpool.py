"""Document pool for the process-state explorer (C14) and the scheduler (C15).

Importable by worker processes AND by fresh-interpreter baseline subprocesses
(python -m mc.explore.histpool <name>).  Only public rtflite constructors are used.
`shared` holds the component objects (and one DataFrame) that several pool documents hold by
reference."""
from __future__ import annotations

import hashlib
import json
import os
import sys


def _png_path():
    from ..core import repo
    from ..spec.figures import make_png

    d = os.path.join(repo.VERIF, ".work", "histpool")
    os.makedirs(d, exist_ok=True)
    p = os.path.join(d, "fig.png")
    if not os.path.exists(p):
        tmp = p + f".{os.getpid()}"
        with open(tmp, "wb") as f:
            f.write(make_png(4, 3, bytes(range(40))))
        os.replace(tmp, p)
    return p


def _png_path2():
    from ..core import repo
    from ..spec.figures import make_png

    d = os.path.join(repo.VERIF, ".work", "histpool")
    os.makedirs(d, exist_ok=True)
    p = os.path.join(d, "fig2.png")
    if not os.path.exists(p):
        tmp = p + f".{os.getpid()}"
        with open(tmp, "wb") as f:
            f.write(make_png(7, 5, bytes(range(90, 150))))
        os.replace(tmp, p)
    return p


def DF2():
    import polars as pl

    return pl.DataFrame({"a": ["D0.0", "D1.0", "D2.0", "D3.0"], "b": [1, 2, 3, 4]})


def DF1():
    import polars as pl

    return pl.DataFrame({"a": ["D0.0", "D1.0", "D2.0"]})


def DF3():
    import polars as pl

    return pl.DataFrame({"a": ["D0.0", "D1.0"], "b": [1, 2], "c": ["D0.2", "D1.2"]})


def DFG(bad=False):
    """grouped rows; bad=True is the SAME set of rows in a non-contiguous order"""
    import polars as pl

    rows = [("x", "D0.1"), ("x", "D1.1"), ("y", "D2.1"), ("y", "D3.1")]
    if bad:
        rows = [rows[0], rows[2], rows[1], rows[3]]
    return pl.DataFrame({"k": [r[0] for r in rows], "a": [r[1] for r in rows]})


LONG = "D0.0 " + "wide words " * 9  # one line in a 4.7 in column, three lines in a 1.6 in column


def DFW():
    import polars as pl

    # only column a carries the long text, so the row height really depends on a's width
    return pl.DataFrame({"a": [LONG.replace("D0", f"D{r}") for r in range(4)], "b": [f"D{r}.1" for r in range(4)]})


def DF5():
    import polars as pl

    return pl.DataFrame({"a": [f"D{r}.0" for r in range(5)], "b": [1, 2, 3, 4, 5], "c": [f"D{r}.2" for r in range(5)]})


def DF3R():
    import polars as pl

    return pl.DataFrame({"a": ["D0.0", "D1.0", "D2.0"], "b": [1, 2, 3], "c": ["D0.2", "D1.2", "D2.2"]})


def mk_shared():
    import rtflite as rtf

    return {
        "body": rtf.RTFBody(),
        "header": rtf.RTFColumnHeader(),
        "page": rtf.RTFPage(nrow=4),
        "sub": rtf.RTFSubline(text="S0"),
        "fn": rtf.RTFFootnote(text="F0"),
        "df": DF2(),
        # second sharing group (POOL2): a body whose borders are given as full rows x cols grids, a footnote and a
        # last-section body that several documents (one of which fails to encode) hold by reference
        "gbody": rtf.RTFBody(border_bottom=[["", "dashed"], ["dotted", ""], ["", ""], ["", ""]],
                             border_top=[["", ""], ["", "dotted"], ["dashed", ""], ["", ""]]),
        "fn2": rtf.RTFFootnote(text="F0"),
        "lastbody": rtf.RTFBody(),
        # third sharing group (POOL3): a table footnote (as_table default) and a coloured title held by several documents
        "fn3": rtf.RTFFootnote(text="F0"),
        "ctitle": rtf.RTFTitle(text="T0", text_color="red"),
    }


def _pool():
    import rtflite as rtf

    return {
        "plain": lambda sh: rtf.RTFDocument(df=DF2()),
        # red text AND a red top border: border colours resolve through the document's own colour table too
        "red": lambda sh: rtf.RTFDocument(df=DF2(), rtf_body=rtf.RTFBody(text_color="red", border_top="single", border_color_top="red"),
                                          rtf_title=rtf.RTFTitle(text="T0")),
        # paginated, own margins (page-break blocks restate them), blue/green cells
        "paged": lambda sh: rtf.RTFDocument(df=DF2(), rtf_page=rtf.RTFPage(nrow=3, margin=[0.5, 0.6, 0.7, 0.8, 0.4, 0.3]),
                                            rtf_body=rtf.RTFBody(text_color=[["blue", "green"]], border_top="single", border_color_top="red"),
                                            rtf_footnote=rtf.RTFFootnote(text="F0")),
        # table footnote and source on every page, one closing style empty: a per-page border override must not persist
        "fnall": lambda sh: rtf.RTFDocument(df=DF2(), rtf_page=rtf.RTFPage(nrow=4, page_footnote="all", page_source="all"),
                                            rtf_body=rtf.RTFBody(border_last=""),
                                            rtf_footnote=rtf.RTFFootnote(text="F0"), rtf_source=rtf.RTFSource(text="Z0", as_table=True)),
        "grouped": lambda sh: rtf.RTFDocument(df=DFG(), rtf_body=rtf.RTFBody(group_by="k", text_background_color="yellow")),
        "bad": lambda sh: rtf.RTFDocument(df=DFG(bad=True), rtf_body=rtf.RTFBody(group_by="k", text_color="blue")),
        "multi": lambda sh: rtf.RTFDocument(df=[DF2(), DF3()], rtf_body=[rtf.RTFBody(text_color="red"), rtf.RTFBody(text_color="green")],
                                            rtf_footnote=rtf.RTFFootnote(text="F0", text_color="purple")),
        # fails LATE: a frame without columns makes the body raise after the coloured title has been rendered
        "late": lambda sh: rtf.RTFDocument(df=__import__("polars").DataFrame(), rtf_title=rtf.RTFTitle(text="T0", text_color="green")),
        # last section wider than the first, several rows, no footnote
        "multiw": lambda sh: rtf.RTFDocument(df=[DF2(), DF3R()], rtf_body=[rtf.RTFBody(), rtf.RTFBody()]),
        # the same long texts at the same column positions in columns of different width (page fill differs)
        "narrow": lambda sh: rtf.RTFDocument(df=DFW(), rtf_page=rtf.RTFPage(nrow=8), rtf_body=rtf.RTFBody(col_rel_width=[1, 3])),
        "wide": lambda sh: rtf.RTFDocument(df=DFW(), rtf_page=rtf.RTFPage(nrow=8), rtf_body=rtf.RTFBody(col_rel_width=[3, 1])),
        # two page_by documents with different data (not in POOL_NAMES: used by the thread scheduler only)
        "pbA": lambda sh: rtf.RTFDocument(df=__import__("polars").DataFrame({"g": ["G0v0", "G0v0", "G0v1"], "a": ["D0.1", "D1.1", "D2.1"]}),
                                          rtf_page=rtf.RTFPage(nrow=5), rtf_body=rtf.RTFBody(page_by=["g"], text_color="red")),
        "pbB": lambda sh: rtf.RTFDocument(df=__import__("polars").DataFrame({"g": ["G0v7", "G0v8", "G0v8", "G0v9"], "a": ["D0.1", "D1.1", "D2.1", "D3.1"]}),
                                          rtf_page=rtf.RTFPage(nrow=4), rtf_body=rtf.RTFBody(page_by=["g"])),
        # two paginated group_by documents on a column of the same name: gpA's second page starts in the middle of a group,
        # gpB has a group that starts on that very row (used by the thread scheduler only)
        "gpA": lambda sh: rtf.RTFDocument(df=__import__("polars").DataFrame({"k": ["K0v0", "K0v0", "K0v0", "K0v1", "K0v1"], "a": [f"D{r}.1" for r in range(5)]}),
                                          rtf_page=rtf.RTFPage(nrow=2), rtf_body=rtf.RTFBody(group_by=["k"])),
        "gpB": lambda sh: rtf.RTFDocument(df=__import__("polars").DataFrame({"k": ["K0v5", "K0v5", "K0v6", "K0v6", "K0v6"], "a": [f"D{r}.1" for r in range(5)]}),
                                          rtf_page=rtf.RTFPage(nrow=2), rtf_body=rtf.RTFBody(group_by=["k"], text_color="green")),
        # documents for the hash-seed sweep only (HASHSEED_NAMES): features whose implementation is tempted to go through a set
        # of names - several removed columns with per-column attributes, many colours incl. same-RGB names, footnote and source
        # both as tables, a figure with footnote and source, texts whose non-ASCII runs contain one another
        "hs1": lambda sh: rtf.RTFDocument(
            df=__import__("polars").DataFrame({"subject": [LONG.replace("D0", f"D{r}") for r in range(4)], "value": ["a^2", "b_1", "c>=d", "e"], "site": ["G0v0", "G0v0", "G0v1", "G0v1"],
                                               "arm": ["G1v0", "G1v1", "G1v1", "G1v1"]}),
            rtf_page=rtf.RTFPage(nrow=9),
            rtf_body=rtf.RTFBody(page_by=["site", "arm"], col_rel_width=[1, 4, 3, 2], text_font_size=[[8, 9, 10, 11]], text_justification=[["l", "c", "r", "c"]],
                                 text_convert=[[False, True, False, True]], text_color=[["red", "blue", "green", "orange"]])),
        "hs2": lambda sh: rtf.RTFDocument(
            df=__import__("polars").DataFrame({"arm": ["G1v0", "G1v0", "G1v1", "G1v1"], "x": ["D0.0", "D1.0", "D2.0", "D3.0"], "y": [1, 2, 3, 4], "site": ["U0v0", "U0v0", "U0v0", "U0v1"]}),
            rtf_page=rtf.RTFPage(nrow=8),
            rtf_body=rtf.RTFBody(subline_by=["site"], page_by=["arm"], col_rel_width=[3, 1, 2, 2], text_format=[["b", "", "i", ""]], border_left=[["single", "", "double", ""]])),
        "hs3": lambda sh: rtf.RTFDocument(
            df=DF3R(), rtf_title=rtf.RTFTitle(text="T0", text_color="gray"), rtf_footnote=rtf.RTFFootnote(text="F0", text_color="grey", text_background_color="green"),
            rtf_body=rtf.RTFBody(text_color=[["darkgray", "darkgreen", "darkgrey"]], border_color_top=[["lightgray", "lightgreen", "lightgrey"]], border_top="single",
                                 text_background_color=[["white", "gray100", "orange"]])),
        "hs4": lambda sh: rtf.RTFDocument(df=DF2(), rtf_page=rtf.RTFPage(nrow=5, page_footnote="all", page_source="all", border_last="double"),
                                          rtf_body=rtf.RTFBody(border_last="dashed"), rtf_footnote=rtf.RTFFootnote(text="F0"), rtf_source=rtf.RTFSource(text="Z0", as_table=True)),
        "hs5": lambda sh: rtf.RTFDocument(rtf_figure=rtf.RTFFigure(figures=[_png_path(), _png_path()], fig_width=2, fig_height=1.5), rtf_title=rtf.RTFTitle(text="T0"),
                                          rtf_footnote=rtf.RTFFootnote(text="F0", as_table=False), rtf_source=rtf.RTFSource(text="Z0"),
                                          rtf_page=rtf.RTFPage(page_footnote="all", page_source="all")),
        "hs6": lambda sh: rtf.RTFDocument(df=__import__("polars").DataFrame({"a": ["\u6771\u4eac / \u6771\u4eac\u90fd", "\u00c4\u00d6, \u00c4, \u00c4\u00d6\u00dc"], "b": ["\u03b1 / \u03b1\u03b2", "\u03b8\u2081 vs \u03b8"]}),
                                          rtf_title=rtf.RTFTitle(text="\u03b1\u03b2\u03b3 - \u03b1\u03b2 - \u03b1")),
        "figure": lambda sh: rtf.RTFDocument(rtf_figure=rtf.RTFFigure(figures=[_png_path()], fig_width=2, fig_height=1.5),
                                             rtf_title=rtf.RTFTitle(text="T0", text_color="orange")),
        # shA / shB hold the same component objects AND the same DataFrame; same column count
        "shA": lambda sh: rtf.RTFDocument(df=sh["df"], rtf_body=sh["body"], rtf_column_header=[sh["header"]], rtf_page=sh["page"],
                                          rtf_subline=sh["sub"], rtf_footnote=sh["fn"]),
        "shB": lambda sh: rtf.RTFDocument(df=sh["df"], rtf_body=sh["body"], rtf_column_header=[sh["header"]], rtf_page=sh["page"],
                                          rtf_subline=sh["sub"], rtf_footnote=sh["fn"], rtf_title=rtf.RTFTitle(text="T0")),
        # shC holds the same body/header objects but its table has ONE column
        "shC": lambda sh: rtf.RTFDocument(df=DF1(), rtf_body=sh["body"], rtf_column_header=[sh["header"]], rtf_page=sh["page"]),
        # POOL2 -- gA/gB/gC share one grid-bordered body; the closing border belongs on the last data row (gA), on the
        # footnote row (gB), nowhere (gC: page/body closing styles empty)
        "gA": lambda sh: rtf.RTFDocument(df=DF2(), rtf_body=sh["gbody"]),
        "gB": lambda sh: rtf.RTFDocument(df=DF2(), rtf_body=sh["gbody"], rtf_footnote=sh["fn2"]),
        "gC": lambda sh: rtf.RTFDocument(df=DF2(), rtf_body=sh["gbody"], rtf_page=rtf.RTFPage(border_last="", border_first="")),
        # mBad / mOk are multi-section documents holding fn2 and lastbody; mBad fails inside its first section
        # (non-contiguous group_by keys; construction succeeds); mT is a single table on the same last-section body
        "mBad": lambda sh: rtf.RTFDocument(df=[DFG(bad=True), DF3R()], rtf_body=[rtf.RTFBody(group_by=["k"]), sh["lastbody"]]),
        "mBadF": lambda sh: rtf.RTFDocument(df=[DFG(bad=True), DF3R()], rtf_body=[rtf.RTFBody(group_by=["k"]), rtf.RTFBody()], rtf_footnote=sh["fn2"]),
        # gD: the shared footnote is followed by a table source, so the footnote row is NOT the closing row
        "gD": lambda sh: rtf.RTFDocument(df=DF2(), rtf_footnote=sh["fn2"], rtf_source=rtf.RTFSource(text="Z0", as_table=True)),
        "mOk": lambda sh: rtf.RTFDocument(df=[DFG(), DF3R()], rtf_body=[rtf.RTFBody(group_by=["k"]), sh["lastbody"]], rtf_footnote=sh["fn2"]),
        "mT": lambda sh: rtf.RTFDocument(df=DF5(), rtf_body=sh["lastbody"]),
        # a multi-section document whose later section paginates by subline_by, with title and page header
        # (what one section's encode writes into a component is read by the section loop of the next encode)
        # POOL3 -- fT / fF hold one as_table footnote: fF is a figure document (construction is refused: a figure document
        # cannot carry a table footnote), fT a table; cA / cB hold one coloured title but have different palettes
        "fT": lambda sh: rtf.RTFDocument(df=DF2(), rtf_footnote=sh["fn3"]),
        "fF": lambda sh: rtf.RTFDocument(rtf_figure=rtf.RTFFigure(figures=[_png_path()], fig_width=2, fig_height=1.5), rtf_footnote=sh["fn3"]),
        "cA": lambda sh: rtf.RTFDocument(df=DF2(), rtf_title=sh["ctitle"]),
        "cB": lambda sh: rtf.RTFDocument(df=DF2(), rtf_title=sh["ctitle"], rtf_body=rtf.RTFBody(text_color="blue")),
        "cC": lambda sh: rtf.RTFDocument(df=[DF2(), DF3()], rtf_title=sh["ctitle"], rtf_body=[rtf.RTFBody(text_color="green"), rtf.RTFBody(text_background_color="yellow")]),
        # POOL4 -- documents that are EDITED IN PLACE between encodes (events ed0..ed2, see EDITS)
        "eRed": lambda sh: rtf.RTFDocument(df=DF2(), rtf_body=rtf.RTFBody(text_color="red", border_top="single", border_color_top="red"),
                                           rtf_title=rtf.RTFTitle(text="T0 a^2 >= b_1 \\alpha", text_color="red"), rtf_page_footer=rtf.RTFPageFooter(text="PF0")),
        "ePaged": lambda sh: rtf.RTFDocument(df=DF2(), rtf_page=rtf.RTFPage(nrow=3, margin=[0.5, 0.6, 0.7, 0.8, 0.4, 0.3]),
                                             rtf_body=rtf.RTFBody(text_color=[["blue", "green"]]), rtf_footnote=rtf.RTFFootnote(text="F0")),
        "ePb": lambda sh: rtf.RTFDocument(df=__import__("polars").DataFrame({"site": ["G0v0", "G0v0", "G0v1", "G0v1"], "arm": ["G1v0", "G1v1", "G1v1", "G1v1"],
                                                                              "x": [LONG.replace("D0", f"D{r}") for r in range(4)], "y": [f"D{r}.1" for r in range(4)]}),
                                          rtf_page=rtf.RTFPage(nrow=9), rtf_body=rtf.RTFBody(page_by=["site"], col_rel_width=[1, 1, 2, 4])),
        "eFig": lambda sh: rtf.RTFDocument(rtf_figure=rtf.RTFFigure(figures=[_png_path()], fig_width=2, fig_height=1.5),
                                           rtf_title=rtf.RTFTitle(text="T0", text_color="orange")),
        "mSub": lambda sh: rtf.RTFDocument(df=[DF2(), DFG()], rtf_body=[rtf.RTFBody(), rtf.RTFBody(subline_by=["k"])],
                                           rtf_title=rtf.RTFTitle(text="T0"), rtf_page_header=rtf.RTFPageHeader()),
    }


POOL_NAMES = ["plain", "red", "paged", "fnall", "grouped", "bad", "late", "multi", "multiw", "narrow", "wide", "figure", "shA", "shB", "shC"]
POOL2_NAMES = ["gA", "gB", "gC", "gD", "mBad", "mBadF", "mOk", "mT", "mSub"]
POOL3_NAMES = ["fT", "fF", "cA", "cB", "cC"]
POOL4_NAMES = ["eRed", "ePaged", "ePb", "eFig"]
ALL_NAMES = POOL_NAMES + POOL2_NAMES + POOL3_NAMES + POOL4_NAMES
GROUPS = [POOL_NAMES, POOL2_NAMES, POOL3_NAMES, POOL4_NAMES]


def _norm(component_cls, **kw):
    """The internal (validated) form of field values, taken from a throw-away component built by the public constructor."""
    c = component_cls(**kw)
    return {k: getattr(c, k) for k in kw}


def edits_of(name):
    """In-place edits a user can make between two encodes of document `name` (assignments to fields of nested components;
    every value is the validated form produced by a public constructor).  -> list of callables(doc)"""
    import rtflite as rtf

    def assign(get, cls, **kw):
        def f(doc):
            comp = get(doc)
            for k, v in _norm(cls, **kw).items():
                setattr(comp, k, v)
        return f

    if name == "eRed":
        return [assign(lambda d: d.rtf_title, rtf.RTFTitle, text="T9 \\alpha >= x^2"),
                assign(lambda d: d.rtf_title, rtf.RTFTitle, text_convert=False),
                assign(lambda d: d.rtf_body, rtf.RTFBody, text_color="blue")]
    if name == "ePaged":
        return [assign(lambda d: d.rtf_page, rtf.RTFPage, margin=[1.1, 0.9, 1.3, 0.7, 0.55, 0.45]),
                assign(lambda d: d.rtf_page, rtf.RTFPage, nrow=4),
                assign(lambda d: d.rtf_footnote, rtf.RTFFootnote, text="F9 edited")]
    if name == "ePb":
        return [assign(lambda d: d.rtf_body, rtf.RTFBody, page_by=["arm"]),
                assign(lambda d: d.rtf_body, rtf.RTFBody, page_by=["site"], new_page=True, pageby_row="column"),
                assign(lambda d: d.rtf_page, rtf.RTFPage, nrow=5)]
    if name == "eFig":
        return [assign(lambda d: d.rtf_figure, rtf.RTFFigure, figures=[_png_path2(), _png_path()], fig_width=[3.0, 2.0], fig_height=[2.0, 1.5]),
                assign(lambda d: d.rtf_figure, rtf.RTFFigure, figures=[_png_path()], fig_width=[3.0], fig_height=[1.5]),
                assign(lambda d: d.rtf_title, rtf.RTFTitle, text="T9 edited")]
    return []


N_EDITS = 3


def construct_edited(key, shared):
    """key = 'name' or 'name+e0+e2': the document built by the public constructor with the edits applied in order (no encode in between)."""
    name, *eds = key.split("+")
    doc = construct(name, shared)
    for e in eds:
        edits_of(name)[int(e[1:])](doc)
    return doc
HASHSEED_NAMES = ["hs1", "hs2", "hs3", "hs4", "hs5", "hs6", "pbA", "pbB", "gpA", "gpB"]  # fresh-interpreter sweep over PYTHONHASHSEED only
SHARES = {"shA": ("body", "header", "page", "sub", "fn", "df"), "shB": ("body", "header", "page", "sub", "fn", "df"),
          "shC": ("body", "header", "page"),
          "gA": ("gbody",), "gB": ("gbody", "fn2"), "gC": ("gbody",), "gD": ("fn2",), "mBad": ("lastbody",), "mBadF": ("fn2",), "mOk": ("fn2", "lastbody"), "mT": ("lastbody",),
          "fT": ("fn3",), "fF": ("fn3",), "cA": ("ctitle",), "cB": ("ctitle",), "cC": ("ctitle",)}
NCOLS = {"shA": 2, "shB": 2, "shC": 1, "gA": 2, "gB": 2, "gC": 2, "gD": 2, "mBad": 3, "mBadF": 3, "mOk": 3, "mT": 3, "fT": 2, "fF": 2, "cA": 2, "cB": 2, "cC": 2}


def construct(name, shared):
    return _pool()[name](shared)


def encode_result(doc):
    try:
        return ["ok", doc.rtf_encode()]
    except Exception as e:  # noqa: BLE001 - the type is the observation
        return ["exc", type(e).__name__]


def _main():
    # fresh-interpreter baseline: prints {"name": [...result...]} for every requested pool document
    from ..core import repo

    repo.bind()
    import io

    out = {}
    real = sys.stdout
    for name in sys.argv[1:]:
        sys.stdout = io.StringIO()
        try:
            sh = mk_shared()
            try:
                doc = construct_edited(name, sh)
            except Exception as e:  # noqa: BLE001 - a document whose construction is refused is a legitimate pool member
                out[name] = ["construct-exc", type(e).__name__]
                continue
            out[name] = encode_result(doc)
        finally:
            sys.stdout = real
    json.dump(out, real)


if __name__ == "__main__":
    _main()

"""Structure-agnostic census of rtflite's process-global mutable state, with snapshot/restore.

Names no function, class or attribute of rtflite: it walks every module in sys.modules whose name
starts with 'rtflite' (all sub-modules are imported first so that lazy imports do not look like
state changes), collects module-level and class-level mutable objects (dict / list / set /
ContextVar / instances of rtflite classes), de-duplicated by identity, and renders a canonical form."""
from __future__ import annotations

import copy
import hashlib
import importlib
import pickle
import pkgutil
import sys
import types

IMMUT = (int, float, str, bytes, bool, type(None), complex, frozenset, range)


def import_all():
    import rtflite

    for m in pkgutil.walk_packages(rtflite.__path__, "rtflite."):
        try:
            importlib.import_module(m.name)
        except Exception:  # optional dependencies (python-docx) may be absent
            pass


def canon(o, seen=frozenset(), depth=0):
    if isinstance(o, IMMUT):
        return repr(o)
    if id(o) in seen:
        return "<cyc>"
    if depth > 10:
        return "<deep>"
    seen = seen | {id(o)}
    if isinstance(o, (list, tuple)):
        return "[" + ",".join(canon(x, seen, depth + 1) for x in o) + "]"
    if isinstance(o, dict):
        return "{" + ",".join(f"{canon(k, seen, depth + 1)}:{canon(v, seen, depth + 1)}" for k, v in o.items()) + "}"
    if isinstance(o, (set, frozenset)):
        return "set(" + ",".join(sorted(canon(x, seen, depth + 1) for x in o)) + ")"
    tname = type(o).__name__
    mod = type(o).__module__ or ""
    if tname == "DataFrame" and mod.startswith("polars"):
        return "DF" + hashlib.md5(repr((o.schema, o.rows())).encode()).hexdigest()
    if isinstance(o, (types.FunctionType, types.BuiltinFunctionType, types.MethodType, type, types.ModuleType,
                      classmethod, staticmethod, property)):
        return f"<{tname} {getattr(o, '__qualname__', getattr(o, '__name__', '?'))}>"
    if tname == "ContextVar":
        try:
            return "CV:" + canon(o.get(), seen, depth + 1)
        except LookupError:
            return "CV:<unset>"
    if mod.startswith("rtflite") and hasattr(o, "__dict__"):
        extra = ""
        priv = getattr(o, "__pydantic_private__", None)
        if priv:
            extra = "|priv=" + canon(priv, seen, depth + 1)
        return f"<{type(o).__qualname__} " + canon(vars(o), seen, depth + 1) + extra + ">"
    if mod.startswith("pathlib"):
        return f"<path {o}>"
    return f"<opaque {mod}.{type(o).__qualname__}>"


def census_objects():
    objs = {}
    for name, mod in sorted(sys.modules.items()):
        if not name.startswith("rtflite") or mod is None:
            continue
        for k, v in sorted(vars(mod).items()):
            if k.startswith("__"):
                continue
            cands = []
            if isinstance(v, type) and (v.__module__ or "").startswith("rtflite"):
                for ak, av in sorted(vars(v).items()):
                    if ak.startswith("__") and ak.endswith("__"):
                        continue
                    cands.append((f"{v.__module__}.{v.__qualname__}.{ak}", av))
            else:
                cands.append((f"{name}.{k}", v))
            for label, av in cands:
                if isinstance(av, (dict, list, set)) or type(av).__name__ == "ContextVar" or (
                    hasattr(av, "__dict__") and (type(av).__module__ or "").startswith("rtflite") and not isinstance(av, type)
                ):
                    objs.setdefault(id(av), (label, av))
    return objs


def fingerprint(o, ids):
    """Cheap canonical fingerprint of one census object.  Plain containers go through pickle (C speed,
    deterministic for an unchanged object graph and a fixed hash seed); instances are rendered field by
    field, with fields that are themselves census objects replaced by a reference."""
    if isinstance(o, (dict, list)):
        try:
            return "P" + hashlib.md5(pickle.dumps(o, protocol=4)).hexdigest()
        except Exception:  # unpicklable content
            return canon(o)
    if hasattr(o, "__dict__") and (type(o).__module__ or "").startswith("rtflite"):
        parts = []
        for k, v in vars(o).items():
            parts.append(f"{k}=" + (f"<ref {ids[id(v)]}>" if id(v) in ids else canon(v)))
        return f"<{type(o).__qualname__} " + ",".join(parts) + ">"
    return canon(o)


def binding_items():
    """Module-level and class-level NAME BINDINGS of rtflite whose value is not a container / rtflite instance
    (those are covered by census_objects) and not a function / class / module: scalars by value, other objects by type.
    Catches state kept by rebinding a global (`_last_key = key`)."""
    out = []
    for name, mod in sorted(sys.modules.items()):
        if not name.startswith("rtflite") or mod is None:
            continue
        for k, v in sorted(vars(mod).items()):
            if k.startswith("__"):
                continue
            cands = [(f"{name}.{k}", v)]
            if isinstance(v, type) and (v.__module__ or "") == name:
                cands = [(f"{name}.{k}.{ak}", av) for ak, av in sorted(vars(v).items()) if not (ak.startswith("__") and ak.endswith("__"))]
            for label, av in cands:
                if isinstance(av, (types.FunctionType, types.BuiltinFunctionType, types.MethodType, type, types.ModuleType, classmethod,
                                   staticmethod, property, dict, list, set)):
                    continue
                if type(av).__name__ in ("ContextVar", "cython_function_or_method", "_lru_cache_wrapper", "member_descriptor", "getset_descriptor"):
                    continue
                if hasattr(av, "__dict__") and (type(av).__module__ or "").startswith("rtflite"):
                    continue
                if isinstance(av, IMMUT + (tuple,)):
                    r = repr(av)
                    out.append((label, r if len(r) < 200 else hashlib.md5(r.encode()).hexdigest()))
                elif (type(av).__module__ or "").split(".")[0] in ("typing", "re", "pydantic", "pydantic_core", "abc", "functools", "collections", "enum", "_thread"):
                    continue
                else:
                    out.append((label, f"<{type(av).__module__}.{type(av).__qualname__}>"))
    return out


def census_items():
    objs = census_objects()
    ids = {i: label for i, (label, _) in objs.items()}
    return sorted([(l, fingerprint(o, ids)) for l, o in objs.values()] + [("=" + l, v) for l, v in binding_items()], key=lambda t: t[0])


def census_light():
    """Cheap variant for discovery heuristics only (NOT for state identity): big containers are fingerprinted by
    length and a few probes instead of their whole content."""
    objs = census_objects()
    ids = {i: label for i, (label, _) in objs.items()}
    parts = []
    for label, o in objs.values():
        if isinstance(o, (dict, list, set)) and len(o) > 64:
            probe = ""
            try:
                if isinstance(o, list):
                    probe = repr((o[0], o[-1]))[:200]
                elif isinstance(o, dict):
                    k = next(iter(o))
                    probe = repr((k, o[k]))[:200]
            except Exception:  # noqa: BLE001
                pass
            parts.append((label, f"{type(o).__name__}#{len(o)}:{probe}"))
        else:
            parts.append((label, fingerprint(o, ids)))
    parts += [("=" + l, v) for l, v in binding_items()]
    return hashlib.md5(repr(sorted(parts)).encode()).hexdigest()


def make_light_fingerprint():
    """Closure over the CURRENT set of census objects and name bindings (computed once): a very cheap fingerprint
    for the discovery heuristics.  Containers: length + identity-free probes; small ones and instances: full render;
    bindings: identity of the bound object (rebinding a global is what it is meant to notice)."""
    objs = list(census_objects().values())
    ids = {id(o): label for label, o in objs}
    binds = []
    for name, mod in sorted(sys.modules.items()):
        if not name.startswith("rtflite") or mod is None:
            continue
        for k, v in vars(mod).items():
            if k.startswith("__") or isinstance(v, (types.FunctionType, type, types.ModuleType)):
                continue
            binds.append((mod, k))
    small = [(l, o) for l, o in objs if not (isinstance(o, (dict, list, set)) and len(o) > 64)]
    big = [(l, o) for l, o in objs if isinstance(o, (dict, list, set)) and len(o) > 64]

    def fp():
        parts = [len(o) for _, o in big]
        parts += [fingerprint(o, ids) for _, o in small]
        parts += [id(getattr(m, k, None)) for m, k in binds]
        return hash(tuple(parts))

    return fp


def census():
    return hashlib.md5("|".join(f"{l}={c}" for l, c in census_items()).encode()).hexdigest()


_MISSING = object()


def _content(v):
    if isinstance(v, dict):
        return ("dict", dict(v))
    if isinstance(v, list):
        return ("list", list(v))
    if isinstance(v, set):
        return ("set", set(v))
    return None


def _restore_content(v, content):
    if content is None:
        return
    kind, saved = content
    if kind == "dict" and v != saved:
        v.clear()
        v.update(saved)
    elif kind == "list" and v != saved:
        v[:] = saved
    elif kind == "set" and v != saved:
        v.clear()
        v.update(saved)


class Snapshot:
    """Snapshot of the census objects taken in the pristine state; restore() puts every object back
    in place and asserts that the census equals the pristine census."""

    def __init__(self):
        self.snap = {}
        for i, (label, o) in census_objects().items():
            if isinstance(o, dict):
                self.snap[i] = ("dict", o, dict(o))
            elif isinstance(o, list):
                self.snap[i] = ("list", o, list(o))
            elif isinstance(o, set):
                self.snap[i] = ("set", o, set(o))
            elif type(o).__name__ == "ContextVar":
                try:
                    self.snap[i] = ("cv", o, o.get())
                except LookupError:
                    self.snap[i] = ("cv-unset", o, None)
            else:
                # instance: remember every attribute binding and, for plain containers held in attributes, their content
                self.snap[i] = ("obj", o, {k: (v, _content(v)) for k, v in vars(o).items()})
        self.names = self._names()
        self.bindings = self._bindings()
        self.c0 = census()
        self.n = len(self.snap)

    @staticmethod
    def _bindings():
        """(owner object, attribute name) -> bound object, for every module-level / class-level name of rtflite"""
        out = []
        for name, mod in sys.modules.items():
            if not name.startswith("rtflite") or mod is None:
                continue
            for k, v in vars(mod).items():
                if k.startswith("__"):
                    continue
                out.append((mod, k, v))
                if isinstance(v, type) and (v.__module__ or "") == name:
                    for ak, av in vars(v).items():
                        if not (ak.startswith("__") and ak.endswith("__")) and not isinstance(av, (types.FunctionType, classmethod, staticmethod, property)):
                            out.append((v, ak, av))
        return out

    @staticmethod
    def _names():
        out = set()
        for name, mod in sys.modules.items():
            if not name.startswith("rtflite") or mod is None:
                continue
            for k, v in vars(mod).items():
                out.add((name, k))
                if isinstance(v, type) and (v.__module__ or "").startswith("rtflite"):
                    for ak in vars(v):
                        out.add((name, k, ak))
        return out

    def restore(self):
        for kind, o, snap in self.snap.values():
            if kind == "dict":
                if o != snap:
                    o.clear()
                    o.update(snap)
            elif kind == "list":
                if o != snap:
                    o[:] = snap
            elif kind == "set":
                if o != snap:
                    o.clear()
                    o.update(snap)
            elif kind == "cv":
                o.set(snap)
            elif kind == "obj":
                d = vars(o)
                if set(d) != set(snap) or any(d[k] is not snap[k][0] for k in snap):
                    d.clear()
                    d.update({k: v for k, (v, _) in snap.items()})
                for k, (v, content) in snap.items():
                    _restore_content(v, content)
        # functools caches of the library are process state the census cannot look into: empty them, so that every
        # history / schedule starts from what a fresh interpreter has (and a counterexample names its true history)
        for name, mod in list(sys.modules.items()):
            if not name.startswith("rtflite") or mod is None:
                continue
            for k, v in list(vars(mod).items()):
                targets = [v]
                if isinstance(v, type) and (v.__module__ or "") == name:
                    targets = [getattr(v, ak, None) for ak in list(vars(v))]
                for t in targets:
                    cc = getattr(t, "cache_clear", None)
                    if callable(cc) and not isinstance(t, type):
                        try:
                            cc()
                        except Exception:  # noqa: BLE001
                            pass
        # names re-bound since the snapshot (state kept in a global scalar or object) get their original object back
        for owner, k, v in self.bindings:
            try:
                if getattr(owner, k, _MISSING) is not v:
                    setattr(owner, k, v)
            except (AttributeError, TypeError):
                pass
        # globals / class attributes created lazily after the snapshot are removed again
        for name, mod in list(sys.modules.items()):
            if not name.startswith("rtflite") or mod is None:
                continue
            for k, v in list(vars(mod).items()):
                if (name, k) not in self.names:
                    if not isinstance(v, types.ModuleType):
                        delattr(mod, k)
                    continue
                if isinstance(v, type) and (v.__module__ or "").startswith("rtflite") and v.__module__ == name:
                    for ak in list(vars(v)):
                        if (name, k, ak) not in self.names and not (ak.startswith("__") and ak.endswith("__")):
                            try:
                                delattr(v, ak)
                            except Exception:
                                pass
        c = census()
        if c != self.c0:
            raise RuntimeError("census restore failed: process-global state cannot be returned to pristine")

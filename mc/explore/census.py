"""Structure-agnostic census of rtflite's process-global mutable state, with snapshot/restore.

Names no function, class or attribute of rtflite: it walks every module in sys.modules whose name
starts with 'rtflite' (all sub-modules are imported first so that lazy imports do not look like
state changes), collects module-level and class-level mutable objects (dict / list / set /
ContextVar / instances of rtflite classes), de-duplicated by identity, and renders a canonical form."""
from __future__ import annotations

import copy
import hashlib
import importlib
import pickle
import pkgutil
import sys
import types

IMMUT = (int, float, str, bytes, bool, type(None), complex, frozenset, range)


def import_all():
    import rtflite

    for m in pkgutil.walk_packages(rtflite.__path__, "rtflite."):
        try:
            importlib.import_module(m.name)
        except Exception:  # optional dependencies (python-docx) may be absent
            pass


def canon(o, seen=frozenset(), depth=0):
    if isinstance(o, IMMUT):
        return repr(o)
    if id(o) in seen:
        return "<cyc>"
    if depth > 10:
        return "<deep>"
    seen = seen | {id(o)}
    if isinstance(o, (list, tuple)):
        return "[" + ",".join(canon(x, seen, depth + 1) for x in o) + "]"
    if isinstance(o, dict):
        return "{" + ",".join(f"{canon(k, seen, depth + 1)}:{canon(v, seen, depth + 1)}" for k, v in o.items()) + "}"
    if isinstance(o, (set, frozenset)):
        return "set(" + ",".join(sorted(canon(x, seen, depth + 1) for x in o)) + ")"
    tname = type(o).__name__
    mod = type(o).__module__ or ""
    if tname == "DataFrame" and mod.startswith("polars"):
        return "DF" + hashlib.md5(repr((o.schema, o.rows())).encode()).hexdigest()
    if isinstance(o, (types.FunctionType, types.BuiltinFunctionType, types.MethodType, type, types.ModuleType,
                      classmethod, staticmethod, property)):
        return f"<{tname} {getattr(o, '__qualname__', getattr(o, '__name__', '?'))}>"
    if tname == "ContextVar":
        try:
            return "CV:" + canon(o.get(), seen, depth + 1)
        except LookupError:
            return "CV:<unset>"
    if mod.startswith("rtflite") and hasattr(o, "__dict__"):
        extra = ""
        priv = getattr(o, "__pydantic_private__", None)
        if priv:
            extra = "|priv=" + canon(priv, seen, depth + 1)
        return f"<{type(o).__qualname__} " + canon(vars(o), seen, depth + 1) + extra + ">"
    if mod.startswith("pathlib"):
        return f"<path {o}>"
    return f"<opaque {mod}.{type(o).__qualname__}>"


def census_objects():
    objs = {}
    for name, mod in sorted(sys.modules.items()):
        if not name.startswith("rtflite") or mod is None:
            continue
        for k, v in sorted(vars(mod).items()):
            if k.startswith("__"):
                continue
            cands = []
            if isinstance(v, type) and (v.__module__ or "").startswith("rtflite"):
                for ak, av in sorted(vars(v).items()):
                    if ak.startswith("__") and ak.endswith("__"):
                        continue
                    cands.append((f"{v.__module__}.{v.__qualname__}.{ak}", av))
            else:
                cands.append((f"{name}.{k}", v))
            for label, av in cands:
                if isinstance(av, (dict, list, set)) or type(av).__name__ == "ContextVar" or (
                    hasattr(av, "__dict__") and (type(av).__module__ or "").startswith("rtflite") and not isinstance(av, type)
                ):
                    objs.setdefault(id(av), (label, av))
    return objs


def fingerprint(o, ids):
    """Cheap canonical fingerprint of one census object.  Plain containers go through pickle (C speed,
    deterministic for an unchanged object graph and a fixed hash seed); instances are rendered field by
    field, with fields that are themselves census objects replaced by a reference."""
    if isinstance(o, (dict, list)):
        try:
            return "P" + hashlib.md5(pickle.dumps(o, protocol=4)).hexdigest()
        except Exception:  # unpicklable content
            return canon(o)
    if hasattr(o, "__dict__") and (type(o).__module__ or "").startswith("rtflite"):
        parts = []
        for k, v in vars(o).items():
            parts.append(f"{k}=" + (f"<ref {ids[id(v)]}>" if id(v) in ids else canon(v)))
        return f"<{type(o).__qualname__} " + ",".join(parts) + ">"
    return canon(o)


def census_items():
    objs = census_objects()
    ids = {i: label for i, (label, _) in objs.items()}
    return sorted(((l, fingerprint(o, ids)) for l, o in objs.values()), key=lambda t: t[0])


def census():
    return hashlib.md5("|".join(f"{l}={c}" for l, c in census_items()).encode()).hexdigest()


class Snapshot:
    """Snapshot of the census objects taken in the pristine state; restore() puts every object back
    in place and asserts that the census equals the pristine census."""

    def __init__(self):
        self.snap = {}
        for i, (label, o) in census_objects().items():
            if isinstance(o, dict):
                self.snap[i] = ("dict", o, dict(o))
            elif isinstance(o, list):
                self.snap[i] = ("list", o, list(o))
            elif isinstance(o, set):
                self.snap[i] = ("set", o, set(o))
            elif type(o).__name__ == "ContextVar":
                try:
                    self.snap[i] = ("cv", o, o.get())
                except LookupError:
                    self.snap[i] = ("cv-unset", o, None)
            else:
                self.snap[i] = ("obj", o, copy.copy(vars(o)))
        self.names = self._names()
        self.c0 = census()
        self.n = len(self.snap)

    @staticmethod
    def _names():
        out = set()
        for name, mod in sys.modules.items():
            if not name.startswith("rtflite") or mod is None:
                continue
            for k, v in vars(mod).items():
                out.add((name, k))
                if isinstance(v, type) and (v.__module__ or "").startswith("rtflite"):
                    for ak in vars(v):
                        out.add((name, k, ak))
        return out

    def restore(self):
        for kind, o, snap in self.snap.values():
            if kind == "dict":
                if o != snap:
                    o.clear()
                    o.update(snap)
            elif kind == "list":
                if o != snap:
                    o[:] = snap
            elif kind == "set":
                if o != snap:
                    o.clear()
                    o.update(snap)
            elif kind == "cv":
                o.set(snap)
            elif kind == "obj":
                d = vars(o)
                if d != snap or any(d[k] is not snap[k] for k in snap):
                    d.clear()
                    d.update(snap)
        # globals / class attributes created lazily after the snapshot are removed again
        for name, mod in list(sys.modules.items()):
            if not name.startswith("rtflite") or mod is None:
                continue
            for k, v in list(vars(mod).items()):
                if (name, k) not in self.names:
                    if not isinstance(v, types.ModuleType):
                        delattr(mod, k)
                    continue
                if isinstance(v, type) and (v.__module__ or "").startswith("rtflite") and v.__module__ == name:
                    for ak in list(vars(v)):
                        if (name, k, ak) not in self.names and not (ak.startswith("__") and ak.endswith("__")):
                            try:
                                delattr(v, ak)
                            except Exception:
                                pass
        c = census()
        if c != self.c0:
            raise RuntimeError("census restore failed: process-global state cannot be returned to pristine")

"""E7 - fault and environment-answer enumerator for exports.

One export call runs inside a private sandbox directory (target directory + private temp directory,
tempfile.tempdir redirected).  A sys.settrace function counts `call` events of frames whose code
lives under <repo>/src/rtflite/ and raises an injected exception at instance k (exceptions raised
from a trace function propagate as if raised at function entry).  The whole sandbox is
snapshotted (path -> bytes) before and after the call."""
from __future__ import annotations

import contextlib
import io
import os
import pathlib
import shutil
import sys
import tempfile

from ..core import repo


class Fault(Exception):
    pass


class BaseFault(BaseException):
    pass


class Stub:
    """Converter stub passed through the public converter= parameter."""

    def __init__(self, mode):
        self.mode = mode
        self.seen_input = None

    def convert(self, input_files, output_dir, format="pdf", overwrite=False):
        src = pathlib.Path(input_files)
        self.seen_input = src.read_bytes()
        out = pathlib.Path(output_dir) / f"{src.stem}.{format}"
        if self.mode == "raise_before":
            raise RuntimeError("converter failed before producing output")
        out.write_bytes(b"CONVERTED:" + self.seen_input)
        if self.mode == "raise_after":
            raise RuntimeError("converter failed after producing output")
        if self.mode == "html_res":
            res = out.parent / f"{out.name}_files"
            res.mkdir()
            (res / "img.png").write_bytes(b"RES")
        if self.mode == "list":
            return [out]
        if self.mode == "none":
            return None
        if self.mode == "str":
            return str(out)
        if self.mode == "missing_path":
            return out.with_name("does-not-exist." + format)
        return out


_FAKE_SOFFICE = r"""#!/bin/sh
# stand-in for soffice used by the C18 harness; behaviour = suffix of the script name
mode="${0##*-}"
if [ "$1" = "--version" ]; then echo "LibreOffice 24.8.3.2 0123456789abcdef"; exit 0; fi
fmt=""; out=""; inp=""
while [ $# -gt 0 ]; do
  case "$1" in
    --convert-to) fmt="$2"; shift 2;;
    --outdir) out="$2"; shift 2;;
    --*|-env:*) shift;;
    *) inp="$1"; shift;;
  esac
done
stem=$(basename "$inp"); stem="${stem%.*}"
case "$mode" in
  ok) { printf 'CONVERTED:'; cat "$inp"; } > "$out/$stem.$fmt"; exit 0;;
  fail) echo "conversion failed" >&2; exit 1;;
  failafter) printf 'TRUNCATED-' > "$out/$stem.$fmt"; echo "crashed while writing" >&2; exit 1;;
  nooutput) exit 0;;
esac
exit 2
"""
REAL_MODES = ("real_ok", "real_fail", "real_failafter", "real_nooutput")


def fake_soffice(mode):
    """Path of an executable that the library's own LibreOfficeConverter accepts (answers --version) and that converts
    by prefixing the input (ok), fails (fail), dies after writing a truncated output (failafter) or writes nothing (nooutput)."""
    d = os.path.join(repo.VERIF, ".work", "c18-bin")
    os.makedirs(d, exist_ok=True)
    p = os.path.join(d, "soffice2-" + mode.split("_", 1)[1])
    if not os.path.exists(p):
        tmp = p + f".{os.getpid()}"
        with open(tmp, "w") as f:
            f.write(_FAKE_SOFFICE)
        os.chmod(tmp, 0o755)
        os.replace(tmp, p)
    return p


def snapshot(root):
    s = {}
    for p in sorted(pathlib.Path(root).rglob("*")):
        s[str(p.relative_to(root))] = p.read_bytes() if p.is_file() else None
    return s


class Box:
    def __init__(self, tag):
        base = os.path.join(repo.VERIF, ".work", "c18")
        os.makedirs(base, exist_ok=True)
        self.root = tempfile.mkdtemp(prefix=f"box-{tag}-", dir=base)
        self.tmp = os.path.join(self.root, "tmp")
        self.out = os.path.join(self.root, "out")
        os.mkdir(self.tmp)
        os.mkdir(self.out)

    def close(self):
        shutil.rmtree(self.root, ignore_errors=True)


def run_export(make_doc, method, stub_mode, pre, fault_at=None, fault_cls=Fault, record_sites=False, second_fault_at=None, prelude=None, target_name=None, tmp_other_fs=False):
    """-> dict(result, before, after, ncalls, sites, captured, stub_output, target_rel)

    tmp_other_fs: the temporary directory lives on another file system than the target (/dev/shm; a rename across the two
    fails with EXDEV) - silently ignored where no second writable file system exists.

    prelude(doc, out_dir): earlier operations on the same document object (exports to other files,
    edits), run before the snapshot; what they capture is discarded."""
    box = Box(f"{os.getpid()}")
    old_tmp = tempfile.tempdir
    ext_tmp = None
    if tmp_other_fs and os.path.isdir("/dev/shm") and os.access("/dev/shm", os.W_OK) and os.stat("/dev/shm").st_dev != os.stat(box.root).st_dev:
        ext_tmp = tempfile.mkdtemp(prefix="verif-c18-", dir="/dev/shm")

    def snap():
        s_ = snapshot(box.root)
        if ext_tmp:
            s_.update({os.path.join("tmp", k): v for k, v in snapshot(ext_tmp).items()})
        return s_

    try:
        tempfile.tempdir = ext_tmp or box.tmp
        sub = os.path.join("deep", "er") if pre == "missingdir" else ""
        ext = {"rtf": "rtf", "docx": "docx", "html": "html", "pdf": "pdf"}[method]
        target = os.path.join(box.out, sub, target_name or f"report.{ext}")
        captured = []
        doc = make_doc(captured)
        pre_bytes = None
        if pre == "exists":
            pre_bytes = b"OLD-CONTENT"
        elif pre == "exists_binary":      # an old export in another encoding: not valid UTF-8
            pre_bytes = b"\xff\xfeOLD\x80\x81 r\xe9sum\xe9"
        elif pre in ("exists_same", "exists_same_crlf"):
            # what an equal-valued document encodes to (identical, or the same text with CRLF line ends)
            with contextlib.redirect_stdout(io.StringIO()):
                try:
                    same = make_doc([]).rtf_encode()
                except Exception:  # noqa: BLE001
                    same = "OLD"
            pre_bytes = (same.replace("\n", "\r\n") if pre.endswith("crlf") else same).encode("utf-8")
        if pre_bytes is not None:
            with open(target, "wb") as f:
                f.write(pre_bytes)
        stub = Stub(stub_mode) if stub_mode not in (None, "default") and stub_mode not in REAL_MODES else None
        real = None
        if stub_mode in REAL_MODES:  # the library's own converter class driving a stand-in executable
            from rtflite.convert import LibreOfficeConverter

            real = LibreOfficeConverter(executable_path=fake_soffice(stub_mode))
        if prelude is not None:
            with contextlib.redirect_stdout(io.StringIO()):
                prelude(doc, box.out)
            del captured[:]
        before = snap()
        n = [0]
        sites = []
        prefix = repo.LIB_PREFIX
        fired = []

        def tr(frame, ev, arg):
            if ev == "call":
                co = frame.f_code
                if co.co_filename.startswith(prefix):
                    n[0] += 1
                    if record_sites:
                        sites.append((co.co_filename[len(prefix):], co.co_name, co.co_firstlineno))
                    if n[0] == fault_at or n[0] == second_fault_at:
                        fired.append(n[0])
                        raise fault_cls(f"injected at call #{n[0]} {co.co_name}")
            return None

        res = None
        with contextlib.redirect_stdout(io.StringIO()):
            sys.settrace(tr)
            try:
                if method == "rtf":
                    doc.write_rtf(target)
                elif real is not None:
                    getattr(doc, "write_" + method)(target, converter=real)
                elif stub is None:
                    getattr(doc, "write_" + method)(target)
                else:
                    getattr(doc, "write_" + method)(target, converter=stub)
                res = ("ok",)
            except BaseException as e:  # noqa: BLE001 - the outcome is the observation
                res = ("exc", type(e).__name__, str(e)[:80])
            finally:
                sys.settrace(None)
        after = snap()
        return {"result": res, "tmp_other_fs": bool(ext_tmp), "before": before, "after": after, "ncalls": n[0], "sites": sites, "captured": captured,
                "stub_output": ((b"CONVERTED:" + stub.seen_input) if stub is not None and stub.seen_input is not None else
                                (b"CONVERTED:" + captured[-1].encode("utf-8")) if real is not None and captured else None),
                "target_rel": os.path.relpath(target, box.root), "fired": fired, "pre_bytes": pre_bytes}
    finally:
        tempfile.tempdir = old_tmp
        box.close()
        if ext_tmp:
            shutil.rmtree(ext_tmp, ignore_errors=True)

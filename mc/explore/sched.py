"""E6 - controlled thread scheduler (CHESS-style, preemption bounded).

Real threading.Thread objects, each running one body (an rtf_encode() call).  A per-thread
sys.settrace function fires on `call` events of frames whose code lives under <repo>/src/rtflite/;
at such a point the thread either continues or hands a baton (one semaphore per thread) to another
thread and blocks.  Exactly one thread runs at any time, so a schedule is a finite list of
(thread, point number) -> switch target choices and is replayable.  Default policy: run the current
thread to completion, then the lowest-numbered unfinished thread; a preemption is a switch away
from a runnable thread."""
from __future__ import annotations

import sys
import threading

from ..core import repo


class Deadlock(Exception):
    pass


_MON = {"ready": False, "current": None, "line_funcs": set(), "line_enabled": set()}


def set_line_funcs(funcs):
    """Functions (filename, firstlineno) inside which EVERY LINE is a scheduling point (functions observed to change
    process-global state).  Enabled lazily per code object through sys.monitoring local events."""
    _MON["line_funcs"] = {tuple(f) for f in funcs}


def _mon_setup():
    """Process-wide sys.monitoring hook (PEP 669): PY_START callbacks, permanently disabled for every
    code object outside the library, so that only library function entries cost anything."""
    if _MON["ready"]:
        return True
    mon = getattr(sys, "monitoring", None)
    if mon is None:
        return False
    tool = mon.DEBUGGER_ID
    try:
        mon.use_tool_id(tool, "mc-sched")
    except ValueError:
        return False
    prefix = repo.LIB_PREFIX

    def cb(code, offset):
        if not code.co_filename.startswith(prefix):
            return mon.DISABLE
        if _MON["line_funcs"] and code not in _MON["line_enabled"] and (code.co_filename[len(prefix):], code.co_firstlineno) in _MON["line_funcs"]:
            _MON["line_enabled"].add(code)
            mon.set_local_events(tool, code, mon.events.LINE)
        s = _MON["current"]
        if s is not None:
            s._point(code)
        return None

    def cb_line(code, line):
        s = _MON["current"]
        if s is not None:
            s._point(code, line)
        return None

    mon.register_callback(tool, mon.events.LINE, cb_line)
    mon.register_callback(tool, mon.events.PY_START, cb)
    mon.set_events(tool, mon.events.PY_START)
    _MON["ready"] = True
    return True


class Sched:
    def __init__(self, bodies, plan, watchdog_s: float = 20.0, opcode_in=None, inherit_context: bool = False):
        self.bodies = bodies
        self.n = len(bodies)
        self.sems = [threading.Semaphore(0) for _ in bodies]
        self.done = [False] * self.n
        self.counts = [0] * self.n
        self.results = [None] * self.n
        self.plan = {tuple(k): v for k, v in plan}  # (tid, point) -> switch_to
        self.main = threading.Semaphore(0)
        self.switches = []  # executed preemptions (tid, point, to, function name)
        self.watchdog_s = watchdog_s
        self.prefix = repo.LIB_PREFIX
        self.tids = {}
        self.use_mon = _mon_setup()
        self.on_point = None  # optional observer (tid, point number), called at every scheduling point
        # inherit_context: every thread runs its body inside a COPY of the launching thread's contextvars context
        # (what asyncio.to_thread, copy_context().run and - from Python 3.14 on, optionally - plain threads do)
        self.inherit_context = inherit_context
        self.ctxs = None

    def _point(self, code, line=None):
        """A library function is entered (or, inside a state-changing function, a line is reached) in the calling thread."""
        tid = self.tids.get(threading.get_ident())
        if tid is None or self.done[tid]:
            return
        self.counts[tid] += 1
        if self.on_point is not None:
            self.on_point(tid, self.counts[tid])
        to = self.plan.get((tid, self.counts[tid]))
        if to is not None and not self.done[to] and to != tid:
            self.switches.append((tid, self.counts[tid], to, code.co_name if line is None else f"{code.co_name}:{line}"))
            self.sems[to].release()
            if not self.sems[tid].acquire(timeout=self.watchdog_s):
                raise Deadlock(f"thread {tid} never got the baton back")

    def _tracer(self, tid):
        prefix = self.prefix

        def tr(frame, ev, arg):
            if ev == "call" and frame.f_code.co_filename.startswith(prefix):
                self.counts[tid] += 1
                to = self.plan.get((tid, self.counts[tid]))
                if to is not None and not self.done[to] and to != tid:
                    self.switches.append((tid, self.counts[tid], to, frame.f_code.co_name))
                    self.sems[to].release()
                    if not self.sems[tid].acquire(timeout=self.watchdog_s):
                        raise Deadlock(f"thread {tid} never got the baton back")
            return None

        return tr

    def _worker(self, tid):
        if not self.sems[tid].acquire(timeout=self.watchdog_s * 4):
            self.results[tid] = ("exc", "Deadlock", "never scheduled")
            return
        if self.use_mon:
            self.tids[threading.get_ident()] = tid
        else:
            sys.settrace(self._tracer(tid))
        try:
            body = self.bodies[tid] if self.ctxs is None else (lambda: self.ctxs[tid].run(self.bodies[tid]))
            self.results[tid] = ("ok", body())
        except BaseException as e:  # noqa: BLE001 - the outcome is the observation
            self.results[tid] = ("exc", type(e).__name__, str(e)[:120])
        finally:
            if not self.use_mon:
                sys.settrace(None)
            self.done[tid] = True
            for j in range(self.n):
                if not self.done[j]:
                    self.sems[j].release()
                    break
            else:
                self.main.release()

    def run(self, start=0):
        if self.inherit_context:
            import contextvars

            self.ctxs = [contextvars.copy_context() for _ in range(self.n)]
        ths = [threading.Thread(target=self._worker, args=(i,), daemon=True) for i in range(self.n)]
        _MON["current"] = self if self.use_mon else None
        for t in ths:
            t.start()
        self.sems[start].release()
        ok = self.main.acquire(timeout=self.watchdog_s * 4)
        for t in ths:
            t.join(timeout=1.0)
        _MON["current"] = None
        if not ok:
            raise Deadlock(f"schedule did not finish: done={self.done} counts={self.counts}")
        return self.results, self.counts


def discover_state_changing_functions(body, fingerprint):
    """Run `body` once and return the library functions (filename relative to the library, firstlineno, name) during
    whose OWN execution the process-global state fingerprint changed (innermost frames only: a caller is charged only
    for changes that did not happen inside one of its library callees)."""
    mon = sys.monitoring
    tool = mon.PROFILER_ID
    mon.use_tool_id(tool, "mc-discover")
    prefix = repo.LIB_PREFIX
    stack = []  # [code, fingerprint at entry or after the last callee returned, changed?]
    found = {}

    def start(code, offset):
        if not code.co_filename.startswith(prefix):
            return mon.DISABLE
        fp = fingerprint()
        if stack and stack[-1][1] != fp:
            stack[-1][2] = True  # the caller changed state before making this call
        stack.append([code, fp, False])

    def ret(code, offset, retval=None):
        if not code.co_filename.startswith(prefix):
            return mon.DISABLE
        # generators yield without returning: unwind to the frame of this code object
        idx = next((i for i in range(len(stack) - 1, -1, -1) if stack[i][0] is code), None)
        if idx is None:
            return
        del stack[idx + 1:]
        c, fp0, changed = stack.pop()
        fp = fingerprint()
        if changed or fp != fp0:
            found[(code.co_filename[len(prefix):], code.co_firstlineno)] = code.co_qualname
        if stack:
            stack[-1][1] = fp  # changes made by the callee are not charged to the caller

    mon.register_callback(tool, mon.events.PY_START, start)
    mon.register_callback(tool, mon.events.PY_RETURN, ret)
    def unwind(code, offset, exc):  # PY_UNWIND cannot be disabled per location
        if code.co_filename.startswith(prefix):
            ret(code, offset)
        return None

    mon.register_callback(tool, mon.events.PY_UNWIND, unwind)
    mon.set_events(tool, mon.events.PY_START | mon.events.PY_RETURN | mon.events.PY_UNWIND)
    try:
        try:
            body()
        except Exception:  # noqa: BLE001 - a failing encode is a legitimate body
            pass
    finally:
        mon.set_events(tool, 0)
        mon.free_tool_id(tool)
    return sorted((f, l, q) for (f, l), q in found.items())

"""Runner shared by all checks: parallel exhaustive evaluation of case layers,
violation triage against known_findings.json, replay files, evidence writing.

A check module (mc/props/cNN.py) provides

    PID, LEVEL, TECHNIQUE
    eval_case(case: dict) -> dict        (runs in a worker process, real rtflite code)
    plan(run: Run) -> None               (enumerates layers and calls run.layer(...))

eval_case returns a dict with optional keys
    viol : list of {"klass": str|None, "detail": str, "sig": str}
    nt   : bool   - the case is non-trivial by the check's rule
    key  : str    - identity for distinctness (default: canonical JSON of the case)
    cnt  : {name: int} counter increments (vacuity guards, boundary counters)
    states, transitions : ints added to the run's totals (model_checking level)
    sample : anything JSON-able, shown in the evidence
"""
from __future__ import annotations

import hashlib
import importlib
import io
import json
import multiprocessing as mp
import os
import subprocess
import sys
import threading
import time
import traceback
from collections import Counter, OrderedDict

from . import repo

VERIF = repo.VERIF
SCHEMA = "/root/.vp/EVIDENCE.schema.json"


def cjson(o) -> str:
    return json.dumps(o, sort_keys=True, separators=(",", ":"), default=str)


# --------------------------------------------------------------------------- workers

_FN_CACHE: dict = {}


def _resolve(qual: str):
    fn = _FN_CACHE.get(qual)
    if fn is None:
        mod, name = qual.split(":")
        fn = getattr(importlib.import_module(mod), name)
        _FN_CACHE[qual] = fn
    return fn


def _worker_init():
    repo.bind()
    # rtflite prints from write_rtf and from a swallowed-exception path
    sys.stdout = io.StringIO()


def _run_chunk(arg):
    qual, cases = arg
    fn = _resolve(qual)
    out = []
    for case in cases:
        if isinstance(sys.stdout, io.StringIO):
            sys.stdout.seek(0)
            sys.stdout.truncate()
        try:
            r = fn(case) or {}
        except BaseException as e:  # harness bug, not a finding
            r = {"harness_error": f"{type(e).__name__}: {e}\n{traceback.format_exc()[-1500:]}"}
        r["_case"] = case
        out.append(r)
    return out


def _chunks(it, size):
    buf = []
    for x in it:
        buf.append(x)
        if len(buf) >= size:
            yield buf
            buf = []
    if buf:
        yield buf


# --------------------------------------------------------------------------- known findings


def load_known():
    path = os.path.join(VERIF, "known_findings.json")
    if not os.path.exists(path):
        return []
    with open(path) as f:
        return json.load(f).get("findings", [])


# --------------------------------------------------------------------------- run object


class HarnessError(Exception):
    pass


class Run:
    def __init__(self, pid: str, level: str, tier: str, seed: int, workers: int | None = None,
                 budget_s: float | None = None, technique: str = ""):
        self.pid, self.level, self.tier, self.seed = pid, level, tier, seed
        self.technique = technique
        self.workers = workers or int(os.environ.get("VERIF_WORKERS", "0")) or min(16, os.cpu_count() or 4)
        self.t0 = time.time()
        default_budget = 600 if tier == "quick" else 3600
        self.budget_s = budget_s or float(os.environ.get("VERIF_BUDGET_S", default_budget))
        self.evaluations = 0
        self.nontrivial_keys: set = set()
        self.nt_batched = 0  # distinct non-trivial cases counted inside batched work units ("nt_n")
        self.cnt: Counter = Counter()
        self.states = 0
        self.transitions = 0
        self.samples: list = []
        self.layers: list = []
        self.viol: "OrderedDict[str, dict]" = OrderedDict()  # sig -> first violation (+count)
        self.known_seen: "OrderedDict[str, dict]" = OrderedDict()
        self.harness_errors: list = []
        self.assumptions: list = []
        self.extra: dict = {}
        self.rule = ""
        self._pool = None
        self.known = [k for k in load_known() if k.get("property") == pid and k.get("status") == "open"]
        self.known_keys = {k["key"]: k for k in self.known}

    # -- pool
    def pool(self):
        if self._pool is None:
            ctx = mp.get_context("spawn")
            self._pool = ctx.Pool(self.workers, initializer=_worker_init)
        return self._pool

    def close(self):
        """Abandon the pool.  Pool.terminate() can block for ever when the task feeder still holds a full pipe (seen once in
        about 250 early-stopped runs), so it runs under a watchdog and the workers are killed directly if it does not return."""
        p, self._pool = self._pool, None
        if p is None:
            return
        procs = list(getattr(p, "_pool", None) or [])

        def _stop():
            p.terminate()
            p.join()

        t = threading.Thread(target=_stop, daemon=True)
        t.start()
        t.join(30)
        if t.is_alive():
            for w in procs:
                try:
                    w.kill()
                except Exception:  # noqa: BLE001
                    pass

    def time_left(self):
        return self.budget_s - (time.time() - self.t0)

    # -- evaluation of one layer
    def layer(self, name: str, qual: str, cases, chunk: int = 40, total: int | None = None,
              inline: bool = False, max_samples: int = 2, on_result=None):
        """Evaluate every case of an (iterable) layer; returns True when completed."""
        n_done = 0
        complete = True
        t_layer = time.time()
        nsamp = 0
        # VERIF_STOP_ON_VIOLATION=1 (used by tools/recheck_seeded.py only): once an unlisted violation has been found the answer
        # of a regression run is known; the remaining cases are skipped and the run is reported as not exhaustive
        stop_early = bool(os.environ.get("VERIF_STOP_ON_VIOLATION"))
        if stop_early and self.viol:
            self.layers.append({"layer": name, "cases": 0, "planned": total, "completed": False, "wall_s": 0.0})
            return False
        it = _chunks(cases, chunk)
        if inline or self.workers == 1:
            _worker_init_inline()
            results = (_run_chunk((qual, c)) for c in it)
        else:
            results = self.pool().imap_unordered(_run_chunk, ((qual, c) for c in it))
        for res in results:
            for r in res:
                n_done += 1
                self._absorb(r, name)
                if on_result is not None:
                    on_result(r)
                if r.get("sample") is not None and nsamp < max_samples:
                    self.samples.append({"layer": name, **({"case": r["_case"]} if not isinstance(r["sample"], dict) or "case" not in r["sample"] else {}), "observed": r["sample"]})
                    nsamp += 1
            if self.time_left() < 0 or (stop_early and self.viol):
                complete = total is not None and n_done >= total
                if not complete:
                    break
        if not complete and self._pool is not None:
            # abandon the queued work of this layer
            self.close()
        self.layers.append({"layer": name, "cases": n_done, "planned": total, "completed": complete,
                            "wall_s": round(time.time() - t_layer, 2)})
        return complete

    def _absorb(self, r: dict, layer: str):
        self.evaluations += int(r.get("evals", 1))
        if "harness_error" in r:
            self.harness_errors.append({"layer": layer, "case": r["_case"], "error": r["harness_error"]})
            return
        if "nt_n" in r:
            self.nt_batched += int(r["nt_n"])
        elif r.get("nt"):
            self.nontrivial_keys.add(r.get("key") or hashlib.md5(cjson(r["_case"]).encode()).hexdigest())
        for k, v in (r.get("cnt") or {}).items():
            self.cnt[k] += v
        self.states += r.get("states", 0)
        self.transitions += r.get("transitions", 0)
        for v in r.get("viol") or []:
            self.add_violation(v.get("klass"), v.get("detail", ""), r["_case"], v.get("sig"), layer)

    def add_violation(self, klass, detail, case, sig=None, layer=""):
        # a violation completely explained by several listed mechanisms carries "a+b"
        parts = klass.split("+") if klass else []
        if parts and all(p in self.known_keys for p in parts):
            for p in parts:
                e = self.known_seen.setdefault(p, {"count": 0, "example": case, "detail": detail})
                e["count"] += 1
            return
        sig = sig or klass or hashlib.md5(detail.encode()).hexdigest()[:10]
        e = self.viol.get(sig)
        if e is None:
            self.viol[sig] = {"klass": klass, "detail": detail, "case": case, "count": 1, "layer": layer}
        else:
            e["count"] += 1
            # keep the smallest case as the representative
            if len(cjson(case)) < len(cjson(e["case"])):
                e["case"], e["detail"] = case, detail

    # -- finishing
    def finish(self) -> int:
        self.close()
        wall = time.time() - self.t0
        exhaustive = all(l["completed"] for l in self.layers) and bool(self.layers)
        rc = 0
        lines = []
        for key, e in self.known_seen.items():
            what = self.known_keys[key].get("what", "")
            lines.append(f"KNOWN-FINDING: property={self.pid} {key}: {what} [{e['count']} case(s) this run]")
        nviol = 0
        if self.viol:
            rc = 1
            rdir = os.path.join(os.environ.get("VERIF_REPLAY_DIR") or os.path.join(VERIF, "replays"), self.pid)
            os.makedirs(rdir, exist_ok=True)
            ordered = sorted(self.viol.items(), key=lambda kv: len(cjson(kv[1]["case"])))
            for sig, e in ordered[:20]:
                h = hashlib.md5((sig + cjson(e["case"])).encode()).hexdigest()[:12]
                path = os.path.join(rdir, f"{h}.json")
                with open(path, "w") as f:
                    json.dump({"property": self.pid, "klass": e["klass"], "sig": sig, "detail": e["detail"],
                               "case": e["case"], "count_in_run": e["count"], "tier": self.tier, "seed": self.seed,
                               "replay": f"/venv/bin/python -m mc {self.pid} --replay {path}"}, f, indent=1, default=str)
                lines.append(f"VIOLATION property={self.pid} replay={path}")
                lines.append(f"  # {e['klass'] or 'unclassified'} x{e['count']}: {e['detail'][:300]}")
            nviol = sum(e["count"] for e in self.viol.values())
        if self.harness_errors:
            # a VIOLATION that was found stays exit 1 (the counterexample is real); a harness error alone is exit 2
            rc = 2 if rc == 0 else rc
            for he in self.harness_errors[:5]:
                lines.append(f"HARNESS-ERROR property={self.pid} layer={he['layer']} case={cjson(he['case'])[:300]}\n{he['error']}")
        cov = {
            "evaluations": self.evaluations,
            "distinct_nontrivial": len(self.nontrivial_keys) + self.nt_batched,
            "rule": self.rule,
            "samples": self.samples[:8] or [{"note": "no sample recorded"}],
            "exhaustive": exhaustive,
            "layers": self.layers,
            "counters": dict(self.cnt),
            "technique": self.technique,
            "known_findings_seen": {k: v["count"] for k, v in self.known_seen.items()},
            "violation_classes": len(self.viol),
            "repo": repo.REPO,
            "workers": self.workers,
        }
        if self.level == "model_checking":
            cov["states"] = max(self.states, 0)
            cov["transitions"] = max(self.transitions, 0)
            cov["traces_validated_against_impl"] = self.extra.pop("traces_validated_against_impl", self.evaluations)
        cov.update(self.extra)
        ev = {
            "property_id": self.pid, "tier": self.tier, "seed": self.seed, "level": self.level,
            "coverage": cov, "assumptions": self.assumptions, "wall_s": round(wall, 2),
            "violations": nviol + len(self.harness_errors),
        }
        # mutant / scratch runs (VERIF_EVIDENCE_DIR set) must not overwrite the committed evidence
        epath = os.path.join(os.environ.get("VERIF_EVIDENCE_DIR") or os.path.join(VERIF, "evidence"), f"{self.pid}.json")
        os.makedirs(os.path.dirname(epath), exist_ok=True)
        with open(epath, "w") as f:
            json.dump(ev, f, indent=1, default=str)
        ok, msg = validate_evidence(epath)
        if not ok:
            lines.append(f"HARNESS-ERROR evidence does not validate: {msg}")
            rc = 2 if rc == 0 else rc
        lines.append(
            f"[{self.pid}] tier={self.tier} seed={self.seed} evaluations={self.evaluations} "
            f"nontrivial={len(self.nontrivial_keys) + self.nt_batched} exhaustive={exhaustive} "
            + (f"states={self.states} transitions={self.transitions} " if self.level == "model_checking" else "")
            + f"violation_classes={len(self.viol)} known_seen={len(self.known_seen)} wall={wall:.1f}s rc={rc}")
        sys.__stdout__.write("\n".join(lines) + "\n")
        sys.__stdout__.flush()
        return rc


_INLINE_READY = False


def _worker_init_inline():
    global _INLINE_READY
    if not _INLINE_READY:
        repo.bind()
        _INLINE_READY = True


def validate_evidence(path):
    if not os.path.exists(SCHEMA):
        return True, "schema not present"
    code = (
        "import json,sys,jsonschema;"
        f"s=json.load(open({SCHEMA!r}));d=json.load(open({path!r}));"
        "jsonschema.validate(d,s)"
    )
    for py in ("python3-vt", "/opt/veriftools/pyvenv/bin/python"):
        try:
            p = subprocess.run([py, "-c", code], capture_output=True, text=True, timeout=60)
        except (FileNotFoundError, subprocess.TimeoutExpired):
            continue
        if p.returncode == 0:
            return True, ""
        if "No module named" in p.stderr:
            continue
        return False, p.stderr.strip().splitlines()[-1] if p.stderr.strip() else "validation failed"
    return True, "no validator available"

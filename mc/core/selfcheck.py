"""Fast self-test of the trusted base, run at the start of every check (a failure is a
harness error, exit 2, never a VIOLATION).  The full self-tests live in /verif/selftest."""
from ..rtfreader.reader import parse


def fast():
    good = (b"{\\rtf1\\ansi\\deff0{\\fonttbl{\\f0\\froman Times;}}{\\colortbl;\\red255\\green0\\blue0;}\n"
            b"\\paperw12240\\paperh15840\n{\\pard\\qc\\fs24{\\f0 T0}\\line\\fs24{\\f0 x\\super 2}\\par}\n"
            b"\\trowd\\trgaph108\\trleft0\\trqc\\clbrdrl\\brdrs\\brdrw15\\clbrdrt\\brdrdb\\brdrw15\\clvertalt\\cellx4500"
            b"\\clbrdrr\\brdrs\\brdrw15\\cellx9000\\pard\\ql\\fs18{\\f0\\cf1 D0.0}\\cell\\pard{\\f0 \\uc1\\u945*\\'e9}\\cell\\intbl\\row\\pard\n"
            b"{\\pard\\fs2\\par}\\page{\\pard\\fs2\\par}\n\\paperw12240{\\pict\\pngblip\\picw1\\pich2 0a0b\n0c}\\par }")
    d = parse(good)
    assert d.errors == [], d.errors
    assert len(d.pages) == 2 and d.colortbl == [None, (255, 0, 0)] and d.fonttbl == {0: "Times"}
    row = [b for b in d.pages[0].blocks if b.kind == "row"][0]
    assert row.cellx == [4500, 9000] and row.texts == ["D0.0", "αé"], (row.cellx, row.texts)
    assert row.cells[0].borders["t"] == ("brdrdb", 15, None) and row.cells[0].events[0][2]["cf"] == 1
    assert row.cells[0].events[0][2]["f"] == 0
    pic = [b for b in d.pages[1].blocks if b.kind == "pict"][0]
    assert pic.data == b"\x0a\x0b\x0c" and pic.blip == "pngblip" and pic.props["picw"] == 1
    title = d.pages[0].blocks[0]
    assert title.text == "T0\nx2" and title.events[-1][2].get("super") is True
    bad = {
        b"{\\rtf1 {a}": "unbalanced-open", b"{\\rtf1 a} b": "content-after-final-brace",
        b"{\\rtf1 \\u70000*}": "u-escape-out-of-range", b"{\\rtf1 \\u945}": "u-escape-missing-fallback",
        b"{\\rtf1 \\trowd\\cellx5\\cellx9 a\\cell\\row}": "row-cellx-cell-count-mismatch",
        b"{\\rtf1 \\trowd\\cellx9\\cellx5 a\\cell b\\cell\\row}": "row-decreasing-boundary",
        b"{\\rtf1 \\'zz}": "lex-bad-hex-escape", b"x{\\rtf1 }": "missing-rtf-signature",
        b"{\\rtf1 \\trowd\\cellx0 a\\cell\\row}": "row-nonpositive-boundary",
    }
    for src, code in bad.items():
        errs = [e[0] for e in parse(src).errors]
        assert code in errs, (src, code, errs)

"""Binding of the checks to the repository under test.

Checks import rtflite from ``${VERIF_REPO:-/repo}/src`` (placed first on sys.path), so
a check can be aimed at a scratch copy (mutant runs) without touching /repo.  There is
no build step: "rebuild from the working tree" is a fresh import in a fresh process.
"""
import os
import sys

REPO = os.path.realpath(os.environ.get("VERIF_REPO", "/repo"))
SRC = os.path.join(REPO, "src")
LIB_PREFIX = os.path.join(SRC, "rtflite") + os.sep
VERIF = os.path.dirname(os.path.dirname(os.path.dirname(os.path.abspath(__file__))))


def bind():
    if sys.path[0] != SRC:
        sys.path.insert(0, SRC)
    import rtflite  # noqa: F401

    got = os.path.realpath(os.path.dirname(rtflite.__file__))
    want = os.path.realpath(os.path.join(SRC, "rtflite"))
    if got != want:
        raise RuntimeError(f"rtflite imported from {got}, expected {want}")
    return rtflite

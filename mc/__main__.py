"""python -m mc <ID> [--tier quick|thorough] [--seed N] [--replay FILE] [--workers N]"""
import argparse
import importlib
import json
import os
import sys


def main(argv=None):
    ap = argparse.ArgumentParser(prog="mc")
    ap.add_argument("pid")
    ap.add_argument("--tier", default=os.environ.get("VERIF_TIER", "quick"), choices=["quick", "thorough"])
    ap.add_argument("--seed", type=int, default=int(os.environ.get("VERIF_SEED", "0") or 0))
    ap.add_argument("--replay")
    ap.add_argument("--workers", type=int, default=None)
    ap.add_argument("--budget", type=float, default=None)
    a = ap.parse_args(argv)

    # children (spawned workers, baseline subprocesses) get a fixed hash seed
    os.environ["PYTHONHASHSEED"] = str(a.seed % 4294967295)
    # one polars thread per process: the frames are tiny, the 16 worker processes already use every core, and a thread pool
    # per worker only oversubscribes the machine (measured: the same check takes twice as long without this)
    os.environ.setdefault("POLARS_MAX_THREADS", "1")
    here = os.path.dirname(os.path.dirname(os.path.abspath(__file__)))
    os.chdir(here)
    if here not in sys.path:
        sys.path.insert(0, here)

    from mc.core import engine, repo, selfcheck

    pid = a.pid.upper()
    try:
        repo.bind()
        selfcheck.fast()
        mod = importlib.import_module(f"mc.props.{pid.lower()}")
    except Exception as e:  # harness broken: never exit 1
        print(f"HARNESS-ERROR property={pid} {type(e).__name__}: {e}")
        return 2

    if a.replay:
        with open(a.replay) as f:
            rec = json.load(f)
        case = rec.get("case", rec)
        engine._worker_init_inline()
        r = mod.eval_case(case)
        viol = (r or {}).get("viol") or []
        print(json.dumps({"case": case, "violations": viol, "sample": (r or {}).get("sample")}, indent=1, default=str))
        if viol:
            print(f"VIOLATION property={pid} replay={os.path.abspath(a.replay)}")
            return 1
        return 0

    run = engine.Run(pid, mod.LEVEL, a.tier, a.seed, workers=a.workers, budget_s=a.budget,
                     technique=getattr(mod, "TECHNIQUE", ""))
    try:
        mod.plan(run)
    except engine.HarnessError as e:
        run.harness_errors.append({"layer": "plan", "case": None, "error": str(e)})
    except Exception as e:
        import traceback

        run.harness_errors.append({"layer": "plan", "case": None, "error": traceback.format_exc()[-2000:]})
    return run.finish()


if __name__ == "__main__":
    sys.exit(main())

"""Independent, strict RTF reader (the observation function of every check).

Reads *bytes*, never rtflite internals.  One pass: lexer -> group/state machine ->
document model (pages -> blocks).  All violations of RTF well-formedness are
collected in ``Doc.errors`` (code, byte offset, detail) instead of raising, so a
check can both demand ``errors == []`` (C01) and still inspect a damaged document.

The model is deliberately small:

  Doc.pages[i].blocks  : list of Para | Row | Picture (in stream order)
  Doc.pages[i].geometry: list of (control word, value) page-geometry events seen on
                         that page (paperw/paperh/marg*/headery/footery/landscape)
  Para.events / Cell.events: ('t', text, cprops) | ('line',) | ('cw', name, param)
                         | ('sym', ch) | ('field', instruction)
  Row.cells[j].cellx / .borders[side] = (style|None, width|None, colour index|None)
"""
from __future__ import annotations

import re
from dataclasses import dataclass, field

# --------------------------------------------------------------------------- lexer

_CW = re.compile(rb"\\([a-zA-Z]+)(-?[0-9]+)? ?")
_HEXD = b"0123456789abcdefABCDEF"


def tokenize(b: bytes, errors: list):
    """Yield (kind, a, p, offset).  kind in cw, hex, sym, open, close, txt."""
    pos, n = 0, len(b)
    out = []
    while pos < n:
        c = b[pos]
        if c == 0x7B:
            out.append(("open", None, None, pos))
            pos += 1
        elif c == 0x7D:
            out.append(("close", None, None, pos))
            pos += 1
        elif c == 0x5C:
            if pos + 1 >= n:
                errors.append(("lex-dangling-backslash", pos, ""))
                pos += 1
                continue
            d = b[pos + 1]
            if (65 <= d <= 90) or (97 <= d <= 122):
                m = _CW.match(b, pos)
                name = m.group(1)
                if len(name) > 32:
                    errors.append(("lex-control-word-too-long", pos, name[:40].decode("latin1")))
                par = m.group(2)
                if par is not None and len(par.lstrip(b"-")) > 10:
                    errors.append(("lex-parameter-too-long", pos, par[:20].decode("latin1")))
                out.append(("cw", name.decode("ascii"), int(par) if par is not None else None, pos))
                pos = m.end()
            elif d == 0x27:
                hx = b[pos + 2 : pos + 4]
                if len(hx) == 2 and hx[0] in _HEXD and hx[1] in _HEXD:
                    out.append(("hex", int(hx, 16), None, pos))
                    pos += 4
                else:
                    errors.append(("lex-bad-hex-escape", pos, b[pos : pos + 4].decode("latin1")))
                    pos += 2
            elif d in (0x0A, 0x0D):
                out.append(("cw", "par", None, pos))
                pos += 2
            else:
                if d >= 0x80:
                    errors.append(("lex-control-symbol-high-byte", pos, hex(d)))
                out.append(("sym", chr(d), None, pos))
                pos += 2
        else:
            q = pos
            while q < n and b[q] not in (0x7B, 0x7D, 0x5C):
                q += 1
            out.append(("txt", b[pos:q], None, pos))
            pos = q
    return out


# --------------------------------------------------------------------------- model

BORDER_STYLE_WORDS = {
    "brdrs", "brdrdb", "brdrth", "brdrdot", "brdrdash", "brdrdashsm", "brdrdashd",
    "brdrdashdd", "brdrtriple", "brdrwavy", "brdrwavydb", "brdrengrave", "brdremboss",
    "brdrframe", "brdrhair", "brdrsh", "brdrnone", "brdrinset", "brdroutset", "brdrtnthsg",
    "brdrthtnsg", "brdrtnthtnsg", "brdrtnthmg", "brdrthtnmg", "brdrtnthtnmg", "brdrtnthlg",
    "brdrthtnlg", "brdrtnthtnlg", "brdrdashdotstr", "brdrnil", "brdrtbl",
}
GEOM_WORDS = ("paperw", "paperh", "margl", "margr", "margt", "margb", "headery", "footery", "landscape")
CHAR_TOGGLES = ("b", "i", "ul", "strike", "super", "sub")


@dataclass
class Para:
    events: list
    ppr: dict
    kind: str = "para"
    ctbl: int = 0  # number of \colortbl destinations completed before this block (0 = none in force)

    @property
    def text(self) -> str:
        return events_text(self.events)


@dataclass
class Cell:
    events: list
    ppr: dict
    cellx: int | None = None
    borders: dict = field(default_factory=dict)  # side -> (style, width, cf)
    vertal: str | None = None
    extra: dict = field(default_factory=dict)
    # character properties of run groups that set properties but enclose no text, e.g. {\f0\cf1\b }
    # (how the formatting of an EMPTY cell is observable); additive, used by C09
    empty_runs: list = field(default_factory=list)

    @property
    def text(self) -> str:
        return events_text(self.events)


@dataclass
class Row:
    cells: list
    trpr: dict
    ncellx: int = 0
    ncell: int = 0
    kind: str = "row"
    ctbl: int = 0

    @property
    def cellx(self):
        return [c.cellx for c in self.cells]

    @property
    def texts(self):
        return [c.text for c in self.cells]


@dataclass
class Picture:
    blip: str | None
    props: dict
    data: bytes
    ppr: dict
    hex_ok: bool = True
    kind: str = "pict"
    ctbl: int = 0


@dataclass
class Page:
    blocks: list = field(default_factory=list)
    geometry: list = field(default_factory=list)
    break_offset: int | None = None


@dataclass
class Doc:
    pages: list
    fonttbl: dict
    colortbl: list | None
    colortbl_count: int
    headers: list
    footers: list
    errors: list
    ansicpg: int | None
    charset: str | None
    doc_words: list
    # additive (C17): every colour table of the stream in order, and where the \colortbl / \header /
    # \footer destinations occurred: (name, page index, body blocks already on that page, byte offset)
    colortbls: list = field(default_factory=list)
    dests: list = field(default_factory=list)

    def rows(self):
        return [b for pg in self.pages for b in pg.blocks if b.kind == "row"]

    def ok(self):
        return not self.errors


def events_text(events) -> str:
    out = []
    for e in events:
        if e[0] == "t":
            out.append(e[1])
        elif e[0] == "line":
            out.append("\n")
    return "".join(out)


def events_plain(events):
    """Events without character properties, adjacent texts merged:
    ('t', text, super, sub) | ('line',) | ('cw', name, param) | ('sym', c) | ('field', s)."""
    out = []
    for e in events:
        if e[0] == "t":
            sup, sub = bool(e[2].get("super")), bool(e[2].get("sub"))
            if out and out[-1][0] == "t" and out[-1][2] == sup and out[-1][3] == sub:
                out[-1] = ("t", out[-1][1] + e[1], sup, sub)
            else:
                out.append(("t", e[1], sup, sub))
        else:
            out.append(tuple(e))
    return out


_CP = {None: "cp1252", 1252: "cp1252", 1250: "cp1250", 1251: "cp1251", 1253: "cp1253",
       1254: "cp1254", 437: "cp437", 850: "cp850", 65001: "utf-8"}


def _decode_bytes(bs: bytes, codec: str, errors: list, off: int) -> str:
    if all(c < 0x80 for c in bs):
        return bs.decode("ascii")
    out = []
    for c in bs:
        if c < 0x80:
            out.append(chr(c))
        else:
            try:
                out.append(bytes([c]).decode(codec))
            except UnicodeDecodeError:
                errors.append(("byte-undefined-in-code-page", off, hex(c)))
                out.append("�")
    return "".join(out)


# --------------------------------------------------------------------------- parser

_DEST_SKIP = {"info", "stylesheet", "generator", "listtable", "listoverridetable", "themedata",
              "colorschememapping", "datastore", "latentstyles", "rsidtbl", "xmlnstbl", "mmathPr",
              "pgdsctbl", "fldrslt"}


def parse(data, strict_tail: bool = True) -> Doc:
    if isinstance(data, str):
        data = data.encode("utf-8")
    errors: list = []
    toks = tokenize(data, errors)

    pages = [Page()]
    headers: list = []
    footers: list = []
    fonttbl: dict = {}
    colortbl = None
    colortbl_count = 0
    colortbls: list = []  # every colour table seen, in stream order
    dests: list = []  # (name, page index, body blocks on that page so far, offset)
    doc_words: list = []
    ansicpg = None
    charset = None

    # state
    cp = {"f": None, "fs": None, "cf": None, "cb": None, "chcbpat": None, "uc": 1}
    for t in CHAR_TOGGLES:
        cp[t] = False
    pp: dict = {}
    dest = None  # current destination name or None (= body)
    stack = []  # (cp, dest, dest_depth, sink, sink_kind, font_cur) per open group
    depth = 0
    dest_depth = 0  # depth of the group that introduced the current destination
    saved_events: dict = {}  # depth -> body paragraph content suspended by \header/\footer
    closed = False

    sink = pages[-1].blocks  # where completed blocks go
    sink_kind = "body"
    events: list = []  # current paragraph / cell content
    # row state
    in_rowdef = False
    row_cells: list = []  # completed Cell contents
    celldefs: list = []  # completed cell definitions
    curdef = {"borders": {}, "vertal": None, "extra": {}}
    curside = None
    trpr: dict = {}
    # destinations
    font_cur = None
    color_cur = [None, None, None]
    color_entries: list = []
    pict = None
    fld_text: list = []
    skip = 0  # pending \u fallback characters
    skip_off = 0
    seen_sig = False
    codec = "cp1252"

    def cprops():
        return {k: v for k, v in cp.items() if k != "uc" and v is not None and v is not False}

    ntext = [0]          # number of add_text calls + paragraph/cell ends so far (to recognise run groups without content)
    marks: list = []     # ntext at every open group
    empty_runs: list = []  # cprops of text-less run groups of the running paragraph / cell

    def add_text(s: str):
        if not s:
            return
        ntext[0] += 1
        props = cprops()
        if events and events[-1][0] == "t" and events[-1][2] == props:
            events[-1] = ("t", events[-1][1] + s, props)
        else:
            events.append(("t", s, props))

    def flush_para(implicit=False):
        nonlocal events
        if implicit and not events:
            return
        sink.append(Para(events, dict(pp), ctbl=len(colortbls)))
        events = []

    i, n = 0, len(toks)
    while i < n:
        kind, a, p, off = toks[i]
        i += 1
        if closed:
            if kind == "txt" and not a.strip(b"\r\n" if strict_tail else b"\r\n \t\x00"):
                continue
            errors.append(("content-after-final-brace", off, repr(data[off : off + 20])))
            break
        if not seen_sig:
            # the document must start with {\rtf1
            if not (kind == "open" and i < n and toks[i][0] == "cw" and toks[i][1] == "rtf" and toks[i][2] == 1):
                errors.append(("missing-rtf-signature", off, repr(data[:12])))
            seen_sig = True
        # ---- \u fallback skipping
        if skip:
            if kind in ("open", "close"):
                errors.append(("u-escape-missing-fallback", skip_off, f"{skip} fallback character(s) missing"))
                skip = 0
            elif kind == "txt":
                raw = a.replace(b"\r", b"").replace(b"\n", b"")
                if not raw:
                    continue
                take = min(skip, len(raw))
                skip -= take
                rest = raw[take:]
                if rest:
                    toks[i - 1] = ("txt", rest, None, off + take)
                    i -= 1
                continue
            elif kind == "hex":
                skip -= 1
                continue
            elif kind == "sym":
                skip -= 1
                continue
            else:  # control word consumed as fallback: it would be swallowed by a reader
                if a == "u" or a == "uc":
                    errors.append(("u-escape-missing-fallback", skip_off, f"followed by \\{a}"))
                    skip = 0
                else:
                    errors.append(("u-escape-fallback-is-control-word", skip_off, a))
                    skip -= 1
                    continue
        # ---- groups
        if kind == "open":
            stack.append((dict(cp), dest, dest_depth, sink, sink_kind, font_cur))
            marks.append(ntext[0])
            depth += 1
            continue
        if kind == "close":
            if depth == 0:
                errors.append(("unbalanced-close", off, ""))
                continue
            prev_cp, prev_dest, prev_dest_depth, prev_sink, prev_sink_kind, prev_font = stack.pop()
            mark = marks.pop() if marks else ntext[0]
            if dest is None and mark == ntext[0] and cp != prev_cp:
                empty_runs.append(cprops())
            if dest is not None and depth == dest_depth:
                # leaving the group that introduced the current destination
                if dest == "pict" and pict is not None:
                    hx = bytes(c for c in pict["hex"] if c not in b" \r\n\t")
                    ok = len(hx) % 2 == 0 and all(c in _HEXD for c in hx)
                    if not ok:
                        errors.append(("pict-bad-hex", off, f"len={len(hx)}"))
                        payload = b""
                    else:
                        payload = bytes.fromhex(hx.decode("ascii"))
                    prev_sink.append(Picture(pict["blip"], pict["props"], payload, dict(pp), ok, ctbl=len(colortbls)))
                    pict = None
                elif dest == "colortbl":
                    if any(v is not None for v in color_cur):
                        errors.append(("colortbl-unterminated-entry", off, ""))
                    colortbl = color_entries
                    colortbl_count += 1
                    colortbls.append(color_entries)
                elif dest == "fldinst":
                    events.append(("field", "".join(fld_text).strip()))
                    fld_text = []
                elif dest in ("header", "footer"):
                    flush_para(implicit=True)
                    events = saved_events.pop(depth, [])
            depth -= 1
            cp, dest, dest_depth, sink, sink_kind, font_cur = (
                prev_cp, prev_dest, prev_dest_depth, prev_sink, prev_sink_kind, prev_font)
            if depth == 0:
                closed = True
            continue
        # ---- destinations that swallow content
        if dest == "skip":
            continue
        if dest == "fonttbl":
            if kind == "cw":
                if a == "f":
                    font_cur = p
                    fonttbl.setdefault(p, "")
                # other words (froman, fcharset, fprq) ignored
            elif kind == "txt" and font_cur is not None:
                s = a.replace(b"\r", b"").replace(b"\n", b"").decode("latin1")
                fonttbl[font_cur] = fonttbl.get(font_cur, "") + s
            continue
        if dest == "colortbl":
            if kind == "cw":
                if a in ("red", "green", "blue"):
                    color_cur[("red", "green", "blue").index(a)] = p
            elif kind == "txt":
                for ch in a.decode("latin1"):
                    if ch == ";":
                        color_entries.append(None if all(v is None for v in color_cur) else tuple(v or 0 for v in color_cur))
                        color_cur = [None, None, None]
                    elif ch not in "\r\n \t":
                        errors.append(("colortbl-stray-text", off, ch))
            continue
        if dest == "pict":
            if kind == "cw":
                if a.endswith("blip") or a in ("wmetafile", "macpict", "dibitmap", "wbitmap", "pmmetafile"):
                    pict["blip"] = a
                else:
                    pict["props"][a] = p
            elif kind == "txt":
                pict["hex"] += a
            continue
        if dest == "fldinst":
            if kind == "txt":
                fld_text.append(a.decode("latin1"))
            continue
        # ---- body / header / footer content
        if kind == "cw":
            if a == "u":
                if p is None or not (-32768 <= p <= 32767):
                    errors.append(("u-escape-out-of-range", off, str(p)))
                    ch = "�"
                else:
                    v = p + 65536 if p < 0 else p
                    ch = chr(v)
                    # combine surrogate pair
                    if 0xDC00 <= v <= 0xDFFF and events and events[-1][0] == "t" and events[-1][1] and 0xD800 <= ord(events[-1][1][-1]) <= 0xDBFF and events[-1][2] == cprops():
                        hi = ord(events[-1][1][-1])
                        comb = chr(0x10000 + ((hi - 0xD800) << 10) + (v - 0xDC00))
                        events[-1] = ("t", events[-1][1][:-1] + comb, events[-1][2])
                        ch = ""
                add_text(ch)
                skip = cp["uc"]
                skip_off = off
                continue
            if a == "uc":
                cp["uc"] = p if p is not None else 1
                continue
            if a == "rtf":
                continue
            if a in ("ansi", "mac", "pc", "pca"):
                charset = a
                continue
            if a == "ansicpg":
                ansicpg = p
                codec = _CP.get(p, "cp1252")
                continue
            if a in ("fonttbl", "colortbl", "pict", "fldinst"):
                dest = a
                dest_depth = depth
                if a == "colortbl":
                    color_entries = []
                    color_cur = [None, None, None]
                    dests.append(("colortbl", len(pages) - 1, len(pages[-1].blocks), off))
                elif a == "pict":
                    pict = {"blip": None, "props": {}, "hex": b""}
                elif a == "fldinst":
                    fld_text = []
                continue
            if a in ("header", "footer", "headerl", "headerr", "headerf", "footerl", "footerr", "footerf"):
                dest = a[:6]
                dest_depth = depth
                tgt: list = []
                (headers if dest == "header" else footers).append(tgt)
                dests.append((dest, len(pages) - 1, len(pages[-1].blocks), off))
                saved_events[depth] = events
                events = []
                sink = tgt
                sink_kind = dest
                continue
            if a in _DEST_SKIP:
                dest = "skip"
                dest_depth = depth
                continue
            if a == "field":
                continue
            if a == "page":
                if sink_kind == "body":
                    pages.append(Page(break_offset=off))
                    sink = pages[-1].blocks
                    # keep enclosing groups pointing at the new page
                    stack[:] = [(c, d, dd, (sink if sk == "body" else s), sk, fc) for (c, d, dd, s, sk, fc) in stack]
                else:
                    errors.append(("page-break-inside-" + sink_kind, off, ""))
                continue
            if a == "par":
                flush_para()
                empty_runs = []
                ntext[0] += 1  # a group that encloses a paragraph end is not a run of the next paragraph
                continue
            if a == "pard":
                pp = {}
                continue
            if a == "plain":
                for t in CHAR_TOGGLES:
                    cp[t] = False
                cp.update(f=None, fs=None, cf=None, cb=None, chcbpat=None)
                continue
            if a == "line":
                events.append(("line",))
                continue
            # character properties
            if a in ("f", "fs", "cf", "cb", "chcbpat"):
                cp[a] = p
                continue
            if a in CHAR_TOGGLES:
                on = p is None or p != 0
                cp[a] = on
                if a == "super" and on:
                    cp["sub"] = False
                if a == "sub" and on:
                    cp["super"] = False
                continue
            if a == "ulnone":
                cp["ul"] = False
                continue
            if a == "nosupersub":
                cp["super"] = cp["sub"] = False
                continue
            if a == "chshdng":
                continue
            # paragraph properties
            if a in ("ql", "qc", "qr", "qj", "qd"):
                pp["q"] = a[1]
                continue
            if a in ("fi", "li", "ri", "sb", "sa", "sl", "slmult"):
                pp[a] = p
                continue
            if a == "hyphpar":
                pp["hyphpar"] = 1 if p is None else p
                continue
            if a == "intbl":
                pp["intbl"] = True
                continue
            # page geometry
            if a in GEOM_WORDS:
                if sink_kind == "body":
                    pages[-1].geometry.append((a, p))
                continue
            if a in ("deff", "deflang", "deflangfe", "viewkind", "widowctrl"):
                doc_words.append((a, p))
                continue
            # table
            if a == "trowd":
                in_rowdef = True
                celldefs = []
                row_cells = []
                curdef = {"borders": {}, "vertal": None, "extra": {}}
                curside = None
                trpr = {}
                continue
            if a in ("trgaph", "trleft", "trrh"):
                trpr[a] = p
                continue
            if a in ("trql", "trqc", "trqr"):
                trpr["trq"] = a[3]
                continue
            if a in ("clbrdrl", "clbrdrt", "clbrdrr", "clbrdrb"):
                curside = a[-1]
                curdef["borders"][curside] = [None, None, None]
                continue
            if a in BORDER_STYLE_WORDS:
                if curside is not None:
                    curdef["borders"][curside][0] = a
                continue
            if a == "brdrw":
                if curside is not None:
                    curdef["borders"][curside][1] = p
                continue
            if a == "brdrcf":
                if curside is not None:
                    curdef["borders"][curside][2] = p
                continue
            if a in ("clvertalt", "clvertalc", "clvertalb"):
                curdef["vertal"] = a[-1]
                curside = None
                continue
            if a in ("clvmgf", "clvmrg", "clmgf", "clmrg"):
                curdef["extra"][a] = True
                continue
            if a == "cellx":
                if not in_rowdef:
                    errors.append(("cellx-outside-row-definition", off, str(p)))
                curdef["cellx"] = p
                celldefs.append(curdef)
                curdef = {"borders": {}, "vertal": None, "extra": {}}
                curside = None
                continue
            if a == "cell":
                if not in_rowdef:
                    errors.append(("cell-outside-row", off, ""))
                row_cells.append(Cell(events, dict(pp), empty_runs=empty_runs))
                events = []
                empty_runs = []
                ntext[0] += 1
                continue
            if a == "row":
                if not in_rowdef:
                    errors.append(("row-without-trowd", off, ""))
                if events:
                    errors.append(("text-between-last-cell-and-row", off, events_text(events)[:30]))
                    events = []
                ncx, nc = len(celldefs), len(row_cells)
                if ncx != nc:
                    errors.append(("row-cellx-cell-count-mismatch", off, f"cellx={ncx} cell={nc}"))
                prev = 0
                for d in celldefs:
                    x = d.get("cellx")
                    if x is None or x <= 0:
                        errors.append(("row-nonpositive-boundary", off, str(x)))
                    elif x < prev:
                        errors.append(("row-decreasing-boundary", off, f"{prev}->{x}"))
                    if x is not None:
                        prev = x
                cells = []
                for j in range(max(ncx, nc)):
                    c = row_cells[j] if j < nc else Cell([], {})
                    if j < ncx:
                        d = celldefs[j]
                        c.cellx = d.get("cellx")
                        c.borders = {s: tuple(v) for s, v in d["borders"].items()}
                        c.vertal = d["vertal"]
                        c.extra = d["extra"]
                    cells.append(c)
                sink.append(Row(cells, dict(trpr), ncx, nc, ctbl=len(colortbls)))
                in_rowdef = False
                row_cells = []
                celldefs = []
                continue
            # anything else is reported as an event of the running paragraph
            events.append(("cw", a, p))
            continue
        if kind == "sym":
            if a in "\\{}":
                add_text(a)
            elif a == "*":
                # ignorable destination: skip group unless we know the word
                if i < n and toks[i][0] == "cw" and toks[i][1] in ("fldinst",):
                    pass
                else:
                    dest = "skip"
                    dest_depth = depth
            elif a == "~":
                add_text(" ")
            elif a == "_":
                add_text("‑")
            elif a == "-":
                events.append(("sym", "-"))
            else:
                events.append(("sym", a))
            continue
        if kind == "hex":
            add_text(_decode_bytes(bytes([a]), codec, errors, off))
            continue
        if kind == "txt":
            raw = a.replace(b"\r", b"").replace(b"\n", b"")
            if raw:
                add_text(_decode_bytes(raw, codec, errors, off))
            continue

    if not closed:
        errors.append(("unbalanced-open", len(data), f"depth={depth}"))
    if skip:
        errors.append(("u-escape-missing-fallback", skip_off, "end of input"))
    if in_rowdef and (row_cells or celldefs):
        errors.append(("row-not-terminated", len(data), ""))
    if events:
        # implicit last paragraph (text after the last \par)
        pages[-1].blocks.append(Para(events, dict(pp), ctbl=len(colortbls)))
    fonttbl = {k: (v[:-1] if v.endswith(";") else v) for k, v in fonttbl.items()}
    return Doc(pages, fonttbl, colortbl, colortbl_count, headers, footers, errors, ansicpg, charset, doc_words,
               colortbls=colortbls, dests=dests)


def parse_file(path) -> Doc:
    with open(path, "rb") as f:
        return parse(f.read())

"""Synthetic image files with valid headers of arbitrary declared dimensions."""
import struct
import zlib


def _chunk(tag: bytes, data: bytes) -> bytes:
    return struct.pack(">I", len(data)) + tag + data + struct.pack(">I", zlib.crc32(tag + data) & 0xFFFFFFFF)


def make_png(width: int, height: int, payload: bytes = b"") -> bytes:
    """Signature + IHDR(width,height) + one IDAT carrying `payload` verbatim + IEND."""
    ihdr = struct.pack(">IIBBBBB", width, height, 8, 2, 0, 0, 0)
    return b"\x89PNG\r\n\x1a\n" + _chunk(b"IHDR", ihdr) + _chunk(b"IDAT", payload) + _chunk(b"IEND", b"")


def make_jpeg(width: int, height: int, payload: bytes = b"", app_segments=(), sof: int = 0xC0) -> bytes:
    out = b"\xff\xd8"
    for seg_len in app_segments:  # APPn segments, seg_len includes the two length bytes
        out += b"\xff\xe1" + struct.pack(">H", seg_len) + bytes((i * 7) % 251 for i in range(seg_len - 2)).replace(b"\xff", b"\xfe")
    out += bytes([0xFF, sof]) + struct.pack(">HBHHB", 11, 8, height, width, 1) + b"\x01\x11\x00"
    out += b"\xff\xda" + struct.pack(">H", 8) + b"\x01\x01\x00\x00\x3f\x00" + payload.replace(b"\xff", b"\xff\x00") + b"\xff\xd9"
    return out


def make_emf(payload: bytes = b"") -> bytes:
    hdr = struct.pack("<II", 1, 88) + b"\x00" * 32 + b" EMF" + b"\x00" * 40
    return hdr + payload

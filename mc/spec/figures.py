"""Synthetic image files with valid headers of arbitrary declared dimensions."""
import struct
import zlib


def _chunk(tag: bytes, data: bytes) -> bytes:
    return struct.pack(">I", len(data)) + tag + data + struct.pack(">I", zlib.crc32(tag + data) & 0xFFFFFFFF)


def make_png(width: int, height: int, payload: bytes = b"") -> bytes:
    """Signature + IHDR(width,height) + one IDAT carrying `payload` verbatim + IEND."""
    ihdr = struct.pack(">IIBBBBB", width, height, 8, 2, 0, 0, 0)
    return b"\x89PNG\r\n\x1a\n" + _chunk(b"IHDR", ihdr) + _chunk(b"IDAT", payload) + _chunk(b"IEND", b"")


def make_jpeg(width: int, height: int, payload: bytes = b"", app_segments=(), sof: int = 0xC0,
              fake_sof: bool = False, tables: bool = False, fill: int = 0) -> bytes:
    """SOI, APPn segments, [DQT + DHT], SOFn(height, width), SOS + payload, EOI.

    fake_sof: every APPn segment long enough carries the bytes of a complete SOF0 segment with
              OTHER dimensions inside its content (what an embedded EXIF thumbnail looks like);
    tables:   a DQT and a DHT segment (markers DB, C4 - C4 is *not* a frame header) precede the frame header;
    fill:     that many 0xFF fill bytes in front of the frame-header marker (T.81 B.1.1.2 allows them)."""
    out = b"\xff\xd8"
    for seg_len in app_segments:  # APPn segments, seg_len includes the two length bytes
        body = bytes((i * 7) % 251 for i in range(seg_len - 2)).replace(b"\xff", b"\xfe")
        if fake_sof and seg_len - 2 >= 14:
            decoy = b"\xff\xc0" + struct.pack(">HBHHB", 11, 8, 7, 9, 1) + b"\x01\x11\x00"
            body = body[:1] + decoy + body[1 + len(decoy):]
        out += b"\xff\xe1" + struct.pack(">H", seg_len) + body
    if tables:
        out += b"\xff\xdb" + struct.pack(">H", 67) + b"\x00" + bytes(range(1, 65))
        out += b"\xff\xc4" + struct.pack(">H", 20) + b"\x00" + bytes(16) + b"\x00"
    out += b"\xff" * fill
    out += bytes([0xFF, sof]) + struct.pack(">HBHHB", 11, 8, height, width, 1) + b"\x01\x11\x00"
    out += b"\xff\xda" + struct.pack(">H", 8) + b"\x01\x01\x00\x00\x3f\x00" + payload.replace(b"\xff", b"\xff\x00") + b"\xff\xd9"
    return out


def make_emf(payload: bytes = b"") -> bytes:
    hdr = struct.pack("<II", 1, 88) + b"\x00" * 32 + b" EMF" + b"\x00" * 40
    return hdr + payload


def pattern(n: int, salt: int = 0) -> bytes:
    """n deterministic bytes; every byte value occurs once n >= 256 (167 is odd, so i -> 167*i+c permutes 0..255)."""
    return bytes((i * 167 + 13 + salt * 29) % 256 for i in range(n))


def png_size(data: bytes):
    """(width, height) from the IHDR chunk - reference reader for the oracle (PNG spec section 11.2.2)."""
    if data[:8] != b"\x89PNG\r\n\x1a\n" or data[12:16] != b"IHDR":
        return None
    return struct.unpack(">II", data[16:24])


def jpeg_size(data: bytes):
    """(width, height) from the first frame header SOFn, walking the marker segments (T.81 B.1.1, B.2.2)."""
    if data[:2] != b"\xff\xd8":
        return None
    i = 2
    while i + 4 <= len(data):
        if data[i] != 0xFF:
            return None
        while i < len(data) and data[i] == 0xFF:  # marker prefix + optional fill bytes
            i += 1
        m = data[i]
        i += 1
        if m in (0xD8, 0x01) or 0xD0 <= m <= 0xD7:
            continue  # stand-alone markers
        if m == 0xD9 or m == 0xDA:
            return None
        (ln,) = struct.unpack(">H", data[i:i + 2])
        if 0xC0 <= m <= 0xCF and m not in (0xC4, 0xC8, 0xCC):
            h, w = struct.unpack(">HH", data[i + 3:i + 7])
            return (w, h)
        i += ln
    return None

"""DocSpec: declarative, JSON-able document descriptions -> rtflite objects.

Only public constructors are used.  Every text carries a sentinel tag over
[A-Za-z0-9.] so that parsed blocks are identified by *what the user put in*, never by
how the current code formats them:

  T<i> title line     S<i> subline line      H<row>.<col> column header cell
  D<r>.<c> data cell  (int columns carry r*1000+c, float columns r + c/8)
  G<l>v<k> page_by value   U<l>v<k> subline_by value   K<l>v<k> group_by value
  F<i> footnote line  Z<i> source line   PH / PF page header / footer
"""
from __future__ import annotations

import os
import re
from dataclasses import dataclass, field
from functools import lru_cache

from ..core import repo

FONT_FILES = {
    1: "liberation/LiberationSerif-Regular.ttf", 2: "liberation/LiberationSerif-Regular.ttf",
    3: "liberation/LiberationSans-Regular.ttf", 4: "liberation/LiberationSans-Regular.ttf",
    5: "liberation/LiberationSans-Regular.ttf", 6: "cros/Carlito-Regular.ttf",
    7: "cros/Gelasio-Regular.ttf", 8: "cros/Caladea-Regular.ttf",
    9: "liberation/LiberationMono-Regular.ttf", 10: "liberation/LiberationSerif-Regular.ttf",
}
FONT_NAMES = {1: "Times New Roman", 2: "Times New Roman Greek", 3: "Arial Greek", 4: "Arial", 5: "Helvetica",
              6: "Calibri", 7: "Georgia", 8: "Cambria", 9: "Courier New", 10: "Symbol"}


@lru_cache(maxsize=None)
def _font(num: int, size: float):
    from PIL import ImageFont

    return ImageFont.truetype(os.path.join(repo.SRC, "rtflite", "fonts", FONT_FILES[num]), size=size)


def text_width_in(text: str, font: int = 1, size: float = 9) -> float:
    """Width in inches measured with Pillow on the bundled font file (independent of
    rtflite.get_string_width)."""
    return _font(font, size).getlength(text) / 72.0


def fill_to_lines(tag: str, lines: int, col_in: float, font: int = 1, size: float = 9, wide: bool = False) -> str:
    """tag + filler words so that the text needs exactly `lines` lines in a column of
    width col_in (mid-band: (lines-0.5) * col_in), for any reasonable estimator."""
    if lines <= 1:
        return tag
    target = (lines - 0.5) * col_in
    s = tag
    if wide:
        # few, wide glyphs: the extent is just past the line (band 0.2) while the CHARACTER COUNT stays far below what an
        # average-glyph capacity estimate allows on one line - a length-based shortcut undercounts these rows
        target = (lines - 0.8) * col_in
        k = 0
        while text_width_in(s, font, size) < target:
            s += " " + "WM" * 2 if k % 3 == 2 else "WM"[k % 2]
            k += 1
        return s
    while text_width_in(s, font, size) < target:
        s += " ww"
    return s


def lines_lower_bound(text: str, col_in: float, font: int, size: float) -> int:
    import math

    if not text or col_in <= 0:
        return 1
    return max(1, math.ceil(text_width_in(text, font, size) / col_in - 1e-9))


# --------------------------------------------------------------------------- build


@dataclass
class Built:
    doc: object
    spec: dict
    colnames: list = field(default_factory=list)       # all original columns, in order
    shown: list = field(default_factory=list)          # names rendered as cells, in order
    removed: list = field(default_factory=list)        # names consumed by page_by/subline_by
    display: list = field(default_factory=list)        # per row: {name: expected text}
    raw: list = field(default_factory=list)            # per row: {name: python value}
    widths_in: list = field(default_factory=list)      # expected widths of shown columns
    sections: list = field(default_factory=list)       # Built per section (multi)
    df: object = None
    earlier: object = None                             # Built of the earlier document (spec["earlier"], C08)


def _display(v) -> str:
    return "" if v is None else str(v)


UNICODE_EDGES = ["\u00e9", "\u00b1", "\u03b1", "\u7fff", "\u8000", "\u8001", "\uffff", "\U00010000", "\U00017fff", "\U00018000", "\U0001f600", "\U0010ffff"]


def _data_column(cls: str, n: int, c: int, dtag: str):
    if cls == "s":
        return [f"{dtag}{r}.{c}" for r in range(n)]
    if cls == "p":
        return [f"  {dtag}{r}.{c} " for r in range(n)]
    if cls == "x":  # conversion-triggering printable ASCII (only meaningful with text_convert off)
        return [f"{dtag}{r}.{c} a^b_c >= d <= e ~!@#$%&*()+=[]|;:'\",.<>/?" for r in range(n)]
    if cls == "i":
        return [r * 1000 + c for r in range(n)]
    if cls == "f":
        return [r + c / 8 + 0.0625 for r in range(n)]
    if cls == "b":  # booleans (display text str(True) / str(False))
        return [bool(r % 2) for r in range(n)]
    if cls == "fe":  # floats whose str() uses exponents / many digits (display text is str(value), not a dtype cast)
        vals = [1e-05, 1e16, 0.1 + 0.2, -0.0, 123456789.125, 5e-324, 1.5e300]
        return [vals[r % len(vals)] for r in range(n)]
    if cls == "u":  # tag + a class-boundary code point (Latin-1, BMP edges around the signed 16-bit wrap, astral)
        return [f"{dtag}{r}.{c} " + UNICODE_EDGES[r % len(UNICODE_EDGES)] for r in range(n)]
    if cls == "ni":  # integer column with nulls (null must display as empty, not 'None')
        return [None if r % 2 else r * 1000 + c for r in range(n)]
    if cls == "nf":  # float column with nulls
        return [r + c / 8 + 0.0625 if r % 3 else None for r in range(n)]
    if cls == "sb":  # tagged strings with blanks on a diagonal: cell (r, c) is null (even r) or "" (odd r) when (r + c) % 3 == 0,
        # so with 3 such columns every row has exactly one blank cell and two tagged ones (C09: formatting of empty cells)
        return [(None if r % 2 == 0 else "") if (r + c) % 3 == 0 else f"{dtag}{r}.{c}" for r in range(n)]
    if cls == "z":
        return [None] * n
    if cls == "m":
        return [None if r % 2 else f"{dtag}{r}.{c}" for r in range(n)]
    raise ValueError(cls)


_POLARS_DT = {"sb": "Utf8", "s": "Utf8", "p": "Utf8", "x": "Utf8", "ni": "Int64", "nf": "Float64", "u": "Utf8", "b": "Boolean", "fe": "Float64", "i": "Int64", "f": "Float64", "z": "Utf8", "m": "Utf8"}


def _keytext(prefix, lvl, k):
    """Group value text; a key written '<k>p' is the value <k> followed by one blank (a different value for the library)."""
    if k == "blank":  # an empty text as group value (a group like any other; it has no heading text)
        return ""
    if isinstance(k, str) and k.endswith("p"):
        return f"{prefix}{lvl}v{k[:-1]} "
    return f"{prefix}{lvl}v{k}"


def table_frame(spec: dict, dtag: str = "D"):
    """-> (polars df, colnames, shown, removed, raw rows)"""
    import polars as pl

    n = spec.get("n", 3)
    cols = spec.get("cols", ["s", "i"])
    data = {}
    schema = {}
    for lvl, keys in enumerate(spec.get("page_by") or []):
        if spec.get("page_by_numeric") == "float":  # float group values; the key "nan" is NaN (one value: NaN rows form one group)
            data[f"g{lvl}"] = [None if k is None else (float("nan") if k == "nan" else float(k) + 0.5) for k in keys]
            schema[f"g{lvl}"] = pl.Float64
            continue
        if spec.get("page_by_numeric"):  # integer group values (0 is a legitimate, falsy, value)
            data[f"g{lvl}"] = [None if k is None else int(k) for k in keys]
            schema[f"g{lvl}"] = pl.Int64
            continue
        data[f"g{lvl}"] = ["-----" if k == -1 else (None if k is None else _keytext("G", lvl, k)) for k in keys]
        schema[f"g{lvl}"] = pl.Utf8
    for lvl, keys in enumerate(spec.get("subline_by") or []):
        data[f"u{lvl}"] = ["-----" if k == -1 else _keytext("U", lvl, k) for k in keys]
        schema[f"u{lvl}"] = pl.Utf8
    for lvl, keys in enumerate(spec.get("group_by") or []):
        kt = spec.get("group_by_dtype")  # int / float / bool key values (0, 0.0, False are legitimate, falsy, values)
        if kt in ("int", "float", "bool"):
            conv = {"int": int, "float": float, "bool": bool}[kt]
            data[f"k{lvl}"] = [None if k is None else conv(k) for k in keys]
            schema[f"k{lvl}"] = {"int": pl.Int64, "float": pl.Float64, "bool": pl.Boolean}[kt]
            continue
        texts = (spec.get("group_by_values") or {}).get(str(lvl))  # explicit key texts per ordinal (e.g. texts holding '|')
        data[f"k{lvl}"] = [None if k is None else (texts[k] if texts else f"K{lvl}v{k}") for k in keys]
        schema[f"k{lvl}"] = pl.Utf8
    for c, cls in enumerate(cols):
        data[f"c{c}"] = _data_column(cls, n, c, dtag)
        schema[f"c{c}"] = getattr(pl, _POLARS_DT[cls])
    order = spec.get("colorder") or list(data)
    removed = []
    if spec.get("subline_by"):
        removed += [f"u{l}" for l in range(len(spec["subline_by"]))]
    if spec.get("page_by"):
        if not spec.get("new_page") or spec.get("pageby_row", "column") != "column":
            removed += [f"g{l}" for l in range(len(spec["page_by"]))]
    shown = [c for c in order if c not in removed]
    return data, schema, order, shown, removed


def _apply_heights(spec, data, shown, widths_in):
    heights = spec.get("heights")
    if not heights:
        return
    col = spec.get("height_col", "c0")
    j = shown.index(col)
    font = spec.get("font", 1)
    size = spec.get("size", 9)
    ind = spec.get("indent_wrap")  # "lead" / "nbsp": 0.7 column widths of the text's extent are leading blanks / no-break spaces
    if ind:
        ch = " " if ind == "lead" else "\u00a0"

        def indented(v, lines):
            full = fill_to_lines(v, lines, widths_in[j], font, size)
            pad = ""
            while text_width_in(pad, font, size) < 0.7 * widths_in[j]:
                pad += ch
            body_ = v
            # the words after the indent: what is left of the mid-band extent
            while text_width_in(pad + body_, font, size) < text_width_in(full, font, size):
                body_ += " ww"
            return pad + body_

        data[col] = [indented(v, heights[r]) if heights[r] > 1 else v for r, v in enumerate(data[col])]
        return
    data[col] = [fill_to_lines(v, heights[r], widths_in[j], font, size, wide=bool(spec.get("wide_fill"))) if heights[r] > 1 else v
                 for r, v in enumerate(data[col])]


def _apply_group_by_lines(spec, data, shown, widths_in):
    """spec["group_by_lines"] = k: the (repeated) value text of the first group_by column wraps to k lines in its column."""
    k = spec.get("group_by_lines")
    if not k or "k0" not in shown:
        return
    j = shown.index("k0")
    data["k0"] = [v if v is None else fill_to_lines(v, k, widths_in[j], spec.get("font", 1), spec.get("size", 9)) for v in data["k0"]]


def expected_widths(rel, total):
    s = float(sum(rel))
    return [total * w / s for w in rel]


def _text_component(cls, tag, nlines, attrs, text=None, none=False):
    if none:               # the component object exists but its text is None (spec keys footnote_text_none / source_text_none)
        return cls(text=None, **(attrs or {}))
    if text is not None:   # verbatim text without a sentinel tag (spec keys footnote_text / source_text), e.g. a blank spacer " "
        return cls(text=text, **(attrs or {}))
    text = [f"{tag}{i}" for i in range(nlines)]
    return cls(text=text if nlines > 1 else text[0], **(attrs or {}))


def build(spec: dict) -> Built:
    import polars as pl
    import rtflite as rtf

    kind = spec.get("kind", "table")
    page_kw = dict(spec.get("page") or {})
    page = rtf.RTFPage(**page_kw)
    kw = {"rtf_page": page}

    if spec.get("title", 1):
        kw["rtf_title"] = _text_component(rtf.RTFTitle, "T", spec.get("title", 1), spec.get("title_attrs"))
    else:
        kw["rtf_title"] = None if spec.get("title_none") else rtf.RTFTitle()
    if spec.get("subline"):
        kw["rtf_subline"] = _text_component(rtf.RTFSubline, "S", 1, spec.get("subline_attrs"))
    fn = spec.get("footnote")
    if fn:
        n_lines = 2 if fn.endswith("2") else 1
        kw["rtf_footnote"] = _text_component(rtf.RTFFootnote, "F", n_lines,
                                             {"as_table": fn.startswith("table"), **(spec.get("footnote_attrs") or {})},
                                             text=spec.get("footnote_text"), none=bool(spec.get("footnote_text_none")))
    src = spec.get("source")
    if src:
        n_lines = 2 if src.endswith("2") else 1
        kw["rtf_source"] = _text_component(rtf.RTFSource, "Z", n_lines,
                                           {"as_table": src.startswith("table"), **(spec.get("source_attrs") or {})},
                                           text=spec.get("source_text"), none=bool(spec.get("source_text_none")))
    ph = spec.get("page_header")
    if ph == "default":
        kw["rtf_page_header"] = rtf.RTFPageHeader(**(spec.get("page_header_attrs") or {}))
    elif ph == "text":
        kw["rtf_page_header"] = rtf.RTFPageHeader(text="PH", **(spec.get("page_header_attrs") or {}))
    if spec.get("page_footer"):
        kw["rtf_page_footer"] = rtf.RTFPageFooter(text="PF", **(spec.get("page_footer_attrs") or {}))

    if kind == "figure":
        figs = spec["figures"]  # list of file paths
        fkw = {k: spec[k] for k in ("fig_width", "fig_height", "fig_align") if k in spec}
        kw["rtf_figure"] = rtf.RTFFigure(figures=figs, **fkw)
        doc = rtf.RTFDocument(**kw)
        return Built(doc=doc, spec=spec)

    if kind == "multi":
        secs = []
        dfs, bodies, headers = [], [], []
        for si, sspec in enumerate(spec["sections"]):
            dtag = "ABCDE"[si] if si < 5 else f"X{si}"
            b = _build_section(sspec, page, dtag=dtag, htag=f"H{dtag}")
            secs.append(b)
            dfs.append(b.df)
            bodies.append(b.doc[0])
            headers.append(b.doc[1])
        if spec.get("share_body"):  # one RTFBody object held by every section
            bodies = [bodies[0]] * len(bodies)
        kw["df"] = dfs
        kw["rtf_body"] = bodies
        hm = spec.get("multi_header", "nested")
        if hm == "nested":
            kw["rtf_column_header"] = [h if h else [None] for h in headers]
        elif hm == "flat":
            kw["rtf_column_header"] = headers[0]
        doc = rtf.RTFDocument(**kw)
        return Built(doc=doc, spec=spec, sections=secs)

    b = _build_section(spec, page)
    body, hdrs = b.doc
    kw["df"] = b.df
    kw["rtf_body"] = body
    if hdrs is not None:
        kw["rtf_column_header"] = hdrs
    if spec.get("earlier") is not None:
        # C08/C14 dimension "component objects used by an earlier document": build (and by default
        # encode) the earlier document first, then hand ITS body / column-header objects to this one.
        # spec["reuse"] in {"body", "header", "both"}.
        ea = build(spec["earlier"])
        if spec.get("earlier_encode", True):
            ea.doc.rtf_encode()
        reuse = spec.get("reuse", "both")
        if reuse in ("body", "both"):
            kw["rtf_body"] = ea.doc.rtf_body
        if reuse in ("header", "both"):
            kw["rtf_column_header"] = list(ea.doc.rtf_column_header)
        b.earlier = ea
    doc = rtf.RTFDocument(**kw)
    b.doc = doc
    return b


def _build_section(spec, page, dtag="D", htag="H") -> Built:
    import polars as pl
    import rtflite as rtf

    data, schema, order, shown, removed = table_frame(spec, dtag)
    n = spec.get("n", 3)
    col_width = page.col_width
    rel = spec.get("col_rel_width")
    if rel is None:
        rel_shown = [1.0] * len(shown)
    elif len(rel) == len(order):
        rel_shown = [w for w, c in zip(rel, order) if c in shown]
    else:
        rel_shown = list(rel)
    widths_in = expected_widths(rel_shown, col_width) if shown else []
    _apply_heights(spec, data, shown, widths_in)
    _apply_group_by_lines(spec, data, shown, widths_in)
    for dst, src_col in (spec.get("dup_cols") or {}).items():
        data[dst] = list(data[src_col])
    df = pl.DataFrame({c: data[c] for c in order}, schema={c: schema[c] for c in order})
    # spec["rename"] = {"c0": "index", ...}: user-visible column names (the library must not care what a column is called)
    ren = {k: v for k, v in (spec.get("rename") or {}).items() if k in df.columns}
    if ren:
        df = df.rename(ren)
    _nm = lambda c: ren.get(c, c)  # noqa: E731

    bkw = dict(spec.get("body") or {})
    if rel is not None:
        bkw["col_rel_width"] = list(rel)
    if spec.get("page_by"):
        bkw["page_by"] = [_nm(f"g{l}") for l in range(len(spec["page_by"]))]
        for k in ("new_page", "pageby_row"):
            if k in spec:
                bkw[k] = spec[k]
    if spec.get("subline_by"):
        bkw["subline_by"] = [_nm(f"u{l}") for l in range(len(spec["subline_by"]))]
    if spec.get("group_by"):
        bkw["group_by"] = [_nm(f"k{l}") for l in range(len(spec["group_by"]))]
    if "pageby_header" in spec:
        bkw["pageby_header"] = spec["pageby_header"]
    if "section_new_page" in spec:
        bkw["new_page"] = spec["section_new_page"]
    hm = spec.get("header", "default")
    if hm == "off":
        bkw["as_colheader"] = False
    if "as_colheader" in spec:   # the body flag on its own, crossed with any header mode
        bkw["as_colheader"] = spec["as_colheader"]
    body = rtf.RTFBody(**bkw)

    hattrs = dict(spec.get("header_attrs") or {})
    if hm in ("default", "off"):
        hdrs = None  # RTFDocument default: [RTFColumnHeader()]
        if hattrs:
            hdrs = [rtf.RTFColumnHeader(**hattrs)]
    elif hm == "explicit":
        hdrs = [rtf.RTFColumnHeader(text=[f"{htag}0.{j}" for j in range(len(shown))], **hattrs)]
    elif hm == "explicit_all":  # one text per ORIGINAL column
        hdrs = [rtf.RTFColumnHeader(text=[f"{htag}0.{j}" for j in range(len(order))], **hattrs)]
    elif hm in ("explicit_long", "explicit_short"):  # one text more / fewer than displayed columns
        k = len(shown) + (1 if hm == "explicit_long" else -1)
        hdrs = [rtf.RTFColumnHeader(text=[f"{htag}0.{j}" for j in range(max(k, 1))], **hattrs)]
    elif hm == "two":
        k = len(shown)
        span = [max(1, k // 2), max(1, k - k // 2)] if k > 1 else [1]
        hdrs = [
            rtf.RTFColumnHeader(text=[f"{htag}0.{j}" for j in range(len(span))], col_rel_width=span, **hattrs),
            rtf.RTFColumnHeader(text=[f"{htag}1.{j}" for j in range(k)],
                                **({"col_rel_width": rel_shown} if spec.get("two_widths", True) else {}), **hattrs),
        ]
    elif hm == "rows":  # several full-width header rows, each with its OWN attributes (spec["header_rows_attrs"] = [attrs per row])
        hdrs = [rtf.RTFColumnHeader(text=[f"{htag}{r}.{j}" for j in range(len(shown))], **{**hattrs, **(ra or {})})
                for r, ra in enumerate(spec.get("header_rows_attrs") or [{}, {}])]
    elif hm == "stack":  # general multi-row header: spec["header_stack"] = [{"cells": m | None (= displayed columns),
        # "widths": None (inherit) | list of m values | scalar}, ...]; row r carries texts H<r>.0 .. H<r>.<m-1>
        hdrs = []
        for r, row in enumerate(spec["header_stack"]):
            m = row.get("cells") or len(shown)
            wkw = {} if row.get("widths") is None else {"col_rel_width": row["widths"]}
            hdrs.append(rtf.RTFColumnHeader(text=[f"{htag}{r}.{j}" for j in range(m)], **wkw, **hattrs))
    elif hm == "none":
        hdrs = []
    else:
        raise ValueError(hm)

    raw = [{c: data[c][r] for c in order} for r in range(n)]
    disp = [{c: _display(v) for c, v in row.items()} for row in raw]
    return Built(doc=(body, hdrs), spec=spec, colnames=order, shown=shown, removed=removed, display=disp, raw=raw,
                 widths_in=widths_in, df=df)


# --------------------------------------------------------------------------- classification of parsed blocks

_COLNAME = re.compile(r"^[cguk]\d+$")
_TAG = re.compile(r"^\s*([A-Z]{1,2})(\d+)(?:\.(\d+)|v(-?\d+))?")


def tag_of(text: str):
    """-> (prefix, a, b) or None ; D3.1 -> ('D',3,1) ; G0v2 -> ('G',0,2) ; T0 -> ('T',0,None)"""
    m = _TAG.match(text or "")
    if not m:
        t = (text or "").strip()
        if t.startswith("PH"):
            return ("PH", None, None)
        if t.startswith("PF"):
            return ("PF", None, None)
        return None
    b = m.group(3) if m.group(3) is not None else m.group(4)
    return (m.group(1), int(m.group(2)), int(b) if b is not None else None)


def block_role(block, data_tags=("D", "A", "B", "C", "E")):
    """Role of a parsed block by sentinel tags only.
    -> (role, info)  roles: title subline subline_by header data group footnote source blank pict other"""
    if block.kind == "pict":
        return ("pict", None)
    if block.kind == "para":
        t = block.text
        if not t.strip():
            return ("blank", None)
        tg = tag_of(t)
        if tg is None:
            return ("other", t)
        return ({"T": "title", "S": "subline", "U": "subline_by", "F": "footnote_para", "Z": "source_para"}.get(tg[0], "other"), tg)
    # row
    tags = [tag_of(c.text) for c in block.cells]
    for j, tg in enumerate(tags):
        if tg and tg[0] in data_tags and tg[2] is not None:
            return ("data", (tg[0], tg[1], j))
    first = tags[0] if tags else None
    if block.cells and all(_COLNAME.match(c.text or "") for c in block.cells):
        return ("header", ("auto", None, None))
    if first:
        if first[0].startswith("H"):
            return ("header", first)
        if first[0] == "G":
            return ("group", first)
        if first[0] == "F":
            return ("footnote_table", first)
        if first[0] == "Z":
            return ("source_table", first)
        if first[0] == "U":
            return ("subline_by_row", first)
    return ("row_other", [c.text for c in block.cells])

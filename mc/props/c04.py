"""C04 - page breaks occur only when required, and always when required.

Explicit-state exploration of the paginator automaton (mc/explore/paginator.py) on the real
code.  For every layout configuration gamma: all histories up to depth n without merging
(all height vectors x all group-change patterns), then a breadth-first closure over the
abstract page state to a fixpoint.  Oracle: there must exist ONE capacity K and ONE heading
policy pi such that every history of gamma is paginated exactly like the greedy left fold
for (K, pi); pages are non-empty contiguous runs; forced breaks always happen; appending a
row never changes earlier pages; and the observed abstract transitions form a function.
"""
from __future__ import annotations

import itertools

from ..explore import paginator as P

PID = "C04"
LEVEL = "model_checking"
TECHNIQUE = ("explicit-state exploration of the paginator automaton on the real encoder: all row-event histories to depth n "
             "unmerged + breadth-first closure over abstract page states to a fixpoint; existential greedy-policy oracle, "
             "prefix stability and transition determinism checked on every transition")
LEVEL_TEXT = ("Every history of row events (height 1..3 x group change) up to the stated depth is executed on the real code for "
              "every enumerated layout, plus a merged BFS to a fixpoint that covers longer histories provided merged states have "
              "equal futures - which is itself checked on every observed transition. This is the right level because page-break "
              "arithmetic fails only for particular (height vector, nrow, reservation) triples, which small-scope exhaustive search enumerates.")
LEVEL_NOTE = ("Trusted: the RTF reader, DocSpec filler texts (each row sits mid-band of its k-line height so any reasonable "
              "estimator agrees), body font 1 / size 9. Bounds: heights 1..3, <=3 group levels, depth and nrow ranges as in evidence.")

RES_SETS = [  # (header mode, footnote, source)
    ("none", None, None), ("explicit", None, None), ("two", None, None), ("none", "table", None), ("none", None, "table"),
    ("explicit", "table", None), ("explicit", None, "table"), ("none", "table", "table"), ("explicit", "table", "table"),
    ("two", "table", None), ("two", None, "table"), ("two", "table", "table"),
]


def r_max(g):
    g = P.norm_gamma(g)
    r = {"none": 0, "explicit": 1, "two": 2, "default": 1}[g["header"]]
    r += 1 if g["footnote"] else 0
    r += 1 if g["source"] else 0
    r += 1 if g["strategy"] in ("subline", "subline+page_by") else 0
    return r


def admissible(g, c):
    """Is candidate c = (K, start cost, continuation cost, subline double charge) a policy the
    property admits for gamma?  Headings may be charged only where headings are rendered."""
    g = P.norm_gamma(g)
    k, sc, cc, dbl = c
    if dbl:
        return False
    renders = g["strategy"] in ("page_by", "subline+page_by") and not (g["new_page"] and g["pageby_row"] == "column")
    if renders:
        return sc in ("one", "rendered")
    return sc == "none" and cc == "zero"


def candidates(g):
    """Extended family: admissible policies plus the two known defect mechanisms (a heading charged
    although none is rendered; the subline heading charged per page AND per group start), so that a
    refutation of every admissible policy can be classified narrowly."""
    g = P.norm_gamma(g)
    ks = range(max(1, g["nrow"] - r_max(g)), g["nrow"] + 1)
    has_pb = g["strategy"] in ("page_by", "subline+page_by")
    scs = ("none", "one", "rendered") if has_pb else ("none",)
    ccs = ("zero", "rendered") if has_pb else ("zero",)
    dbls = (False, True) if g["strategy"] in ("subline", "subline+page_by") else (False,)
    return {(k, sc, cc, d) for k in ks for sc in scs for cc in ccs for d in dbls
            if not (sc == "none" and cc == "rendered")}


def forced_of(g, start):
    g = P.norm_gamma(g)
    s = g["strategy"]
    out = []
    for i, st in enumerate(start):
        if i == 0:
            out.append(False)
        elif s == "subline":
            out.append(st != 0)
        elif s == "subline+page_by":
            # documented (RTFBody: "Pagination is automatically enabled (new_page=True)" when using subline_by;
            # property mechanism: SublineStrategy.paginate passes new_page=True): a page_by change is a forced
            # break as well whenever subline_by is in use
            out.append(st != 0)
        elif s == "page_by" and g["new_page"]:
            out.append(st != 0)
        else:
            out.append(False)
    return out


def simulate(g, hist, start, forced, K, sc, cc, dbl=False):
    """Greedy left fold under capacity K and heading policy (sc, cc); dbl = the subline_by
    heading is charged again to every subline group start (defect mechanism)."""
    g = P.norm_gamma(g)
    L = g["L"]
    has_pb = sc != "none"

    same_pb = set()
    if g["strategy"] == "subline+page_by" and has_pb:
        # a subline_by change under which the page_by value stays what it was: the page_by heading at the
        # top of the new page is the re-emission of a running group (a continuation), not a group start
        pb, _, _ = P.keys_of(g, hist)
        same_pb = {i for i in range(1, len(hist)) if start[i] == "s" and all(col[i] == col[i - 1] for col in pb)}

    def rendered(st, i=None):
        if not has_pb or st == 0 or i in same_pb:
            return 0
        return L if st == "s" else L - st + 1

    costs = []
    for i, ((h, _, _), st) in enumerate(zip(hist, start)):
        r = rendered(st, i)
        c = h + (0 if r == 0 else (1 if sc == "one" else r))
        if dbl and st != 0 and (g["strategy"] == "subline" or st == "s"):
            c += 1
        costs.append(c)

    def top_cost(i):
        if not has_pb or cc == "zero":
            return 0
        return L - rendered(start[i], i)  # headings shown at the page top that the start cost did not charge

    return P.greedy_pages(costs, forced, K, top_cost)


_NT = None


def check_history(g, hist, obs, parent_pages, cands, elim, viol):
    """Evaluate one history; mutates cands/elim/viol; returns data pages."""
    n = len(hist)
    if obs.error:
        viol.append({"klass": None, "sig": "encode-raised", "detail": f"{obs.error} hist={hist}"})
        return None
    pages = obs.data_pages()
    if len(pages) >= 2 and _NT is not None:
        _NT[0] += 1
    _, _, start = P.keys_of(g, hist)
    forced = forced_of(g, start)
    flat = [r for pg in pages for r in pg]
    if flat != list(range(n)):
        viol.append({"klass": None, "sig": "rows-not-contiguous-in-order", "detail": f"hist={hist} pages={pages}"})
        return pages
    if n and any(not pg for pg in pages):
        viol.append({"klass": None, "sig": "empty-page", "detail": f"hist={hist} pages={pages}"})
    firsts = {pg[0] for pg in pages if pg}
    for i in range(1, n):
        if forced[i] and i not in firsts:
            viol.append({"klass": None, "sig": "forced-break-missing",
                         "detail": f"row {i} starts a new {'subline_by' if 'subline' in g['strategy'] else 'page_by(new_page)'} group "
                                   f"but does not start a page: hist={hist} pages={pages}"})
            break
    if parent_pages is not None and n:
        stripped = [pg for pg in ([r for r in pg if r != n - 1] for pg in pages) if pg]
        if stripped != parent_pages:
            viol.append({"klass": None, "sig": "prefix-instability",
                         "detail": f"appending row {n - 1} changed earlier pages: before={parent_pages} after={pages} hist={hist}"})
    for c in list(cands):
        if simulate(g, hist, start, forced, *c) != pages:
            cands.discard(c)
            elim[c] = {"hist": [list(e) for e in hist], "observed": pages}
    return pages


def eval_case(case: dict) -> dict:
    global _NT
    g = case["gamma"]
    events = [tuple(e) for e in case.get("events") or P.alphabet(g)]
    cands = candidates(g)
    elim: dict = {}
    viol: list = []
    trans = {}  # (s, e) -> set of (broke, s')
    states = set()
    n_obs = 0
    ntn = [0]
    _NT = ntn
    cnt = {"exact_fit": 0, "overflow_by_one": 0, "forced_breaks": 0, "single_row_overflow_pages": 0}

    def record(hist, obs, pages, parent_state, parent_npages, e):
        s = P.canon(g, hist, obs)
        states.add(s)
        if parent_state is not None:
            broke = len(pages) > parent_npages
            trans.setdefault((parent_state, e), set()).add((broke, s))
        return s

    def boundary_counters(hist, pages):
        gn = P.norm_gamma(g)
        if len(pages) >= 2:
            _, _, start = P.keys_of(g, hist)
            forced = forced_of(g, start)
            last_first = pages[-1][0]
            if pages[-1] == [len(hist) - 1]:
                if forced[last_first]:
                    cnt["forced_breaks"] += 1
        for pg in pages:
            if len(pg) == 1 and hist[pg[0]][0] > gn["nrow"] - r_max(g):
                cnt["single_row_overflow_pages"] += 1

    if case["mode"] == "refute":
        # replay artefact: the histories that together refute every admissible policy
        for h in case["histories"]:
            h = tuple(tuple(e) for e in h)
            obs = P.observe(g, h)
            n_obs += 1
            check_history(g, h, obs, None, cands, elim, viol)
        adm = {c for c in cands if admissible(g, c)}
        if not adm:
            klass = classify_gamma(g, cands)
            viol.append({"klass": klass, "sig": "no-consistent-policy", "detail":
                         f"no admissible (K, policy) explains these histories; surviving defect mechanisms: {sorted(cands)[:3]}; "
                         + "; ".join(f"{list(c)} refuted by {v['hist']} -> {v['observed']}" for c, v in list(elim.items())[:4])})
        return {"viol": viol, "nt": True, "sample": {"surviving_admissible": sorted(adm)}}
    if case["mode"] == "unmerged":
        prefix = tuple(tuple(e) for e in case["prefix"])
        depth = case["depth"]
        # replay the prefix chain so that prefix stability is checked along it too
        stack_pages = None
        st = None
        npg = 0
        for k in range(1, len(prefix) + 1):
            h = prefix[:k]
            obs = P.observe(g, h)
            n_obs += 1
            if k == len(prefix):
                pages = check_history(g, h, obs, stack_pages, cands, elim, viol)
            else:
                pages = obs.data_pages() if not obs.error else None
            if pages is None:
                return {"viol": viol, "nt": False}
            st = record(h, obs, pages, st, npg, h[-1])
            stack_pages, npg = pages, len(pages)

        def dfs(h, pages, st, d):
            nonlocal n_obs
            if d <= 0:
                return
            for e in events:
                h2 = h + (e,)
                obs = P.observe(g, h2)
                n_obs += 1
                p2 = check_history(g, h2, obs, pages, cands, elim, viol)
                if p2 is None:
                    continue
                st2 = record(h2, obs, p2, st, len(pages), e)
                boundary_counters(h2, p2)
                dfs(h2, p2, st2, d - 1)

        dfs(prefix, stack_pages, st, depth)
    else:  # merged breadth-first closure
        max_states = case.get("max_states", 600)
        max_len = case.get("max_len", 60)
        seen = {}
        frontier = []
        capped = False
        for e in P.first_events(g):
            h = (e,)
            obs = P.observe(g, h)
            n_obs += 1
            pages = check_history(g, h, obs, [], cands, elim, viol)
            if pages is None:
                continue
            s = record(h, obs, pages, None, 0, e)
            if s not in seen:
                seen[s] = (h, pages)
                frontier.append(s)
        while frontier:
            nxt = []
            for s in frontier:
                h, pages = seen[s]
                if len(h) >= max_len:
                    capped = True
                    continue
                for e in events:
                    h2 = h + (e,)
                    obs = P.observe(g, h2)
                    n_obs += 1
                    p2 = check_history(g, h2, obs, pages, cands, elim, viol)
                    if p2 is None:
                        continue
                    s2 = record(h2, obs, p2, s, len(pages), e)
                    if s2 not in seen:
                        if len(seen) >= max_states:
                            capped = True
                            continue
                        seen[s2] = (h2, p2)
                        nxt.append(s2)
            frontier = nxt
        cnt["bfs_fixpoint_reached" if not capped else "bfs_capped"] = 1
        cnt["bfs_max_history_len"] = max((len(h) for h, _ in seen.values()), default=0)
    return {
        "viol": viol, "nt_n": ntn[0], "cnt": {k: v for k, v in cnt.items() if v}, "observations": n_obs, "evals": n_obs,
        "sample": ({"gamma": compact(g), "mode": case["mode"], "observations": n_obs, "abstract_states": len(states),
                    "surviving_admissible_policies": sorted(c for c in cands if admissible(g, c))[:4],
                    "one_refutation": next(({"policy": list(c), **v} for c, v in elim.items() if admissible(g, c)), None)} if case["mode"] == "bfs" else None),
        "cands": sorted(cands), "elim": [[list(c), v] for c, v in elim.items()],
        "trans": [[list(s), list(e), sorted([b, list(s2)] for b, s2 in outs)] for (s, e), outs in trans.items()],
        "states": 0, "transitions": 0,
    }


# --------------------------------------------------------------------------- plan


def gkey(g):
    return repr(sorted(P.norm_gamma(g).items()))


def gammas(run):
    quick = run.tier == "quick"
    seed = run.seed
    out = []  # (gamma, heights for unmerged, depth)

    def res_pick(k):
        if not quick:
            return RES_SETS
        return [RES_SETS[(seed + j * 5) % 12] for j in range(k)] + [RES_SETS[8]]

    # plain
    # (thorough sizes are chosen so that the whole tier, about 1.2 million documents, completes inside its budget:
    #  an exploration that stops at the budget is not exhaustive and says so)
    half = [RES_SETS[i] for i in (0, 2, 5, 8, 9, 11)]
    quarter = [RES_SETS[i] for i in (0, 5, 8, 11)]
    for nrow in (range(2, 9) if quick else list(range(2, 13)) + [16, 30]):
        for hm, fn, src in (res_pick(3) if quick else half):
            out.append(({"strategy": "plain", "nrow": nrow, "header": hm, "footnote": fn, "source": src}, [1, 2, 3], 5 if quick else 6))
    # page_by 1 level, new_page off / on
    for nrow in ((3, 4, 6) if quick else (3, 4, 5, 6, 8)):
        for hm, fn, src in (res_pick(1) if quick else quarter):
            for np_, pr in ((False, "column"), (True, "first_row"), (True, "column")):
                if quick and np_ and pr == "column" and nrow != 4:
                    continue
                out.append(({"strategy": "page_by", "L": 1, "nrow": nrow, "header": hm, "footnote": fn, "source": src,
                             "new_page": np_, "pageby_row": pr}, [1, 2] if quick else [1, 2, 3], 5))
    # page_by 2 and 3 levels
    for L, nrows, hs, depth in ((2, (4, 6) if quick else (4, 5, 6, 8), [1, 2], 4 if quick else 5),
                                (3, (6,) if quick else (5, 6, 8), [1, 2] if not quick else [1], 4)):
        for nrow in nrows:
            for hm, fn, src in res_pick(0) if quick else ([RES_SETS[0], RES_SETS[8]] if L == 2 else [RES_SETS[0], RES_SETS[8], RES_SETS[11]]):
                for rep in (True, False):
                    out.append(({"strategy": "page_by", "L": L, "nrow": nrow, "header": hm, "footnote": fn, "source": src,
                                 "inner_repeat": rep}, hs, depth))
    # a group value that recurs non-adjacently (A, B, A) under the forced-break strategies
    for nrow in ((4,) if quick else (3, 4, 6, 8)):
        out.append(({"strategy": "page_by", "L": 1, "nrow": nrow, "header": "none", "new_page": True, "pageby_row": "first_row", "recur": True}, [1], 5))
        out.append(({"strategy": "subline", "L": 1, "nrow": nrow, "header": "none", "recur": True}, [1], 5))
    # group values that differ only by a trailing blank are different values (d = 5)
    for nrow in ((4,) if quick else (3, 4, 6)):
        out.append(({"strategy": "page_by", "L": 1, "nrow": nrow, "header": "none", "new_page": True, "pageby_row": "first_row", "padded": True}, [1], 5))
        out.append(({"strategy": "page_by", "L": 1, "nrow": nrow + 1, "header": "none", "padded": True}, [1], 5))
        out.append(({"strategy": "subline", "L": 1, "nrow": nrow, "header": "none", "padded": True}, [1], 5))
    # per-column font sizes next to a removed group column (breaks must follow the heights the cells really have)
    for strat in ("page_by", "subline"):
        for ocs in ((14,) if quick else (5, 14)):
            for nrow in ((5,) if quick else (4, 6)):
                out.append(({"strategy": strat, "L": 1, "nrow": nrow, "header": "none", "other_col_size": ocs}, [1, 2], 4 if quick else 5))
    # the consumed key column is not a leading column of the frame, widths unequal (heights must come from each cell's own column)
    for strat in ("page_by", "subline"):
        for nrow in ((5,) if quick else (4, 6)):
            out.append(({"strategy": strat, "L": 1, "nrow": nrow, "header": "none", "key_not_first": True}, [1, 2], 4 if quick else 5))
    # float group keys with NaN: consecutive NaN rows are ONE group (the library compares the values' texts)
    for nrow in ((4,) if quick else (3, 4, 6)):
        out.append(({"strategy": "page_by", "L": 1, "nrow": nrow, "header": "none", "new_page": True, "pageby_row": "first_row", "nan_groups": True}, [1], 5))
        out.append(({"strategy": "page_by", "L": 1, "nrow": nrow + 1, "header": "none", "nan_groups": True}, [1], 5))
    # two key levels with null values: a level that is null on both sides of a change of the other level
    for nrow in ((4,) if quick else (3, 4, 6)):
        out.append(({"strategy": "page_by", "L": 2, "nrow": nrow, "header": "none", "new_page": True, "pageby_row": "first_row", "nulls": True}, [1], 4 if quick else 5))
        out.append(({"strategy": "subline", "L": 2, "nrow": nrow, "header": "none", "nulls": True}, [1], 4 if quick else 5))
    # subline_by
    for nrow in ((3, 4, 6) if quick else (3, 4, 5, 6, 8)):
        for hm, fn, src in (res_pick(1) if quick else quarter):
            out.append(({"strategy": "subline", "L": 1, "nrow": nrow, "header": hm, "footnote": fn, "source": src},
                        [1, 2] if quick else [1, 2, 3], 5))
    # subline_by + page_by
    # (nrow chosen so that the capacity left after header/footnote/source/subline reservations is >= 3:
    #  with capacity 1 every policy yields one row per page and nothing is decided)
    for nrow, rs in (((4, RES_SETS[0]), (7, RES_SETS[8])) if quick else
                     [(n, r) for n in (4, 5, 6, 8) for r in (RES_SETS[0], RES_SETS[8]) if n - r_max({"strategy": "subline+page_by", "header": r[0], "footnote": r[1], "source": r[2]}) >= 2]
                     + [(7, RES_SETS[8]), (9, RES_SETS[8])]):
        hm, fn, src = rs
        out.append(({"strategy": "subline+page_by", "L": 1, "nrow": nrow, "header": hm, "footnote": fn, "source": src},
                    [1, 2], 5))
    return out


def plan(run):
    run.rule = ("per layout gamma (strategy x levels x nrow x reservation set x new_page/pageby_row x inner-value repetition): every "
                "history of row events (h in heights, group change at each level / subline change) up to the depth, unmerged, as DFS "
                "subtrees; then breadth-first closure over abstract page states to a fixpoint. quick: seed-rotated reservation sets, "
                "thorough: all 12. non-trivial = distinct (gamma, history) whose document has >= 2 pages")
    run.assumptions = [
        "row heights are unambiguous: filler text is measured with Pillow to sit mid-band of its k-line height at font 1 / size 9",
        "the admissible policy family is K in [nrow - R_max, nrow] x start cost {one row, rendered rows} x continuation cost {zero, rendered rows}",
        "merged BFS covers longer histories only if merged states have equal futures; that is checked as transition determinism",
    ]
    glist = gammas(run)
    cases = []
    for g, hs, depth in glist:
        gg = dict(g, heights=hs)
        evs = P.alphabet(gg)
        firsts = P.first_events(gg)
        # split the unmerged tree at depth 2 so that work units are small
        if depth >= 4 and len(evs) >= 6:
            for f in firsts:
                for e in evs:
                    cases.append({"gamma": gg, "mode": "unmerged", "prefix": [list(f), list(e)], "depth": depth - 2})
                cases.append({"gamma": gg, "mode": "unmerged", "prefix": [list(f)], "depth": 0})
        else:
            for f in firsts:
                cases.append({"gamma": gg, "mode": "unmerged", "prefix": [list(f)], "depth": depth - 1})
        cases.append({"gamma": gg, "mode": "bfs", "max_states": 400 if run.tier == "quick" else 3000,
                      "max_len": 40 if run.tier == "quick" else 120})
    per_gamma: dict = {}

    def on_result(r):
        if "cands" not in r:
            return
        c = r["_case"]
        k = gkey(c["gamma"])
        e = per_gamma.setdefault(k, {"gamma": c["gamma"], "cands": None, "elim": {}, "trans": {}, "obs": 0, "states": set()})
        cs = {tuple(x) for x in r["cands"]}
        e["cands"] = cs if e["cands"] is None else (e["cands"] & cs)
        for cnd, info in r["elim"]:
            key = tuple(cnd)
            old = e["elim"].get(key)
            if old is None or len(info["hist"]) < len(old["hist"]):
                e["elim"][key] = info
        for s, ev, outs in r["trans"]:
            key = (tuple(s), tuple(ev))
            e["trans"].setdefault(key, set()).update((b, tuple(s2)) for b, s2 in outs)
            e["states"].add(tuple(s))
            for b, s2 in outs:
                e["states"].add(tuple(s2))
        e["obs"] += r.get("observations", 0)

    run.layer("paginator-automaton", "mc.props.c04:eval_case", cases, chunk=1, total=len(cases), on_result=on_result)
    # global oracles per gamma
    surv = {}
    obs_total = 0
    for k, e in per_gamma.items():
        g = e["gamma"]
        obs_total += e["obs"]
        run.states += len(e["states"])
        run.transitions += len(e["trans"])
        nondet = [(s, ev, outs) for (s, ev), outs in e["trans"].items() if len(outs) > 1]
        if nondet:
            s, ev, outs = nondet[0]
            run.add_violation(None, f"abstract transition is not a function: state {s} + event {ev} -> {sorted(outs)} "
                                    f"(merged states do not have equal futures) gamma={g}",
                              {"gamma": g, "mode": "bfs"}, sig="history-dependent-pagination")
        adm = {c for c in (e["cands"] or set()) if admissible(g, c)}
        if e["cands"] is not None and not adm:
            # no admissible (K, policy) explains all histories: report the shortest refuting histories
            ref = {c: v for c, v in e["elim"].items() if admissible(g, c)}
            shortest = sorted(ref.items(), key=lambda kv: len(kv[1]["hist"]))
            why = "; ".join(f"K={c[0]},start={c[1]},cont={c[2]} refuted by hist={v['hist']} observed={v['observed']}" for c, v in shortest[:3])
            longest = max(ref.values(), key=lambda v: len(v["hist"]))
            klass = classify_gamma(g, e["cands"])
            run.add_violation(klass, f"no admissible capacity/heading policy explains all histories of gamma={compact(g)}: {why}"
                                     + (f" [all histories ARE explained by the defect mechanism {klass}: {sorted(e['cands'])[:2]}]" if klass else ""),
                              {"gamma": g, "mode": "refute", "histories": [v["hist"] for _, v in shortest]},
                              sig=f"no-consistent-policy-{P.norm_gamma(g)['strategy']}-{klass}")
        else:
            surv[compact(g)] = sorted(adm)
    run.extra["gammas"] = len(per_gamma)
    run.extra["observations"] = obs_total
    run.extra["traces_validated_against_impl"] = obs_total
    run.extra["surviving_policies_sample"] = dict(list(surv.items())[:12])
    run.extra["gammas_with_unique_policy"] = sum(1 for v in surv.values() if len(v) == 1)
    for need in ("forced_breaks", "single_row_overflow_pages", "bfs_fixpoint_reached"):
        if not run.cnt.get(need):
            run.harness_errors.append({"layer": "vacuity", "case": None, "error": f"boundary counter {need} is zero"})


def compact(g):
    g = P.norm_gamma(g)
    return (f"{g['strategy']}/L{g['L']}/nrow{g['nrow']}/hdr={g['header']}/fn={g['footnote']}/src={g['source']}"
            f"/new_page={g['new_page']}/{g['pageby_row']}/rep={g['inner_repeat']}")


def classify_gamma(g, surviving):
    """Narrow classes: every history of gamma is explained by exactly one known defect mechanism."""
    gn = P.norm_gamma(g)
    if not surviving:
        return None
    if all(c[3] for c in surviving) and gn["strategy"] in ("subline", "subline+page_by"):
        return "subline-heading-double-counted"
    if gn["strategy"] == "page_by" and gn["new_page"] and gn["pageby_row"] == "column" and all(c[1] in ("one", "rendered") and not c[3] for c in surviving):
        return "phantom-pageby-heading-charged"
    return None

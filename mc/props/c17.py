"""C17 - assemble_rtf yields one well-formed document with every input in order.

Space (exhaustive, DESIGN 5 C17): a pool of 8 files written by rtflite itself (doc.write_rtf): 1-page table,
3-page A4 table, landscape, with page header/footer (+ its own colours), with colour table, multi-section,
1-figure, 2-figure.  All k-tuples with repetition, k <= 3 (quick: 584) / k <= 4 (thorough: 4680); plus [],
every single input, and a missing file at every position (one and two missing) with the output path
absent / pre-existing; the output path aliasing input i (every position, input listed twice, relative / './' /
symlink spellings) against the assembly into a fresh path; a second pool of 6 document kinds (single table, paginated table, page_by table, multi-section,
1 figure, 2 figures) x {no colour, text colour, background, border colour} in first and later positions (all ordered
pairs, triples); rewrite histories inside one process (write X to path P, assemble, rewrite P with Y,
assemble again, assemble [P]) for all ordered pairs of pool kinds x all positions of P in 1..3-tuples.

Oracle (from the property text): the output parses strictly; its page list equals the concatenation of the
inputs' page lists compared on a normalised per-page summary taken from the reader model (blocks with texts,
run properties with font names and colours RESOLVED through the tables in force at that point of the stream,
\\cellx, borders, picture payloads), the page header / footer destination in force on the page, and the paper
geometry in force on the page (last stated \\paperw \\paperh \\marg* \\headery \\footery; \\landscape is a flag
without an off switch).  Each input therefore starts on a new page with its own geometry.  Single input =>
byte-identical copy; [] => nothing written; missing input => FileNotFoundError and the output path untouched.
"""
from __future__ import annotations

import atexit
import glob
import hashlib
import itertools
import os
import shutil

from ..core import repo
from ..rtfreader.reader import parse
from ..spec import docspec
from ..spec.figures import make_jpeg, make_png, pattern

PID = "C17"
LEVEL = "exploration"
TECHNIQUE = ("bounded exhaustive enumeration of input sequences (all k-tuples of a pool of rtflite-written files) through the "
             "real assemble_rtf; page-by-page comparison of the re-parsed output with the re-parsed inputs, everything resolved "
             "through the tables / destinations / geometry in force at that point of the stream")
LEVEL_TEXT = ("exploration, exhaustive inside the stated bound: assemble_rtf is a line-based splice whose behaviour depends only on "
              "the kind of each input (preamble shape, colour table, header/footer, geometry, trailing lines) and on its position "
              "(first / middle / last); all sequences of all kinds up to length 3 (4) cover every adjacent pair in every position")
LEVEL_NOTE = ("trusted base: the RTF reader and its stream semantics for 'in force' (latest \\colortbl, latest \\header/\\footer "
              "defined before the page's first block, latest geometry words; \\landscape never reset). A word processor with "
              "section-based semantics may be stricter, never more lenient")

GEOM = ("paperw", "paperh", "margl", "margr", "margt", "margb", "headery", "footery")
SENTINEL = b"PRE-EXISTING OUTPUT - must stay untouched\n"

# --------------------------------------------------------------------------- pool

POOL = ["t1", "t3", "land", "hf", "col", "multi", "f1", "f2"]
EXPECTED_PAGES = {"t1": 1, "t3": 3, "land": 1, "hf": 2, "col": 1, "multi": 1, "f1": 1, "f2": 2}


# second pool: every document KIND without and with colours (colour-table presence is what changes the preamble shape)
KINDS = ["t1", "tp", "pb", "ms", "f1", "f2"]          # single table, paginated table, page_by table, multi-section, 1 figure, 2 figures
COLOURS = ["none", "text", "bg", "border"]            # figure-only documents have no borders: "border" = coloured footnote + source instead
MATRIX = [f"{k}:{c}" for k in KINDS for c in COLOURS]
FIGURE_KINDS = ("f1", "f2")
# Known defect of the pinned tree (proposed finding figure-document-colour-table-shares-font-table-line): a figure-only document
# WITH a colour table as a later input is cut inside its colour table.  While False those cells are left out of the enumeration
# (the check stays silent about them); set True once the finding is accepted into known_findings.json or rtflite is repaired.
ENUMERATE_COLOURED_FIGURE_DOCUMENT_AS_LATER_INPUT = True


def matrix_spec(name: str, wd: str) -> dict:
    kind, colour = name.split(":")
    if kind in FIGURE_KINDS:
        spec = pool_spec("f2", wd) if kind == "f2" else {**pool_spec("f1", wd), "title": 1, "title_none": False, "source": "para"}
        spec = dict(spec)
        if colour == "text":
            spec["title_attrs"] = {"text_color": ["red"]}
        elif colour == "bg":
            spec["title_attrs"] = {"text_background_color": ["yellow"]}
            spec["source_attrs"] = {"text_color": ["blue"], "text_background_color": ["gray"]}
        elif colour == "border":
            spec["footnote_attrs"] = {"text_color": ["orange"]}
            spec["source_attrs"] = {"text_color": ["purple"]}
        return spec
    base = {"cols": ["s", "i"], "title": 1, "header": "explicit", "footnote": "table", "source": "para", "n": 3, "page": {"nrow": 40}}
    body = {}
    if colour == "text":
        body = {"text_color": ["red"]}
        base["title_attrs"] = {"text_color": ["green"]}
    elif colour == "bg":
        body = {"text_background_color": ["yellow"]}
        base["footnote_attrs"] = {"text_background_color": ["cyan"]}
    elif colour == "border":
        body = {"border_color_top": [["orange"]], "border_color_left": [["blue"]], "border_color_bottom": [["red"]]}
    if kind == "t1":
        return {**base, "body": body}
    if kind == "tp":
        return {**base, "n": 10, "subline": True, "page": {"nrow": 7}, "body": body}
    if kind == "pb":
        return {**base, "n": 4, "page_by": [[0, 0, 1, 1]], "body": body}
    if kind == "ms":
        sec = {"cols": ["s", "i"], "header": "explicit"}
        spec = {k: v for k, v in base.items() if k not in ("cols", "header", "n")}
        alt = {k: [[("blue" if x == "red" else "red") for x in row] if isinstance(row, list) else ("blue" if row == "red" else "green") for row in v]
               for k, v in body.items()}
        return {**spec, "kind": "multi", "sections": [{**sec, "n": 2, "body": body}, {**sec, "n": 3, "body": alt}]}
    raise ValueError(name)


def pool_spec(name: str, wd: str) -> dict:
    if ":" in name:
        return matrix_spec(name, wd)
    base = {"cols": ["s", "i"], "title": 1, "header": "explicit", "footnote": "table", "source": "para"}
    if name == "t1":
        return {**base, "n": 3, "page": {"nrow": 40}}
    if name == "t3":
        return {**base, "n": 10, "subline": True, "page": {"nrow": 7, "width": 8.27, "height": 11.69, "col_width": 6.0}}
    if name == "land":
        return {**base, "n": 4, "cols": ["s", "i", "f"], "page": {"orientation": "landscape", "nrow": 40}}
    if name == "hf":
        return {**base, "n": 8, "page": {"nrow": 9, "margin": [1.1, 0.9, 1.3, 0.7, 0.55, 0.45]},
                "page_header": "text", "page_footer": "text", "title_attrs": {"text_color": ["green"]},
                "page_header_attrs": {"text_color": ["purple"]}}
    if name == "col":
        return {**base, "n": 3, "page": {"nrow": 40},
                "body": {"text_color": ["red", "blue"], "text_background_color": ["yellow", "white"],
                         "border_color_top": [["orange", "black"]]}}
    if name == "multi":
        sec = {"cols": ["s", "i"], "header": "explicit"}
        return {"kind": "multi", "title": 1, "footnote": "table", "source": "para", "page": {"nrow": 40},
                "sections": [{**sec, "n": 2}, {**sec, "n": 3}]}
    figs = []
    for i in range(1 if name == "f1" else 2):
        ext = ".png" if (i == 0) == (name == "f1") else ".jpg"
        p = os.path.join(wd, f"{name}_{i}{ext}")
        if not os.path.exists(p):
            data = make_png(30 + i, 20, pattern(300, i)) if ext == ".png" else make_jpeg(64, 48 + i, pattern(90, 5 + i), (16,))
            with open(p, "wb") as f:
                f.write(data)
        figs.append(p)
    spec = {"kind": "figure", "figures": figs, "title": 1, "footnote": "para", "source": "para", "fig_width": [3, 4.5], "fig_height": 2.5,
            "page": {"page_title": "all", "page_footnote": "last", "page_source": "all"}}
    if name == "f1":
        spec.update(title=0, title_none=True, source=None, fig_align="left")  # starts directly with the picture
    return spec


# --------------------------------------------------------------------------- normalised per-page summary


def _color(tbl, idx):
    if idx is None:
        return None
    if tbl is None:
        return ["no-colour-table", idx]
    if not 0 <= idx < len(tbl):
        return ["index-outside-table", idx]
    return "auto" if tbl[idx] is None else list(tbl[idx])


def _events(doc, events, tbl, resolve=True):
    out = []
    for e in events:
        if e[0] == "t":
            props = {}
            for k, v in sorted(e[2].items()):
                if k in ("cf", "cb", "chcbpat"):
                    props[k] = _color(tbl, v) if resolve else v
                elif k == "f":
                    props[k] = doc.fonttbl.get(v, ["font-not-in-table", v]) if resolve else v
                else:
                    props[k] = v
            out.append(["t", e[1], props])
        else:
            out.append([x for x in e])
    return out


def block_summary(doc, b, resolve=True):
    tbl = doc.colortbls[b.ctbl - 1] if b.ctbl else None
    if b.kind == "pict":
        # the picture paragraph inherits its paragraph state from whatever precedes it; only the alignment is its own
        return ["pict", b.blip, sorted(b.props.items()), len(b.data), hashlib.sha1(b.data).hexdigest(), b.hex_ok, b.ppr.get("q")]
    if b.kind == "para":
        if not b.events:
            return ["para-empty"]
        return ["para", sorted(b.ppr.items()), _events(doc, b.events, tbl, resolve)]
    cells = []
    for c in b.cells:
        borders = {s: [v[0], v[1], (_color(tbl, v[2]) if resolve else v[2])] for s, v in sorted(c.borders.items())}
        cells.append([c.cellx, borders, c.vertal, sorted(c.extra.items()), sorted(c.ppr.items()), _events(doc, c.events, tbl, resolve)])
    return ["row", sorted(b.trpr.items()), b.ncellx, b.ncell, cells]


def hf_in_force(doc, what: str, npages: int):
    """For every page: index of the \\header (\\footer) destination in force = the latest one defined on an earlier
    page or on this page before its first body block."""
    occ = [d for d in doc.dests if d[0] == what]  # ordinal == index into doc.headers / doc.footers
    out = []
    for p in range(npages):
        cur = None
        for i, (_, page, nblocks, _off) in enumerate(occ):
            if page < p or (page == p and nblocks == 0):
                cur = i
        out.append(cur)
    return out


def page_summaries(doc, resolve=True):
    n = len(doc.pages)
    hdr, ftr = hf_in_force(doc, "header", n), hf_in_force(doc, "footer", n)
    geom = {}
    out = []
    for p, pg in enumerate(doc.pages):
        for k, v in pg.geometry:
            geom[k] = True if k == "landscape" else v
        out.append({
            "blocks": [block_summary(doc, b, resolve) for b in pg.blocks],
            "geom": {**{k: geom.get(k) for k in GEOM}, "landscape": bool(geom.get("landscape"))},
            "header": None if hdr[p] is None else [block_summary(doc, b, resolve) for b in doc.headers[hdr[p]]],
            "footer": None if ftr[p] is None else [block_summary(doc, b, resolve) for b in doc.footers[ftr[p]]],
            "break": pg.break_offset is not None,
        })
    return out


# --------------------------------------------------------------------------- per-process pool of input files

_DIR = None
_POOL: dict = {}
_COUNTER = [0]


def workdir() -> str:
    global _DIR
    if _DIR is None:
        _DIR = os.path.join(repo.VERIF, ".work", f"c17-p{os.getppid()}-{os.getpid()}")
        os.makedirs(_DIR, exist_ok=True)
        atexit.register(shutil.rmtree, _DIR, True)
    return _DIR


def pool_file(name: str):
    """-> (path, bytes, page summaries resolved, page summaries unresolved, reader errors)"""
    got = _POOL.get(name)
    if got is None:
        wd = workdir()
        path = os.path.join(wd, f"in_{name}.rtf")
        docspec.build(pool_spec(name, wd)).doc.write_rtf(path)
        with open(path, "rb") as f:
            data = f.read()
        d = parse(data)
        got = _POOL[name] = (path, data, page_summaries(d), page_summaries(d, resolve=False), list(d.errors))
    return got


def _first_diff(a, b, path=""):
    """Path of the first difference between two JSON-like values."""
    if type(a) is not type(b):
        return path, a, b
    if isinstance(a, dict):
        for k in sorted(set(a) | set(b)):
            if a.get(k) != b.get(k):
                return _first_diff(a.get(k), b.get(k), f"{path}.{k}")
    if isinstance(a, list):
        if len(a) != len(b):
            return f"{path}[len]", len(a), len(b)
        for i, (x, y) in enumerate(zip(a, b)):
            if x != y:
                return _first_diff(x, y, f"{path}[{i}]")
    return path, a, b


def _hf_text(summary):
    """Human-readable digest of a header/footer summary: its text plus a short hash of the full (resolved) summary."""
    if summary is None:
        return "none"
    text = " / ".join("".join(e[1] for e in b[2] if e[0] == "t") for b in summary if b[0] == "para")
    return f"{text!r} (#{hashlib.md5(repr(summary).encode()).hexdigest()[:6]})"


def _short(x, n=120):
    s = repr(x)
    return s if len(s) <= n else s[:n] + "..."


# --------------------------------------------------------------------------- one case


def check_output(names, inputs, after, V, bump, label=""):
    """The property's main clause on one assembled file: `after` (bytes) against the inputs
    (tuples as returned by pool_file: path, bytes, page summaries, unresolved summaries, reader errors).
    Returns the output's page summaries."""
    # ---- single input: unchanged
    if len(names) == 1:
        bump("single-input")
        if after != inputs[0][1]:
            fd = next((i for i, (a, b) in enumerate(zip(after, inputs[0][1])) if a != b), min(len(after), len(inputs[0][1])))
            V("single-input-not-identical", f"{label}input {names[0]} ({len(inputs[0][1])} bytes) -> output {len(after)} bytes, first difference at byte {fd}")
    # ---- well-formed
    doc = parse(after)
    if doc.errors:
        V("output-not-well-formed-" + doc.errors[0][0], f"{label}inputs {names}: {doc.errors[:3]}")
    for nm, inp in zip(names, inputs):
        if inp[4]:  # an input that is itself broken is C01's business; say so rather than blame assemble_rtf
            V("input-not-well-formed", f"pool file {nm}: {inp[4][:2]}")
    got = page_summaries(doc)
    got_raw = None
    exp = [(k, j, pg) for k, inp in enumerate(inputs) for j, pg in enumerate(inp[2])]
    if len(got) != len(exp):
        V("page-count", f"{label}inputs {names} have {[len(i[2]) for i in inputs]} pages, output has {len(got)}")
    # ---- page by page
    own_hf = {"header": [inp[2][0]["header"] for inp in inputs], "footer": [inp[2][0]["footer"] for inp in inputs]}
    for p, (k, j, want) in enumerate(exp[:len(got)]):
        have = got[p]
        where = f"{label}inputs {names}: output page {p + 1} = page {j + 1} of input {k + 1} ({names[k]})"
        if j == 0 and k > 0 and not have["break"]:
            V("input-not-on-new-page", where + " is not preceded by a page break")
        if have["blocks"] != want["blocks"]:
            if got_raw is None:
                got_raw = page_summaries(doc, resolve=False)
            path, a, b = _first_diff(have["blocks"], want["blocks"], "blocks")
            only_resolution = got_raw[p]["blocks"] == inputs[k][3][j]["blocks"]
            sig = "page-content-colour-or-font-resolution" if only_resolution else "page-content"
            V(sig, where + f": differs at {path}: output {_short(a)} vs input {_short(b)}"
              + (" (same indices, but they resolve through a different table in the output)" if only_resolution else ""))
        if have["geom"] != want["geom"]:
            diff = sorted(x for x in have["geom"] if have["geom"][x] != want["geom"][x])
            klass = None
            if diff == ["landscape"] and have["geom"]["landscape"] and not want["geom"]["landscape"] \
                    and any(inputs[i][2][0]["geom"]["landscape"] for i in range(k)):
                # completely explained: an earlier input set the \landscape flag and RTF has no word to clear it
                klass = "landscape-flag-persists-into-portrait-input"
            V(klass or ("geometry-" + ("first-page-" if j == 0 else "later-page-") + "+".join(diff)),
              where + ": geometry in force " + ", ".join(f"{x}={have['geom'][x]}" for x in diff) + " but the input's own is "
              + ", ".join(f"{x}={want['geom'][x]}" for x in diff), klass)
        for what in ("header", "footer"):
            if have[what] != want[what]:
                klass = None
                prev = [own_hf[what][i] for i in range(k) if own_hf[what][i] is not None]
                if want[what] is None and prev and have[what] == prev[-1]:
                    # completely explained: the input defines no \header/\footer, so the latest earlier one stays in force
                    klass = "page-header-footer-persists-into-later-input"
                V(klass or f"page-{what}-in-force", where + f": page {what} in force is {_hf_text(have[what])} but the input's own is {_hf_text(want[what])}", klass)
    return got


def eval_history(case: dict) -> dict:
    """History case: write kind X to a fresh path P, assemble a tuple containing P; rewrite the SAME path with kind Y,
    assemble the same tuple again; finally assemble [P] alone.  Every output is held against what is on disk at the
    time of the call (the property quantifies over the input *files*, not over what an earlier call saw)."""
    import rtflite as rtf

    wd = workdir()
    _COUNTER[0] += 1
    p_path = os.path.join(wd, f"hist_{_COUNTER[0]}.rtf")
    out_path = os.path.join(wd, f"hist_{_COUNTER[0]}_out.rtf")
    shape = case["tuple"]
    viol, cnt = [], {}

    def bump(k):
        cnt[k] = cnt.get(k, 0) + 1

    outputs = []
    try:
        steps = [(case["x"], shape), (case["y"], shape), (case["y"], ["P"])]
        for step, (kind, shp) in enumerate(steps):
            src = pool_file(kind)
            if step < 2:  # (re)write the file at P; step 3 re-reads what step 2 left on disk
                with open(p_path, "wb") as f:
                    f.write(src[1])
            entry = (p_path,) + tuple(src[1:])
            inputs = [entry if s == "P" else pool_file(s) for s in shp]
            names = [f"P={kind}" if s == "P" else s for s in shp]
            label = f"history step {step + 1} (path P {'written with' if step == 0 else 'rewritten with' if step == 1 else 'still holds'} {kind}" \
                    + (f", before: {case['x']}" if step else "") + "): "
            if os.path.exists(out_path):
                os.remove(out_path)
            sv = []

            def V(sig, detail, klass=None, sv=sv):
                sv.append({"klass": klass, "sig": sig, "detail": detail})

            try:
                rtf.assemble_rtf(input_files=[i[0] for i in inputs], output_file=out_path)
            except Exception as e:
                V(f"assemble-raised-{type(e).__name__}", f"{label}inputs {names}: {type(e).__name__}: {e}"[:300])
                outputs.append(None)
                viol.extend(sv)
                continue
            if not os.path.exists(out_path):
                V("no-output-written", f"{label}inputs {names}: no exception and no output file")
                outputs.append(None)
                viol.extend(sv)
                continue
            with open(out_path, "rb") as f:
                after = f.read()
            outputs.append(after)
            check_output(names, inputs, after, V, bump, label)
            fresh = [v for v in sv if v["klass"] is None]
            if step >= 1 and fresh and case["x"] != case["y"]:
                # what would the output be if P still held X?  (diagnosis only: names the mechanism in the report)
                stale = outputs[0] if step == 1 else pool_file(case["x"])[1]
                if after == stale:
                    sv[:] = [v for v in sv if v["klass"] is not None]
                    V("rewritten-input-read-stale",
                      f"{label}inputs {names}: the output is byte-identical to what the call produced while P held {case['x']}; "
                      f"the current content of P ({kind}, {len(src[1])} bytes on disk) is not in it. First oracle message: {fresh[0]['detail'][:160]}")
            viol.extend(sv)
        bump("history-rewrite")
        if sum(1 for s in shape if s == "P") > 1:
            bump("history-path-listed-twice")
        if shape[0] != "P":
            bump("history-rewritten-path-not-first")
        return {"viol": viol, "nt": True, "cnt": cnt}
    finally:
        for q in (p_path, out_path):
            if os.path.exists(q):
                os.remove(q)


def history_shapes(full: bool):
    """Tuples (length 1..3) containing the rewritten path P at every position."""
    out = [["P"], ["P", "P"]]
    for z in POOL:
        out += [["P", z], [z, "P"], ["P", z, "P"]]
    if full:
        for z, w in itertools.product(POOL, repeat=2):
            out += [["P", z, w], [z, "P", w], [z, w, "P"]]
    else:  # quick: the two other inputs are of the same kind
        for z in POOL:
            out += [["P", z, z], [z, "P", z], [z, z, "P"]]
    return out


SPELLINGS = ("same", "relative", "dot", "symlink")


def eval_alias(case: dict) -> dict:
    """The output path is also one of the input paths (updating a master file in place).  Every distinct input name gets its own
    private copy (a name listed twice is the same path twice); the output is input `alias`, spelled as the same string, as a
    relative path, with a './' component, or as a symbolic link to it.
    Oracle (metamorphic, the fresh-path behaviour itself is the business of the other layers): no exception; afterwards the output
    path holds byte for byte what assembling the same, untouched inputs into a FRESH path gives; no input other than the output
    path is modified."""
    import rtflite as rtf

    wd = workdir()
    _COUNTER[0] += 1
    cdir = os.path.join(wd, f"alias_{_COUNTER[0]}")
    os.makedirs(cdir)
    names = case["inputs"]
    viol, cnt = [], {}
    try:
        paths, original = {}, {}
        for nm in names:
            if nm not in paths:
                paths[nm] = os.path.join(cdir, f"in_{len(paths)}_{nm.replace(':', '-')}.rtf")
                with open(paths[nm], "wb") as f:
                    f.write(pool_file(nm)[1])
                original[paths[nm]] = pool_file(nm)[1]
        files = [paths[nm] for nm in names]
        fresh = os.path.join(cdir, "fresh.rtf")
        try:
            rtf.assemble_rtf(input_files=list(files), output_file=fresh)
            with open(fresh, "rb") as f:
                want = f.read()
        except Exception as e:
            return {"viol": [{"klass": None, "sig": f"assemble-raised-{type(e).__name__}", "detail": f"inputs {names} into a fresh path: {type(e).__name__}: {e}"[:300]}],
                    "nt": False}
        for q, data in original.items():
            with open(q, "rb") as f:
                if f.read() != data:
                    viol.append({"klass": None, "sig": "input-modified", "detail": f"inputs {names} into a fresh path: input {os.path.basename(q)} was modified"})
        target = files[case["alias"]]
        sp = case.get("spelling", "same")
        if sp == "relative":
            out = os.path.relpath(target)
        elif sp == "dot":
            out = os.path.join(os.path.dirname(target), ".", os.path.basename(target))
        elif sp == "symlink":
            out = os.path.join(cdir, "link_to_output.rtf")
            os.symlink(target, out)
        else:
            out = target
        where = (f"inputs {names}, output path = input {case['alias'] + 1} ({names[case['alias']]}"
                 + (f", listed {names.count(names[case['alias']])}x" if names.count(names[case['alias']]) > 1 else "") + f"; spelling: {sp})")
        try:
            rtf.assemble_rtf(input_files=list(files), output_file=out)
        except Exception as e:
            viol.append({"klass": None, "sig": f"output-aliases-input-raised-{type(e).__name__}",
                         "detail": f"{where}: {type(e).__name__}: {e}"[:300] + f"; afterwards the file holds {os.path.getsize(target)} bytes (was {len(original[target])})"})
        else:
            with open(target, "rb") as f:
                got = f.read()
            if got != want:
                fd = next((i for i, (a, b) in enumerate(zip(got, want)) if a != b), min(len(got), len(want)))
                viol.append({"klass": None, "sig": "output-aliases-input-result-differs",
                             "detail": f"{where}: the file holds {len(got)} bytes afterwards, assembling the same inputs into a fresh path gives {len(want)} bytes; "
                                       f"first difference at byte {fd}" + ("; the result is a prefix of the expected one" if want.startswith(got) else "")})
        for q, data in original.items():
            if q != target:
                with open(q, "rb") as f:
                    if f.read() != data:
                        viol.append({"klass": None, "sig": "output-aliases-input-other-input-modified", "detail": f"{where}: input {os.path.basename(q)} was modified"})
        cnt["alias"] = 1
        cnt["alias-" + ("last" if case["alias"] == len(names) - 1 else "non-last") + "-input"] = 1
        cnt["alias-spelling-" + sp] = 1
        if names.count(names[case["alias"]]) > 1:
            cnt["alias-input-listed-twice"] = 1
        return {"viol": viol, "nt": True, "cnt": cnt}
    finally:
        shutil.rmtree(cdir, ignore_errors=True)


def alias_cases(kmax: int, full: bool):
    """output == input i for every position i of every k-tuple (k <= kmax) of the pool; other spellings of the same path
    for k <= 2 (quick) / all (thorough)."""
    for k in range(1, kmax + 1):
        for t in itertools.product(POOL, repeat=k):
            for i in range(k):
                for sp in SPELLINGS if (full or k <= 2) else SPELLINGS[:1]:
                    yield {"inputs": list(t), "alias": i, "spelling": sp}


def eval_case(case: dict) -> dict:
    import rtflite as rtf

    if "alias" in case:
        return eval_alias(case)

    if "tuple" in case:
        return eval_history(case)
    names = case["inputs"]
    wd = workdir()
    _COUNTER[0] += 1
    out_path = os.path.join(wd, f"out_{_COUNTER[0]}.rtf")
    if os.path.exists(out_path):
        os.remove(out_path)
    pre = case.get("output") == "existing"
    if pre:
        with open(out_path, "wb") as f:
            f.write(SENTINEL)
    missing = set(case.get("missing") or [])
    inputs, files = [], []
    for i, nm in enumerate(names):
        if i in missing:
            inputs.append(None)
            files.append(os.path.join(wd, f"does_not_exist_{i}_{nm}.rtf"))
        else:
            inputs.append(pool_file(nm))
            files.append(inputs[-1][0])
    viol = []
    cnt = {}

    def bump(k):
        cnt[k] = cnt.get(k, 0) + 1

    def V(sig, detail, klass=None):
        viol.append({"klass": klass, "sig": sig, "detail": detail})

    def out_state():
        if not os.path.exists(out_path):
            return None
        with open(out_path, "rb") as f:
            return f.read()

    try:
        try:
            ret = rtf.assemble_rtf(input_files=list(files), output_file=out_path)
            raised = None
        except BaseException as e:  # noqa: BLE001 - the exception type is the observation
            raised, ret = e, None
        after = out_state()
        untouched = after == (SENTINEL if pre else None)

        # ---- missing input: FileNotFoundError before anything is written
        if missing:
            bump("missing-input")
            if not isinstance(raised, FileNotFoundError):
                V("missing-input-no-FileNotFoundError",
                  f"inputs {names} with position(s) {sorted(missing)} missing: " + (f"raised {type(raised).__name__}: {raised}" if raised else "no exception"))
            if not untouched:
                V("missing-input-output-touched",
                  f"inputs {names} with position(s) {sorted(missing)} missing, output {'pre-existing' if pre else 'absent'}: afterwards the output path "
                  + ("is gone" if after is None else f"holds {len(after)} bytes" + (" (changed)" if pre else " (created)")))
            return {"viol": viol, "nt": True, "cnt": cnt}
        if raised is not None:
            V(f"assemble-raised-{type(raised).__name__}", f"inputs {names}: {type(raised).__name__}: {raised}"[:300])
            return {"viol": viol, "nt": False, "cnt": cnt}
        # ---- empty list: writes nothing
        if not names:
            bump("empty-list")
            if not untouched:
                V("empty-list-writes", f"assemble_rtf([]) with output {'pre-existing' if pre else 'absent'}: output path afterwards "
                  + ("is gone" if after is None else f"holds {len(after)} bytes"))
            return {"viol": viol, "nt": True, "cnt": cnt}
        if after is None:
            V("no-output-written", f"inputs {names}: no exception and no output file")
            return {"viol": viol, "nt": False, "cnt": cnt}
        got = check_output(names, inputs, after, V, bump)
        if any(v["klass"] is None for v in viol):
            _classify_shared_colortbl_line(rtf, names, inputs, files, out_path, viol)
        # ---- counters
        for i, nm in enumerate(names):
            if ":" in nm:
                bump(("first" if i == 0 else "later") + f"[{nm}]")
        if len(names) > 1:
            geoms = {cjson_geom(i[2][0]["geom"]) for i in inputs}
            if len(geoms) > 1:
                bump("mixed-geometry")
            if any(nm in ("col", "hf") for nm in names[1:]):
                bump("later-input-with-colour-table")
            if any(nm == "hf" for nm in names[1:]):
                bump("later-input-with-page-header")
            if any(nm in ("f1", "f2") for nm in names):
                bump("figure-input")
            if any(a == b for a, b in zip(names, names[1:])):
                bump("same-input-twice-in-a-row")
        for nm, inp in zip(names, inputs):
            bump(f"pages[{nm}]={len(inp[2])}")
        res = {"viol": viol, "nt": len(names) >= 2, "cnt": cnt}
        if len(names) == 3 and not viol and names[0] != names[1] and "f2" in names and "t3" in names:
            res["sample"] = {"inputs": names, "input_pages": [len(i[2]) for i in inputs], "output_pages": len(got),
                             "output_bytes": len(after), "geometry_in_force_per_page": [[g["geom"]["paperw"], g["geom"]["paperh"], g["geom"]["landscape"]] for g in got]}
        return res
    finally:
        if os.path.exists(out_path):
            os.remove(out_path)


SHARED = b"}{\\colortbl"


def _classify_shared_colortbl_line(rtf, names, inputs, files, out_path, viol):
    """Narrow classifier for `figure-document-colour-table-shares-font-table-line`.

    Mechanism: a figure-only document writes the closing brace of the font table and `{\\colortbl;` on ONE line, so for a later
    input assemble_rtf (which skips "2 lines after the last \\fcharset line") starts inside the colour table.  The unclassified
    violations of this case are *completely explained* by it iff assembling the same inputs, with nothing changed except a line
    break inserted between `}` and `{\\colortbl;` in the later inputs that have them on one line (white space RTF ignores; the
    files parse to the same pages), satisfies the whole oracle.  Anything else wrong keeps klass None."""
    later = [i for i in range(1, len(inputs)) if SHARED in inputs[i][1]]
    if not later:
        return
    alt_files, tmp = list(files), []
    try:
        for i in later:
            q = f"{out_path}.split{i}.rtf"
            with open(q, "wb") as f:
                f.write(inputs[i][1].replace(SHARED, b"}\n{\\colortbl", 1))
            alt_files[i] = q
            tmp.append(q)
        out2 = out_path + ".alt.rtf"
        tmp.append(out2)
        try:
            rtf.assemble_rtf(input_files=alt_files, output_file=out2)
            with open(out2, "rb") as f:
                after2 = f.read()
        except Exception:
            return
        v2 = []
        check_output(names, inputs, after2, lambda sig, detail, klass=None: v2.append(klass), lambda k: None)
        if any(k is None for k in v2):
            return
        fresh = [v for v in viol if v["klass"] is None]
        key = "figure-document-colour-table-shares-font-table-line"
        viol[:] = [v for v in viol if v["klass"] is not None]
        viol.append({"klass": key, "sig": key,
                     "detail": f"inputs {names}: later input(s) {[names[i] for i in later]} (figure-only, with colours) have the font table's closing brace and "
                               "'{\\colortbl;' on one line, so the splice starts inside their colour table; with a line break between the two (same RTF) "
                               f"the output satisfies the whole oracle. First message: {fresh[0]['detail'][:200]}"})
    finally:
        for q in tmp:
            if os.path.exists(q):
                os.remove(q)


def matrix_cases(full: bool):
    """Every document kind x colour variant in first and later positions: all ordered pairs; triples with every matrix document in the
    middle (quick: between two fixed pairs of neighbours; thorough: all triples)."""
    def allowed(t):
        if ENUMERATE_COLOURED_FIGURE_DOCUMENT_AS_LATER_INPUT:
            return True
        return not any(nm.split(":")[0] in FIGURE_KINDS and not nm.endswith(":none") for nm in t[1:])

    tuples = list(itertools.product(MATRIX, repeat=2))
    if full:
        tuples += list(itertools.product(MATRIX, repeat=3))
    else:
        tuples += [(x, a, y) for a in MATRIX for x in ("tp:text", "f2:border") for y in ("t1:border", "f1:none")]
    return [{"inputs": list(t)} for t in tuples if allowed(t)]


def cjson_geom(g):
    return tuple(sorted(g.items()))


# --------------------------------------------------------------------------- enumeration


def plan(run):
    quick = run.tier == "quick"
    kmax = 3 if quick else 4
    run.rule = (f"pool of 8 rtflite-written files {POOL}; every k-tuple with repetition for k = 1..{kmax} "
                f"({sum(8 ** k for k in range(1, kmax + 1))}); [] with output absent/pre-existing; one missing file at every position of every "
                f"length 1..{kmax} x every pool file as the other inputs x output absent/pre-existing; two missing files. "
                f"kind x colour matrix: {len(KINDS)} document kinds {KINDS} x {COLOURS} = {len(MATRIX)} files, all ordered pairs and "
                f"{'all triples' if not quick else 'every file as the middle input of 4 triples'}"
                + ("" if ENUMERATE_COLOURED_FIGURE_DOCUMENT_AS_LATER_INPUT else " EXCEPT tuples with a coloured figure-only document as a later input "
                   "(known defect, see ENUMERATE_COLOURED_FIGURE_DOCUMENT_AS_LATER_INPUT)") + "; "
                "output path aliasing an input: every k-tuple of the 8-file pool (k <= 3) x every position i with output == input i (a name listed twice is the "
                f"same path twice), spelled as the same string; as relative path / with './' / as symlink for {'k <= 2' if quick else 'all'} - result must equal the "
                "assembly of the same inputs into a fresh path, other inputs untouched; "
                "rewrite histories in ONE process: every ordered pair (X, Y) of distinct pool kinds (56) x every tuple shape of length 1..3 holding the "
                f"rewritten path P at every position ({'all other inputs' if not quick else 'other inputs of one kind'}, incl. P listed twice; "
                f"{len(history_shapes(not quick))} shapes): write X to P, assemble, rewrite P with Y, assemble the same tuple, assemble [P]. "
                "non-trivial = >= 2 inputs, an error-path case or a history; distinct = distinct input sequence / history")
    run.assumptions = [
        "the RTF reader is correct; 'in force' is the reader's stream semantics (latest colour table, latest header/footer defined before the page's "
        "first block, latest geometry words, \\landscape never reset)",
        "inputs are the 8 pool kinds written by write_rtf on a POSIX file system; a text containing the word 'fcharset' is outside the pool",
        "histories: each worker process evaluates many cases, so process-level state of rtflite (caches) is exercised across calls; every history uses "
        "a fresh path P, files are rewritten in place (same path, same inode) between two calls of the same process",
        "paragraph state inherited by a picture paragraph is not compared (only its alignment), empty paragraphs are compared by position only",
    ]
    try:
        cases = [{"inputs": list(t)} for k in range(1, kmax + 1) for t in itertools.product(POOL, repeat=k)]
        run.layer("tuples", "mc.props.c17:eval_case", cases, chunk=12, total=len(cases))
        err = [{"inputs": [], "output": o} for o in ("absent", "existing")]
        for k in range(1, kmax + 1):
            for pos in range(k):
                for other in POOL:
                    for o in ("absent", "existing"):
                        err.append({"inputs": [other] * k, "missing": [pos], "output": o})
        for k in range(2, kmax + 1):
            for a, b in itertools.combinations(range(k), 2):
                for o in ("absent", "existing"):
                    err.append({"inputs": [POOL[(run.seed + a + b) % 8]] * k, "missing": [a, b], "output": o})
        run.layer("error-paths", "mc.props.c17:eval_case", err, chunk=12, total=len(err))
        # every document kind without / with colours (text, background, border) in first and later positions
        mx = matrix_cases(not quick)
        run.layer("kind-x-colour", "mc.props.c17:eval_case", mx, chunk=12, total=len(mx))
        # the output path is one of the input paths
        al = list(alias_cases(3, not quick))
        run.layer("output-aliases-input", "mc.props.c17:eval_case", al, chunk=25, total=len(al))
        # histories inside one process: same path, different content between two calls
        hist = [{"x": x, "y": y, "tuple": shp} for x, y in itertools.permutations(POOL, 2) for shp in history_shapes(not quick)]
        run.layer("rewrite-histories", "mc.props.c17:eval_case", hist, chunk=25, total=len(hist))
    finally:
        for d in glob.glob(os.path.join(repo.VERIF, ".work", f"c17-p{os.getpid()}-*")):
            shutil.rmtree(d, ignore_errors=True)
    for nm, want in EXPECTED_PAGES.items():
        if want is not None and not run.cnt.get(f"pages[{nm}]={want}"):
            run.harness_errors.append({"layer": "vacuity", "case": None, "error": f"pool file {nm} does not have {want} page(s): "
                                       + str({k: v for k, v in run.cnt.items() if k.startswith(f'pages[{nm}]')})})
    for nm in MATRIX:
        later_ok = ENUMERATE_COLOURED_FIGURE_DOCUMENT_AS_LATER_INPUT or nm.endswith(":none") or nm.split(":")[0] not in FIGURE_KINDS
        for pos in ("first", "later") if later_ok else ("first",):
            if not run.cnt.get(f"{pos}[{nm}]"):
                run.harness_errors.append({"layer": "vacuity", "case": None, "error": f"matrix file {nm} never occurred as {pos} input"})
    for need in ("mixed-geometry", "later-input-with-colour-table", "later-input-with-page-header", "figure-input",
                 "same-input-twice-in-a-row", "missing-input", "empty-list", "single-input", "history-rewrite",
                 "history-path-listed-twice", "history-rewritten-path-not-first", "alias-last-input", "alias-non-last-input",
                 "alias-input-listed-twice", "alias-spelling-same", "alias-spelling-relative", "alias-spelling-dot", "alias-spelling-symlink"):
        if not run.cnt.get(need):
            run.harness_errors.append({"layer": "vacuity", "case": None, "error": f"counter {need} is zero"})

"""C20 - string width measurement is consistent.

Space (exhaustive): all 260 single characters of printable ASCII, Latin-1 (without the soft hyphen) and
Greek U+0386..03CE; all pairs over a 24-character alphabet (narrow, wide, space, digits, the kerning pairs
AV / To, the fi ligature, accented, Greek; 14 fixed + 10 rotated by VERIF_SEED in the quick tier); all
triples over 8 of them; x the 10 fonts, each by number AND by name x sizes {4, 4.5, 5, 6, 7.5, 9, 9.5, 12,
18, 24, 36, 48} + {4.2, 5.25, 7.33, 10.8, 13.3} (not multiples of 0.5 pt; thorough: 4..48 step 0.5, 4..12 step 0.1 and a
few more odd sizes; all 260x260 pairs at the 12 design sizes); units {in, mm, px} x
dpi {36, 72, 96, 300, 600} on the empty string, the 24 singles and 16 pairs; strings in the syntax of the library's own
other layers (LaTeX-style commands with every kind of follower, ^ _ >= <=, RTF control words / groups, page-field
keywords), each with ALL its prefixes, measured as literal text under the same clauses; call histories (every
unsupported font / unit in all sequences of <= 3 calls mixed with valid ones) and calling threads (a slice of all fonts,
units and invalid inputs from the main thread and from two freshly started threads).
Oracle (the clauses of the property text): width("") == 0; width >= 0; mm == in*25.4 and px == in*dpi
(relative 1e-12); number == name (bit-identical); width(s+c) >= width(s); |w(s,a)/a - w(s,b)/b| <= 1% of the
larger for every pair of sizes; font 9 (monospaced): width == len * advance of a single character;
unsupported font number / name / unit => ValueError.
"""
from __future__ import annotations

import hashlib
import itertools
import json
import os

PID = "C20"
LEVEL = "exploration"
TECHNIQUE = ("bounded exhaustive enumeration of strings x fonts (by number and by name) x sizes x units x dpi through the public "
             "get_string_width; relational oracle (unit conversion, name/number identity, monotonicity, size scaling, monospace)")
LEVEL_TEXT = ("exhaustive within the stated bound: every string of the enumerated set (260 singles, 24^2 pairs, 8^3 triples; "
              "thorough: all 260^2 pairs) is measured with every font by number and by name at every size of the size set, and "
              "every clause of the property is evaluated on every measurement or pair of measurements; the unit/dpi clause on the "
              "full product fonts x sizes x units x dpi of a string subset. Exploration is the right level: the function is pure "
              "and the property is a conjunction of relations between a few of its values")
LEVEL_NOTE = ("trusted base: IEEE-754 arithmetic of CPython for the comparisons; the frozen font number->name table "
              "data/c20_font_numbers.json (generated once by tools/gen_c20_font_table.py). Strings longer than 3 characters, "
              "characters outside ASCII/Latin-1/Greek and sizes outside 4..48 are not covered")

FINDING_QUANT = "advance-quantisation"

HERE = os.path.dirname(os.path.dirname(os.path.dirname(os.path.abspath(__file__))))
with open(os.path.join(HERE, "data", "c20_font_numbers.json")) as _f:
    FONT_NAMES = {int(k): v for k, v in json.load(_f)["fonts"].items()}
MONO = 9

ASCII = [chr(c) for c in range(0x20, 0x7F)]
LATIN1 = [chr(c) for c in range(0xA0, 0x100) if c != 0xAD]
GREEK = [chr(c) for c in range(0x386, 0x3CF) if c not in (0x38B, 0x38D, 0x3A2)]
ALL = ASCII + LATIN1 + GREEK                      # 95 + 95 + 70 = 260
A8 = ["i", ".", " ", "W", "A", "V", "T", "o"]     # narrow, space, wide, kerning pairs AV / To / T. / V.
CORE = A8 + ["'", "M", "0", "f", "é", "α"]   # 14 fixed members of the pair alphabet
DEFAULT_ROT = ["l", "1", "m", "Å", "·", "Ω", "ώ", "@", "-", ","]

DESIGN_SIZES = [4, 4.5, 5, 6, 7.5, 9, 9.5, 12, 18, 24, 36, 48]
# sizes that are not multiples of 0.5 pt (nor of 1/64 pt): a size silently snapped to a grid shows up in the scaling clause
ODD_SIZES = [4.2, 5.25, 7.33, 10.8, 13.3]
QUICK_SIZES = sorted(DESIGN_SIZES + ODD_SIZES)
THOROUGH_SIZES = sorted(set([4 + 0.5 * i for i in range(89)] + [round(4 + 0.1 * i, 1) for i in range(81)]
                            + ODD_SIZES + [17.77, 23.45, 31.4159, 47.9]))
QUICK_DPI = [36, 72, 96, 300, 600]
THOROUGH_DPI = [36, 48, 72, 72.27, 96, 120, 150, 200, 300, 400, 600]
UNITS = ("in", "mm", "px")

BAD_FONTS = [0, 11, -1, 12, 100, "NoSuchFont", "arial", "Times", "", "courier new", "Times New Roman "]
BAD_UNITS = ["cm", "pt", "IN", "", "inch", "PX", "mm "]


def pair_alphabet(seed: int | None) -> list:
    """24 distinct characters: 14 fixed + 10 chosen by the seed (seed None / 0 -> the default ten)."""
    if not seed:
        return CORE + DEFAULT_ROT
    rest = [c for c in ALL if c not in CORE]          # 246 characters; 37 is coprime to 246
    return CORE + [rest[((seed * 10 + j) * 37) % len(rest)] for j in range(10)]


def gsw():
    from rtflite import get_string_width
    return get_string_width


# --------------------------------------------------------------------------- classifier


def is_26_6(x: float) -> bool:
    return abs(x * 64 - round(x * 64)) < 1e-9


def size_26_6(z: float) -> float:
    """The character size itself is handed to FreeType in 26.6 fixed point, truncated: (FT_F26Dot6)(size * 64)."""
    return int(z * 64) / 64.0


def quantisation_explains(a, wa, b, wb, terms: int) -> bool:
    """FreeType/HarfBuzz work in 26.6 fixed point: the size z is truncated to z' = floor(64 z)/64 and each glyph advance
    (and each kerning adjustment) of the string is rounded to the nearest 1/64 px, i.e. is off by at most 1/128 px.  With
    `terms` rounded summands the measured width at size z is L*z' + e_z with |e_z| <= terms/128 for ONE linear advance L
    (px per pt).  Two measurements are consistent with that - and with nothing more - exactly if the intervals
    [(w_z - e)/z', (w_z + e)/z'] overlap:
        |w_a/a' - w_b/b'| <= (terms/128) * (1/a' + 1/b').
    The class fires only then, and only if both widths are whole multiples of 1/64 px.  (For sizes that are multiples of
    1/64 pt - all sizes of the original design set - z' = z.)"""
    if not (is_26_6(wa) and is_26_6(wb)):
        return False
    a, b = size_26_6(a), size_26_6(b)
    e = terms / 128.0
    return abs(wa / a - wb / b) <= e * (1.0 / a + 1.0 / b) * (1 + 1e-9)


def rounded_terms(s: str, font: int, cnt: dict) -> int:
    """Number of separately rounded summands: one advance per character plus one adjustment per adjacent pair that
    interacts (kerning or ligature), observed through the public function at 48 pt: w(xy) != w(x) + w(y)."""
    w = gsw()
    k = 0
    for x, y in zip(s, s[1:]):
        cnt["calls"] += 3
        if round(w(x + y, font, 48, "px") * 64) != round(w(x, font, 48, "px") * 64) + round(w(y, font, 48, "px") * 64):
            k += 1
    return len(s) + k


# --------------------------------------------------------------------------- string sets


# --- strings that are syntax of rtflite's OWN other layers (LaTeX-style commands of the text conversion, its ^ _ >= <=
# tokens, RTF control words / escapes / groups, the page-field keywords).  get_string_width measures a string; the property
# knows no markup: such a string is literal text, so appending never decreases, Courier is len x advance, units convert.
# Each string is measured together with ALL its prefixes (the chain "\\", "\\p", "\\pm", "\\pm " ...).
LATEX_COMMANDS = ["\\pm", "\\mu", "\\in", "\\ge", "\\le", "\\alpha", "\\beta", "\\infty", "\\times"]
LATEX_FOLLOWERS = ["", " ", "x", "1", "{}", "{x}", " 5", "\\mu"]          # end / blank / letter / digit / brace group / next command
MARKUP = {
    "latex": [c + f for c in LATEX_COMMANDS for f in LATEX_FOLLOWERS],
    "latex-in-text": ["Mean \\pm SD", "5 \\mu g", "x \\in A", "p \\le 0.05", "\\alpha = 0.05", "a\\times b", "(\\beta)"],
    "tokens": ["^", "_", ">=", "<=", "x^2", "x_1", "a>=b", "a<=b", "x^{2}", "H_2O", ">==", "<=>", "^^", "__"],
    "rtf": ["\\par", "\\line", "\\u8805*", "{\\b x}", "\\'e9", "\\\\", "\\{", "\\}", "{}", "\\tab x", "\\cell", "\\fs18 x", "{\\i a}b"],
    "page-fields": ["\\pagenumber", "\\totalpage", "\\pagefield", "\\chpgn", "Page \\pagenumber of \\totalpage",
                    "{\\field{\\*\\fldinst NUMPAGES }}"],
}
MARKUP_QUICK_SIZES = [4, 7.33, 9, 12, 24, 48]
MARKUP_UNIT_STRINGS = ["\\pm", "\\mu g", "\\alpha{}", "x^2", "a>=b", "\\par", "{\\b x}", "\\pagenumber"]


def strings_for(head: str, mode: str, a24: list) -> list:
    if mode == "prefix-chains":
        return [head[:k] for k in range(1, len(head) + 1)]
    if mode == "full-pairs":
        return [head] + [head + y for y in ALL]
    out = [head]
    if head in a24:
        out += [head + b for b in a24]
        if head in A8:
            out += [head + b + c for b in A8 for c in A8]
    return out


def measure(font, sizes, strings, cnt, viol, both=True, both_maxlen=3):
    """widths by number (px, 72 dpi); by name compared on the fly. Returns {(s, z): w} or None when a call raised."""
    w = gsw()
    name = FONT_NAMES[font]
    W = {}
    try:
        for z in sizes:
            for s in [""] + strings:
                v = w(s, font, z, "px")
                cnt["calls"] += 1
                if both and len(s) <= both_maxlen:
                    v2 = w(s, name, z, "px")
                    cnt["calls"] += 1
                    cnt["name-vs-number"] += 1
                    if v2 != v:
                        viol.append({"klass": None, "sig": f"name-vs-number-font{font}",
                                     "detail": f"font {font} gives {v!r} but its name {name!r} gives {v2!r} for {s!r} at {z} pt"})
                W[s, z] = v
    except Exception as e:  # noqa: BLE001
        viol.append({"klass": None, "sig": f"raised-{type(e).__name__}",
                     "detail": f"get_string_width({s!r}, font {font} / {name!r}, {z}) raised {type(e).__name__}: {e}"})
        return None
    return W


def eval_metric(case: dict) -> dict:
    font, sizes, mode = case["font"], case["sizes"], case.get("mode", "set")
    a24 = case.get("a24") or pair_alphabet(0)
    cnt = {k: 0 for k in ("calls", "strings", "name-vs-number", "monotone-steps", "scaling-pairs", "scaling-violations",
                          "mono-checks", "kerned-or-ligated", "empty", "zero-width-nonempty")}
    viol = []
    strings = []
    for h in case["heads"]:
        strings += strings_for(h, mode, a24)
    strings = list(dict.fromkeys(strings))       # chains share prefixes
    W = measure(font, sizes, strings, cnt, viol, both=case.get("both", True), both_maxlen=case.get("name_maxlen", 3))
    if W is None:
        return {"viol": viol, "nt": False, "cnt": cnt}
    if case.get("digest_only"):
        # determinism re-evaluation: the oracle already ran on the identical batch; only the measurements are compared
        return {"viol": viol, "nt": False, "cnt": {"calls": cnt["calls"]}, "pid": os.getpid(),
                "digest": hashlib.md5(repr([W[s, z] for z in sizes for s in [""] + strings]).encode()).hexdigest()}
    cnt["strings"] = len(strings)
    if mode == "prefix-chains":
        cnt["markup-strings"] = len(strings)
        cnt["markup-chains"] = len(case["heads"])
    zmax = max(sizes)
    for z in sizes:
        cnt["empty"] += 1
        if W["", z] != 0:
            viol.append({"klass": None, "sig": f"empty-nonzero-font{font}", "detail": f"width('') = {W['', z]!r} for font {font} at {z} pt"})
        A = W["M", z] if (MONO == font and ("M", z) in W) else None
        if font == MONO and A is None:
            A = gsw()("M", font, z, "px")
            cnt["calls"] += 1
        for s in strings:
            v = W[s, z]
            if not (v >= 0):
                viol.append({"klass": None, "sig": f"negative-font{font}", "detail": f"width({s!r}) = {v!r} for font {font} at {z} pt"})
            if v == 0:
                cnt["zero-width-nonempty"] += 1
            p = s[:-1]
            cnt["monotone-steps"] += 1
            if v < W[p, z]:
                viol.append({"klass": None, "sig": f"append-decreases-font{font}",
                             "detail": f"font {font} at {z} pt: width({s!r}) = {v!r} < width({p!r}) = {W[p, z]!r}"})
            if font == MONO:
                cnt["mono-checks"] += 1
                if abs(v - len(s) * A) > 1e-9 * max(1.0, abs(v)):
                    viol.append({"klass": None, "sig": "monospace-not-count-times-advance",
                                 "detail": f"font 9 at {z} pt: width({s!r}) = {v!r} but {len(s)} x advance {A!r} = {len(s) * A!r}"})
            if z == zmax and len(s) == 2 and mode == "set":
                # vacuity guard: the pair alphabet really exercises kerning / ligatures (pair width != sum of the singles)
                if (s[1], z) not in W:
                    W[s[1], z] = gsw()(s[1], font, z, "px")
                    cnt["calls"] += 1
                if round(v * 64) != round(W[s[0], z] * 64) + round(W[s[1], z] * 64):
                    cnt["kerned-or-ligated"] += 1
    # size scaling: every pair of sizes, every string
    npairs = len(sizes) * (len(sizes) - 1) // 2
    worst = None
    for s in strings:
        r = [W[s, z] / z for z in sizes]
        hi, lo = max(r), min(r)
        cnt["scaling-pairs"] += npairs
        if hi - lo <= 0.01 * hi:
            continue        # then every pair (a, b) satisfies |r_a - r_b| <= 1% of max(r_a, r_b)
        terms = None
        for (ia, a), (ib, b) in itertools.combinations(enumerate(sizes), 2):
            d, m = abs(r[ia] - r[ib]), max(r[ia], r[ib])
            if d <= 0.01 * m:
                continue
            cnt["scaling-violations"] += 1
            if terms is None:
                terms = rounded_terms(s, font, cnt)
            klass = FINDING_QUANT if quantisation_explains(a, W[s, a], b, W[s, b], terms) else None
            rel = d / m
            if worst is None or rel > worst[0]:
                worst = (rel, s, a, b)
            viol.append({"klass": klass, "sig": f"size-scaling-font{font}" + ("" if klass is None else "-quantised"),
                         "detail": f"font {font}: width({s!r}) = {W[s, a] * 64:.0f}/64 px at {a} pt and {W[s, b] * 64:.0f}/64 px at {b} pt: "
                                   f"per-point widths differ by {100 * rel:.2f} % (> 1 %); {terms} rounded term(s) allow "
                                   f"{terms / 128 * (1 / a + 1 / b):.5f} px/pt, observed {d:.5f} px/pt"})
    digest = hashlib.md5(repr([W[s, z] for z in sizes for s in [""] + strings]).encode()).hexdigest()
    out = {"viol": viol, "nt": True, "cnt": cnt, "digest": digest, "pid": os.getpid()}
    if case["heads"] == ["A"] and mode == "set" and ("AV", zmax) in W:
        out["sample"] = {"font": font, "name": FONT_NAMES[font], "width_px_of_AV_by_size": {str(z): W["AV", z] for z in sizes[:6]},
                         "A_plus_V_at_largest": W["A", zmax] + W["V", zmax], "AV_at_largest": W["AV", zmax]}
    elif worst and len(case["heads"]) == 1:
        out["sample"] = {"font": font, "string": worst[1], "sizes": [worst[2], worst[3]], "relative_difference": round(worst[0], 5),
                         "width_px": [W[worst[1], worst[2]], W[worst[1], worst[3]]]}
    return out


def eval_units(case: dict) -> dict:
    w = gsw()
    font, z = case["font"], case["size"]
    cnt = {"calls": 0, "unit-triples": 0, "empty": 0}
    viol = []
    fonts = [font, FONT_NAMES[font]]
    try:
        for f in fonts:
            for dpi in case["dpi"]:
                for s in (case["strings"] if f == font else case["strings"][:case.get("name_strings", len(case["strings"]))]):
                    vin, vmm, vpx = (w(s, f, z, u, dpi) for u in UNITS)
                    cnt["calls"] += 3
                    cnt["unit-triples"] += 1
                    if s == "":
                        cnt["empty"] += 1
                        if (vin, vmm, vpx) != (0, 0, 0):
                            viol.append({"klass": None, "sig": "empty-nonzero-unit", "detail": f"width('') = {(vin, vmm, vpx)} (in, mm, px) font {f!r} {z} pt dpi {dpi}"})
                        continue
                    if min(vin, vmm, vpx) < 0:
                        viol.append({"klass": None, "sig": "negative-unit", "detail": f"{(vin, vmm, vpx)} for {s!r} font {f!r} {z} pt dpi {dpi}"})
                    if abs(vmm - vin * 25.4) > 1e-12 * abs(vmm):
                        viol.append({"klass": None, "sig": "mm-is-not-in-times-25.4",
                                     "detail": f"{s!r} font {f!r} {z} pt dpi {dpi}: mm = {vmm!r}, in = {vin!r}, in*25.4 = {vin * 25.4!r}"})
                    if abs(vpx - vin * dpi) > 1e-12 * abs(vpx):
                        viol.append({"klass": None, "sig": "px-is-not-in-times-dpi",
                                     "detail": f"{s!r} font {f!r} {z} pt dpi {dpi}: px = {vpx!r}, in = {vin!r}, in*dpi = {vin * dpi!r}"})
    except Exception as e:  # noqa: BLE001
        viol.append({"klass": None, "sig": f"raised-{type(e).__name__}",
                     "detail": f"get_string_width({s!r}, {f!r}, {z}, unit, {dpi}) raised {type(e).__name__}: {e}"})
    return {"viol": viol, "nt": True, "cnt": cnt}


def eval_errors(case: dict) -> dict:
    """One invalid font or unit, every combination of the other (valid) arguments."""
    w = gsw()
    cnt = {"calls": 0, "rejected-ValueError": 0, "error-twin-ok": 0}
    viol = []
    texts = ["", "x", "AV α"]

    def call(what, *args):
        cnt["calls"] += 1
        try:
            v = w(*args)
        except ValueError:
            cnt["rejected-ValueError"] += 1
            return
        except Exception as e:  # noqa: BLE001
            viol.append({"klass": None, "sig": f"{what}-raised-{type(e).__name__}",
                         "detail": f"get_string_width{args!r} raised {type(e).__name__}: {e} - not a ValueError"})
            return
        viol.append({"klass": None, "sig": f"{what}-accepted", "detail": f"get_string_width{args!r} returned {v!r} instead of raising ValueError"})

    def twin(*args):
        cnt["calls"] += 1
        try:
            v = w(*args)
            if isinstance(v, (int, float)) and v >= 0:
                cnt["error-twin-ok"] += 1
                return
            viol.append({"klass": None, "sig": "valid-call-bad-result", "detail": f"get_string_width{args!r} returned {v!r}"})
        except Exception as e:  # noqa: BLE001
            viol.append({"klass": None, "sig": f"raised-{type(e).__name__}", "detail": f"valid call get_string_width{args!r} raised {type(e).__name__}: {e}"})

    if "bad_font" in case:
        for t in texts:
            for z in case["sizes"]:
                for u in UNITS:
                    for dpi in (72, 300):
                        call("unsupported-font", t, case["bad_font"], z, u, dpi)
                        twin(t, 1, z, u, dpi)
    else:
        for t in texts:
            for fnum, fname in FONT_NAMES.items():
                for f in (fnum, fname):
                    for z in case["sizes"]:
                        call("unsupported-unit", t, f, z, case["bad_unit"], 72)
                        twin(t, f, z, "in", 72)
    return {"viol": viol, "nt": True, "cnt": cnt}



# --------------------------------------------------------------------------- call histories and calling thread
# get_string_width is specified as a function of its arguments.  Whatever it keeps between calls (an opened font, the last
# request) and whichever thread calls it are part of the environment: the clauses must hold for every call HISTORY and on
# every THREAD.  Histories: all sequences of length <= 3 over {I, V1, V2} that contain the invalid request I (V1 shares its
# size with I, V2 does not); every I must raise ValueError, every V must return one and the same value in all histories.


def _outcome(fn):
    try:
        return ("ok", fn())
    except ValueError:
        return ("ValueError", None)
    except Exception as e:  # noqa: BLE001
        return ("other:" + type(e).__name__, str(e)[:120])


def eval_history(case: dict) -> dict:
    w = gsw()
    cnt = {"calls": 0, "histories": 0, "history-invalid-calls": 0, "history-valid-calls": 0}
    viol = []
    z = case["size"]
    inv, what = None, "valid-only"
    if case.get("valid_only"):
        req = {"V1": ("x", 1, z, "in", 72), "V2": ("x", "Arial", z, "in", 72), "V3": ("x", 1, z + 3, "px", 72), "V4": ("AV", 9, z, "mm", 300)}
    else:
        if "bad_font" in case:
            inv, what = ("x", case["bad_font"], z, "in", 72), "unsupported-font"
        else:
            inv, what = ("x", case["font"], z, case["bad_unit"], 72), "unsupported-unit"
        req = {"I": inv, "V1": ("x", case.get("font", 4), z, "in", 72), "V2": ("AV", 8 if case.get("font", 4) != 8 else 1, z + 3, "mm", 96)}
    seen = {k: set() for k in req if k != "I"}
    for n in (1, 2, 3):
        for hist in itertools.product(sorted(req), repeat=n):
            if "I" in req and "I" not in hist:
                continue
            cnt["histories"] += 1
            for step, r in enumerate(hist):
                out = _outcome(lambda: w(*req[r]))
                cnt["calls"] += 1
                if r == "I":
                    cnt["history-invalid-calls"] += 1
                    if out[0] != "ValueError":
                        got = f"returned {out[1]!r}" if out[0] == "ok" else f"raised {out[0][6:]}: {out[1]}"
                        viol.append({"klass": None, "sig": f"{what}-{'accepted' if out[0] == 'ok' else 'wrong-exception'}-after-history",
                                     "detail": f"history {'.'.join(hist)} with I = get_string_width{inv!r}, V1 = {req.get('V1')!r}, V2 = {req.get('V2')!r}: "
                                               f"call {step + 1} (I) {got} instead of raising ValueError"})
                else:
                    cnt["history-valid-calls"] += 1
                    if out[0] != "ok":
                        viol.append({"klass": None, "sig": "valid-call-fails-after-history",
                                     "detail": f"history {'.'.join(hist)}: call {step + 1} get_string_width{req[r]!r} -> {out[0]} {out[1] or ''}"})
                    else:
                        seen[r].add(out[1])
    for r, vals in seen.items():
        if len(vals) > 1:
            viol.append({"klass": None, "sig": "valid-call-depends-on-history",
                         "detail": f"get_string_width{req[r]!r} returned {sorted(vals)!r} depending on the calls made before it"})
    return {"viol": viol[:50], "nt": True, "cnt": cnt}


def eval_threads(case: dict) -> dict:
    """The same requests from the worker's main thread, from a freshly started thread and from a second fresh thread."""
    import threading
    w = gsw()
    font = case["font"]
    reqs = []
    if font is not None:
        for f in (font, FONT_NAMES[font]):
            for z in case["sizes"]:
                for u in UNITS:
                    for t in ("", "x", "AV \u03b1"):
                        reqs.append((t, f, z, u, 96))
    else:
        reqs = [("x", b, 9, "in", 72) for b in BAD_FONTS] + [("x", 1, 9, u, 72) for u in BAD_UNITS] + [("x", "Arial", 9, u, 72) for u in BAD_UNITS]

    def run_all(out):
        out.extend(_outcome(lambda r=r: w(*r)) for r in reqs)

    results = {"main": []}
    run_all(results["main"])
    for name in ("thread-1", "thread-2"):
        results[name] = []
        t = threading.Thread(target=run_all, args=(results[name],), name="c20-" + name)
        t.start()
        t.join()
    cnt = {"calls": 3 * len(reqs), "thread-requests": len(reqs), "thread-comparisons": 2 * len(reqs)}
    viol = []
    for name in ("thread-1", "thread-2"):
        for r, a, b in zip(reqs, results["main"], results[name]):
            if a != b:
                viol.append({"klass": None, "sig": f"result-differs-on-other-thread-{b[0].split(':')[-1] if b[0] != 'ok' else 'value'}",
                             "detail": f"get_string_width{r!r}: main thread -> {a}, freshly started {name} -> {b}"})
        if len(results[name]) != len(reqs):
            viol.append({"klass": None, "sig": "thread-did-not-finish", "detail": f"{name} produced {len(results[name])} of {len(reqs)} results"})
    if font is None:
        for r, a in zip(reqs, results["main"]):
            if a[0] != "ValueError":
                viol.append({"klass": None, "sig": "unsupported-accepted", "detail": f"get_string_width{r!r} -> {a}"})
    return {"viol": viol[:50], "nt": True, "cnt": cnt}


def eval_case(case: dict) -> dict:
    k = case.get("k", "metric")
    if k == "history":
        return eval_history(case)
    if k == "threads":
        return eval_threads(case)
    if k == "units":
        return eval_units(case)
    if k == "errors":
        return eval_errors(case)
    return eval_metric(case)


# --------------------------------------------------------------------------- enumeration


def metric_cases(sizes, a24, fonts=None, digest_only=False, name_maxlen=3):
    cases = []
    others = [c for c in ALL if c not in a24]
    for font in (fonts or sorted(FONT_NAMES)):
        extra = {"a24": a24}
        if name_maxlen != 3:
            extra["name_maxlen"] = name_maxlen     # spell the font by name only for strings up to this length
        if digest_only:
            extra["digest_only"] = True
            extra["both"] = False
        for h in a24:
            cases.append({"font": font, "sizes": sizes, "heads": [h], **extra})
        for i in range(0, len(others), 30):
            cases.append({"font": font, "sizes": sizes, "heads": others[i:i + 30], **extra})
    return cases


def plan(run):
    thorough = run.tier != "quick"
    a24 = pair_alphabet(0 if thorough else run.seed)
    assert len(set(a24)) == 24 and len(ALL) == 260 and len(set(ALL)) == 260
    sizes = THOROUGH_SIZES if thorough else QUICK_SIZES
    dpis = THOROUGH_DPI if thorough else QUICK_DPI
    run.rule = ("strings = 260 singles + 24^2 pairs + 8^3 triples" + (" + all 260^2 pairs (at the 12 design sizes, by number)" if thorough else "")
                + f"; x 10 fonts by number and by name" + ("" if thorough else " (triples by number only)") + f" x {len(sizes)} sizes {sizes[0]}..{sizes[-1]} incl. sizes that are not multiples of 0.5 pt; "
                f"strings in the syntax of the library's other layers ({sum(len(v) for v in MARKUP.values())} LaTeX-command / conversion-token / RTF / "
                f"page-field strings, each with all its prefixes) x 10 fonts by number and by name x {len(sizes if thorough else MARKUP_QUICK_SIZES)} sizes; "
                f"unit clause on ('' + 24 singles + 16 pairs + {len(MARKUP_UNIT_STRINGS)} markup strings) x "
                f"10 fonts (by number; by name on " + ("all of them" if thorough else "'' + 8 singles") + f") x {len(DESIGN_SIZES)} sizes x 3 units x {len(dpis)} dpi; error clause: {len(BAD_FONTS)} bad fonts and "
                f"{len(BAD_UNITS)} bad units x all valid other arguments. The pair alphabet is " + repr("".join(a24))
                + (" (10 of its members rotated by VERIF_SEED)" if not thorough else "")
                + ". one evaluation = one batch (font x head characters x all sizes); coverage.calls counts get_string_width calls. "
                "non-trivial = every batch (all strings are non-empty except the explicit '' probes); distinct = distinct batch")
    run.assumptions = [
        "unit clause is per dpi: in, mm and px of the SAME call arguments are conversions of one another (no relation across dpi is stated)",
        "the single-character advance of the monospaced font is taken from 'M'; every string, including every single character, must equal len x that advance",
        "'appending never decreases' is checked for every string of the set against its one-shorter prefix",
        "size scaling is checked for every pair of sizes of the size set (not only against a reference size)",
        "the clauses hold for every call history and on every thread: an unsupported font / unit raises ValueError however often and after "
        "whatever it is requested (all histories of length <= 3 over {invalid, valid same size, valid other size}), a valid request returns "
        "the same value after every history, and a freshly started thread gets the results of the main thread",
        "get_string_width measures its argument as literal text: LaTeX-style commands, ^ _ >= <=, RTF control words and page-field keywords are "
        "characters like any others (the property states the clauses for strings, not for rendered markup)",
    ]
    digests = {}

    def remember(r):
        if "digest" in r:
            c = r["_case"]
            digests[(c["font"], "".join(c["heads"]))] = (r["digest"], r.get("pid"))

    nml = 3 if thorough else 2    # quick: triples by number only (the name -> file lookup does not depend on the string)
    mcases = metric_cases(sizes, a24, name_maxlen=nml)
    run.layer("metric-relations", "mc.props.c20:eval_case", mcases, chunk=1, total=len(mcases), max_samples=3, on_result=remember)
    if thorough:
        # by number only: the name -> file lookup does not depend on the string (it is covered on the whole set above)
        fcases = [{"font": f, "sizes": DESIGN_SIZES, "heads": [h], "mode": "full-pairs", "both": False} for f in sorted(FONT_NAMES) for h in ALL]
        run.layer("all-pairs-260x260", "mc.props.c20:eval_case", fcases, chunk=2, total=len(fcases), max_samples=1)
    # strings in the syntax of the library's other layers, each with all its prefixes
    msizes = sizes if thorough else MARKUP_QUICK_SIZES
    kcases = [{"font": f, "sizes": msizes, "heads": heads, "mode": "prefix-chains", "name_maxlen": 99, "group": g}
              for f in sorted(FONT_NAMES) for g, heads in MARKUP.items()]
    run.layer("library-syntax-as-literal-text", "mc.props.c20:eval_case", kcases, chunk=1, total=len(kcases), max_samples=1)
    ustrings = [""] + a24 + [a + b for a in A8[:4] for b in A8[4:]] + MARKUP_UNIT_STRINGS
    # quick: by name only on '' and the 8 core singles (the conversion code does not depend on the string)
    ucases = [{"k": "units", "font": f, "size": z, "dpi": dpis, "strings": ustrings, **({} if thorough else {"name_strings": 9})} for f in sorted(FONT_NAMES) for z in DESIGN_SIZES]
    run.layer("units-x-dpi", "mc.props.c20:eval_case", ucases, chunk=1, total=len(ucases))
    ecases = [{"k": "errors", "bad_font": b, "sizes": [4, 9.5, 48]} for b in BAD_FONTS]
    ecases += [{"k": "errors", "bad_unit": u, "sizes": [4, 9.5, 48]} for u in BAD_UNITS]
    run.layer("unsupported-font-or-unit", "mc.props.c20:eval_case", ecases, chunk=1, total=len(ecases))
    # call histories: every invalid request repeated / interleaved with valid ones; valid requests in every order
    hcases = [{"k": "history", "bad_font": b, "size": z} for b in BAD_FONTS for z in (9, 10.8)]
    hcases += [{"k": "history", "bad_unit": u, "font": f, "size": 9} for u in BAD_UNITS for f in (4, "Cambria")]
    hcases += [{"k": "history", "valid_only": True, "size": z} for z in (4, 9, 24)]
    run.layer("call-histories", "mc.props.c20:eval_case", hcases, chunk=4, total=len(hcases))
    # calling thread: the same slice from the main thread and from two freshly started threads
    tcases = [{"k": "threads", "font": f, "sizes": [4, 9.5, 13.3]} for f in sorted(FONT_NAMES)] + [{"k": "threads", "font": None}]
    run.layer("other-threads", "mc.props.c20:eval_case", tcases, chunk=2, total=len(tcases))
    # determinism (DESIGN section 3): re-measure in another worker process, compare digests
    fonts = sorted(FONT_NAMES) if thorough else [1 + run.seed % 10]
    rcases = list(reversed(metric_cases(QUICK_SIZES if thorough else sizes, a24, fonts=fonts, digest_only=True)))
    if thorough:
        first = {}
        run.layer("determinism-first", "mc.props.c20:eval_case", list(reversed(rcases)), chunk=1, total=len(rcases), max_samples=0,
                  on_result=lambda r: first.__setitem__((r["_case"]["font"], "".join(r["_case"]["heads"])), (r.get("digest"), r.get("pid"))))
        base = first
    else:
        base = digests
    stats = {"same": 0, "other-worker": 0}

    def compare(r):
        c = r["_case"]
        k = (c["font"], "".join(c["heads"]))
        if "digest" not in r or k not in base:
            return
        d0, p0 = base[k]
        stats["same"] += d0 == r["digest"]
        stats["other-worker"] += p0 != r.get("pid")
        if d0 != r["digest"]:
            run.add_violation(None, f"font {c['font']} heads {c['heads']!r}: two evaluations of the same batch gave different widths", c,
                              "nondeterministic-width", "determinism")

    run.layer("determinism-re-evaluation", "mc.props.c20:eval_case", rcases, chunk=1, total=len(rcases), max_samples=0, on_result=compare)
    run.cnt["determinism-batches-equal"] = stats["same"]
    run.cnt["determinism-batches-in-other-worker"] = stats["other-worker"]
    run.extra["calls"] = run.cnt.get("calls", 0)
    run.extra["pair_alphabet"] = "".join(a24)
    need = ["markup-strings", "markup-chains", "calls", "strings", "name-vs-number", "monotone-steps", "scaling-pairs", "mono-checks", "kerned-or-ligated", "empty",
            "unit-triples", "rejected-ValueError", "error-twin-ok", "determinism-batches-equal", "histories", "history-invalid-calls",
            "history-valid-calls", "thread-comparisons"]
    if run.workers > 1:
        need.append("determinism-batches-in-other-worker")
    for n in need:
        if not run.cnt.get(n):
            run.harness_errors.append({"layer": "vacuity", "case": None, "error": f"counter {n} is zero"})

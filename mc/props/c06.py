"""C06 - titles, headers, footnotes and sources on exactly the configured pages.

Space (exhaustive): page_title x page_footnote x page_source x footnote{absent,table,para}
x source{...} x pageby_header x strategy{plain,page_by,subline_by} x header{explicit,default,none};
placements x footnote/source modes x {page_by new_page (first_row / column), two page_by levels, subline_by + page_by}
x page-count class {1 page, 2, 3, many}; radius-<=2 ball over orientation / paper / margins /
page header / page footer around every placement anchor; figure documents 1..4 figures x
placement^3 x caption presence.
Oracle: ordered role list per parsed page + geometry restated after every \\page.
"""
from __future__ import annotations

import itertools
import os

from ..rtfreader.reader import parse
from ..spec import docspec
from ..spec.figures import make_png

PID = "C06"
LEVEL = "exploration"
TECHNIQUE = "bounded exhaustive enumeration of the placement/configuration product on the real encoder; per-page role/geometry oracle on the re-parsed RTF"

PLACE = ("first", "last", "all")
ORDER = {"title": 0, "subline": 1, "subline_by": 2, "header": 3, "group": 4, "data": 4,
         "footnote_table": 5, "footnote_para": 5, "source_table": 6, "source_para": 6}
GEOM = ("paperw", "paperh", "margl", "margr", "margt", "margb", "headery", "footery")

PORTRAIT_MARGIN = [1.25, 1, 1.75, 1.25, 1.75, 1.00625]
LANDSCAPE_MARGIN = [1.0, 1.0, 2, 1.25, 1.25, 1.25]


def selected(option: str, i: int, n: int) -> bool:
    return option == "all" or (option == "first" and i == 0) or (option == "last" and i == n - 1)


def expected_geometry(page_kw: dict):
    orient = page_kw.get("orientation", "portrait")
    w = page_kw.get("width") or (8.5 if orient == "portrait" else 11)
    h = page_kw.get("height") or (11 if orient == "portrait" else 8.5)
    m = page_kw.get("margin") or (PORTRAIT_MARGIN if orient == "portrait" else LANDSCAPE_MARGIN)
    vals = [w, h] + list(m)
    return dict(zip(GEOM, [v * 1440 for v in vals])), orient == "landscape"


def check_geometry(doc, page_kw, viol, is_fig=False):
    exp, landscape = expected_geometry(page_kw)
    for pi, pg in enumerate(doc.pages):
        got = {}
        for k, v in pg.geometry:
            if k in GEOM:
                if k in got:
                    viol.append({"klass": None, "sig": "geometry-restated-twice", "detail": f"page {pi + 1}: \\{k} given twice"})
                got[k] = v
        if is_fig and pi > 0 and not got:
            # narrow class: a figure page break that restates nothing at all
            viol.append({"klass": "figure-page-break-restates-nothing", "sig": "figure-page-break-restates-nothing",
                         "detail": f"page {pi + 1}: figure document page break is a bare \\page without paper size / margins"})
            continue
        for k in GEOM:
            if k not in got:
                viol.append({"klass": None, "sig": f"geometry-missing-{k}-{'start' if pi == 0 else 'break'}",
                             "detail": f"page {pi + 1}: \\{k} not stated {'at document start' if pi == 0 else 'after the page break'}"})
            elif abs(got[k] - exp[k]) > 0.5 + 1e-6:
                where = "start" if pi == 0 else "break"
                # narrow class: the break block truncates inches*1440 where the start rounds
                klass = ("page-break-truncates-paper-size" if pi > 0 and k in ("paperw", "paperh")
                         and got[k] == int(exp[k] + 1e-9) else None)
                viol.append({"klass": klass, "sig": f"geometry-{where}-{k}",
                             "detail": f"page {pi + 1}: \\{k}{got[k]} but configured {exp[k] / 1440:.5g} in = {exp[k]:.1f} twips"})
        if pi == 0:
            has_l = any(k == "landscape" for k, _ in pg.geometry)
            if has_l != landscape:
                viol.append({"klass": None, "sig": "landscape-flag", "detail": f"\\landscape present={has_l}, orientation landscape={landscape}"})
        if pi > 0 and pg.break_offset is None:
            viol.append({"klass": None, "sig": "page-without-break", "detail": f"page {pi + 1}"})


def page_roles(pg):
    roles = []
    for b in pg.blocks:
        r, info = docspec.block_role(b)
        if r in ("blank",):
            continue
        roles.append((r, info))
    return roles


def eval_case(case: dict) -> dict:
    spec = dict(case)
    fig_files = None
    if spec.get("kind") == "figure":
        wd = os.path.join(docspec.repo.VERIF, ".work", f"c06-{os.getpid()}")
        os.makedirs(wd, exist_ok=True)
        fig_files = []
        for i in range(spec["nfig"]):
            p = os.path.join(wd, f"f{i}.png")
            if not os.path.exists(p):
                with open(p, "wb") as f:
                    f.write(make_png(3 + i, 2 + i, bytes([i]) * 7))
            fig_files.append(p)
        spec["figures"] = fig_files
    viol = []
    try:
        b = docspec.build(spec)
        out = b.doc.rtf_encode()
    except Exception as e:
        return {"viol": [{"klass": "encode-raised", "sig": f"encode-raised-{type(e).__name__}",
                          "detail": f"{type(e).__name__}: {e}"}], "nt": False}
    doc = parse(out)
    if doc.errors:
        viol.append({"klass": None, "sig": "unparseable-" + doc.errors[0][0], "detail": str(doc.errors[:3])})
    n = len(doc.pages)
    pk = spec.get("page") or {}
    pt, pf, ps = pk.get("page_title", "all"), pk.get("page_footnote", "last"), pk.get("page_source", "last")
    is_fig = spec.get("kind") == "figure"
    hm = spec.get("header", "default")
    want_header_pages = set()
    if not is_fig and hm != "none":
        want_header_pages = set(range(n)) if spec.get("pageby_header", True) else {0}
    n_title_lines = spec.get("title", 1)
    pages_summary = []
    for pi, pg in enumerate(doc.pages):
        roles = page_roles(pg)
        names = [r for r, _ in roles]
        pages_summary.append(names)
        # order
        ranks = [ORDER[r] for r in names if r in ORDER]
        if ranks != sorted(ranks):
            viol.append({"klass": None, "sig": "order", "detail": f"page {pi + 1}/{n}: component order {names}"})
        other = [info for r, info in roles if r in ("other", "row_other")]
        if other:
            viol.append({"klass": None, "sig": "unidentified-block", "detail": f"page {pi + 1}/{n}: {other[:2]}"})

        def count(*rs):
            return sum(1 for r in names if r in rs)

        def expect(present, what, *rs, klass=None):
            c = count(*rs)
            if present and c != 1:
                viol.append({"klass": klass, "sig": f"{what}-{'missing' if c == 0 else 'repeated'}",
                             "detail": f"page {pi + 1}/{n}: {what} expected once (option selects this page) but found {c}x; page has {names}"})
            if not present and c != 0:
                viol.append({"klass": klass, "sig": f"{what}-unexpected",
                             "detail": f"page {pi + 1}/{n}: {what} found {c}x on a page its option does not select; page has {names}"})

        expect(bool(n_title_lines) and selected(pt, pi, n), "title", "title")
        expect(bool(spec.get("subline")) and selected(pt, pi, n), "subline", "subline",
               klass="figure-subline-first-page-only" if is_fig and n > 1 and pt != "first" else None)
        fn, src = spec.get("footnote"), spec.get("source")
        expect(bool(fn) and selected(pf, pi, n), "footnote", "footnote_table", "footnote_para")
        expect(bool(src) and selected(ps, pi, n), "source", "source_table", "source_para")
        if fn:
            wrong = "footnote_para" if fn.startswith("table") and not is_fig else "footnote_table"
            if count(wrong):
                viol.append({"klass": None, "sig": "footnote-render-mode", "detail": f"page {pi + 1}: footnote rendered as {wrong} but configured {fn}"})
        if src:
            wrong = "source_para" if src.startswith("table") else "source_table"
            if count(wrong):
                viol.append({"klass": None, "sig": "source-render-mode", "detail": f"page {pi + 1}: source rendered as {wrong} but configured {src}"})
        if not is_fig:
            nh = count("header")
            exp_rows = {"default": 1, "explicit": 1, "two": 2, "none": 0}[hm] if pi in want_header_pages else 0
            if nh != exp_rows:
                viol.append({"klass": None, "sig": f"column-header-{'missing' if nh < exp_rows else 'unexpected'}",
                             "detail": f"page {pi + 1}/{n}: {nh} column-header row(s), expected {exp_rows} (pageby_header={spec.get('pageby_header', True)}, header={hm})"})
            if count("data") == 0 and spec.get("n", 3) > 0:
                viol.append({"klass": None, "sig": "page-without-data", "detail": f"page {pi + 1}/{n} has no data row: {names}"})
            if spec.get("subline_by") and count("data") > 0:  # an empty table has no group to name
                expect(True, "subline_by heading", "subline_by")
        else:
            if count("pict") != 1:
                viol.append({"klass": None, "sig": "figure-count-per-page", "detail": f"page {pi + 1}/{n}: {count('pict')} pictures"})
    if is_fig and n != spec["nfig"]:
        viol.append({"klass": None, "sig": "figure-page-count", "detail": f"{spec['nfig']} figures on {n} pages"})
    check_geometry(doc, pk, viol, is_fig)
    # page header / footer destinations
    for what, conf, got in (("header", spec.get("page_header"), doc.headers), ("footer", spec.get("page_footer"), doc.footers)):
        exp = 1 if conf else 0
        if len(got) != exp:
            viol.append({"klass": None, "sig": f"page-{what}-count", "detail": f"{len(got)} \\{what} destinations, expected {exp}"})
        elif exp:
            t = "".join(p.text for p in got[0])
            want = "Page" if conf == "default" else ("PH" if what == "header" else "PF")
            if want not in t:
                viol.append({"klass": None, "sig": f"page-{what}-text", "detail": repr(t)})
    cls = "1" if n == 1 else "2" if n == 2 else "3" if n == 3 else "many"
    return {"viol": viol, "nt": n >= 2 or bool(fn or src), "cnt": {f"pages={cls}": 1, "fig" if is_fig else "table": 1},
            "sample": {"pages": pages_summary} if n == 2 and fn and src else None} if True else {}


def eval_multi(case: dict) -> dict:
    """Multi-section documents (df=[...], one RTFBody per section; sections restart their page numbering and one renderer
    object serves all of them).  The property's quantifier does not list them and the pinned code shows title / subline
    on the first page only whatever page_title says, so only the part of the statement that the unchanged tree satisfies
    AND that follows from the statement for any document is judged: footnote and source are present on every page their
    option selects (all: every page, first: page 1, last: the last page), a configured title / subline is somewhere, and
    the component order holds inside every section block.  Presence is a lower bound - repeated sources inside a page
    that holds two sections are not judged."""
    spec = dict(case)
    try:
        out = docspec.build(spec).doc.rtf_encode()
    except Exception as e:
        return {"viol": [{"klass": "encode-raised", "sig": f"multi-encode-raised-{type(e).__name__}", "detail": f"{type(e).__name__}: {e}"}], "nt": False}
    doc = parse(out)
    viol = []
    if doc.errors:
        viol.append({"klass": None, "sig": "multi-unparseable-" + doc.errors[0][0], "detail": str(doc.errors[:3])})
    per = [[r for r, _ in page_roles(pg)] for pg in doc.pages]
    n = len(per)
    pk = spec["page"]
    for what, opt, rs, conf in (("title", pk["page_title"], ("title",), spec.get("title")), ("subline", pk["page_title"], ("subline",), spec.get("subline")),
                                ("footnote", pk["page_footnote"], ("footnote_table", "footnote_para"), spec.get("footnote")),
                                ("source", pk["page_source"], ("source_table", "source_para"), spec.get("source"))):
        cs = [sum(1 for r in names if r in rs) for names in per]
        if not conf:
            if sum(cs):
                viol.append({"klass": None, "sig": f"multi-{what}-unexpected", "detail": f"{what} not configured but found {cs}"})
            continue
        if sum(cs) == 0:
            viol.append({"klass": None, "sig": f"multi-{what}-absent", "detail": f"{what} configured ({opt}) but absent from all {n} pages; sections {[x['n'] for x in spec['sections']]}"})
        elif what in ("footnote", "source"):
            want = [i for i in range(n) if selected(opt, i, n)]
            miss = [i + 1 for i in want if cs[i] == 0]
            if miss:
                viol.append({"klass": None, "sig": f"multi-{what}-missing-on-selected-page", "detail": f"{what} ({opt}) missing on page(s) {miss} of {n}; per page {cs}"})
    return {"viol": viol, "nt": n >= 2, "cnt": {"multi-section": 1, f"multi-pages={'1' if n == 1 else '2' if n == 2 else 'many'}": 1}}


# --------------------------------------------------------------------------- enumeration

STRATS = {
    "plain": {},
    "page_by": lambda n: {"page_by": [[r * 2 // max(n, 1) for r in range(n)]]},
    "subline_by": lambda n: {"subline_by": [[r * 2 // max(n, 1) for r in range(n)]]},
    # forced page starts inside the document: every group ends on a page of its own that is NOT the last page
    "page_by_newpage_firstrow": lambda n: {"page_by": [[r * 3 // max(n, 1) for r in range(n)]], "new_page": True, "pageby_row": "first_row"},
    "page_by_newpage_column": lambda n: {"page_by": [[r * 3 // max(n, 1) for r in range(n)]], "new_page": True, "pageby_row": "column"},
    "page_by2": lambda n: {"page_by": [[r * 2 // max(n, 1) for r in range(n)], [r * 4 // max(n, 1) for r in range(n)]]},
    "subline_by+page_by": lambda n: {"subline_by": [[r * 2 // max(n, 1) for r in range(n)]], "page_by": [[r * 4 // max(n, 1) for r in range(n)]]},
}
MORE_STRATS = ("page_by_newpage_firstrow", "page_by_newpage_column", "page_by2", "subline_by+page_by")
# (rows, nrow) chosen so that page counts 1, 2, 3, many all occur for every reservation
SIZES = [(2, 40), (6, 9), (8, 7), (12, 6)]
TINY = [(0, 40), (1, 40), (1, 1)]  # empty and one-row tables: one page, all placement options coincide


def table_spec(pt, pf, ps, fn, src, pbh, strat, hm, size, extra_page=None, **more):
    n, nrow = size
    spec = {"n": n, "cols": ["s", "i"], "title": 1, "subline": True, "footnote": fn, "source": src,
            "pageby_header": pbh, "header": hm,
            "page": {"nrow": nrow, "page_title": pt, "page_footnote": pf, "page_source": ps, **(extra_page or {})}}
    if strat != "plain":
        spec.update(STRATS[strat](n))
    spec.update(more)
    return spec


GEOM_DIMS = {
    "orientation": [None, "landscape"],
    "paper": [None, (8.27, 11.69), (5, 7), (11.69, 8.27)],
    "margin": [None, [1.1, 0.9, 1.3, 0.7, 0.55, 0.45]],
    "page_header": [None, "default", "text"],
    "page_footer": [None, "text"],
}


def geom_variants(radius):
    names = list(GEOM_DIMS)
    seen = []
    for k in range(radius + 1):
        for dims in itertools.combinations(names, k):
            for vals in itertools.product(*[GEOM_DIMS[d][1:] for d in dims]):
                seen.append(dict(zip(dims, vals)))
    return seen


def apply_geom(spec, g):
    spec = dict(spec)
    page = dict(spec["page"])
    if g.get("orientation"):
        page["orientation"] = g["orientation"]
    if g.get("paper"):
        page["width"], page["height"] = g["paper"]
        page["col_width"] = g["paper"][0] - 2.25
    if g.get("margin"):
        page["margin"] = g["margin"]
    spec["page"] = page
    if g.get("page_header"):
        spec["page_header"] = g["page_header"]
    if g.get("page_footer"):
        spec["page_footer"] = g["page_footer"]
    return spec


def plan(run):
    quick = run.tier == "quick"
    run.rule = ("full product of page_title x page_footnote x page_source x footnote mode x source mode x pageby_header x "
                "strategy x header mode x size class; geometry ball radius 2 (quick: around seed-rotated anchors; thorough: all); "
                "figure documents 1..4 x placement^3 x captions. non-trivial = >= 2 pages or a footnote/source present; "
                "distinct = distinct spec")
    run.assumptions = ["the RTF reader (mc/rtfreader) and its role classification by sentinel tags are correct",
                       "\\landscape is required at the document start only (the property says the break restates paper size and margins)"]
    modes = (None, "table", "para")
    core = []
    sizes = SIZES if not quick else SIZES[:3] + [SIZES[3]]
    for pt, pf, ps in itertools.product(PLACE, repeat=3):
        for fn, src in itertools.product(modes, repeat=2):
            for pbh in (True, False):
                for strat in ("plain", "page_by", "subline_by"):
                    for hm in ("explicit", "default", "none"):
                        for size in sizes:
                            if quick and size == SIZES[3] and (strat, hm) != ("plain", "explicit"):
                                continue
                            core.append(table_spec(pt, pf, ps, fn, src, pbh, strat, hm, size))
    for pt, pf, ps in itertools.product(PLACE, repeat=3):
        for fn, src in itertools.product(modes, repeat=2):
            for strat in ("plain", "page_by", "subline_by"):
                for hm in ("explicit", "default", "none"):
                    for size in TINY:
                        core.append(table_spec(pt, pf, ps, fn, src, True, strat, hm, size))
    run.layer("placement-product", "mc.props.c06:eval_case", core, chunk=60, total=len(core))
    more = []
    for pt, pf, ps in itertools.product(PLACE, repeat=3):
        for fn, src in (("table", "para"), ("para", "table"), ("table", "table")) if quick else [m for m in itertools.product(modes, repeat=2) if any(m)]:
            for strat in MORE_STRATS:
                for size in (SIZES[1:3] if quick else SIZES[1:]):
                    more.append(table_spec(pt, pf, ps, fn, src, True, strat, "explicit", size))
    run.layer("placement-x-forced-breaks-and-nested-groups", "mc.props.c06:eval_case", more, chunk=60, total=len(more))
    # geometry ball
    geoms = geom_variants(2)
    anchors = []
    placements = list(itertools.product(PLACE, repeat=3))
    if quick:
        placements = [placements[(run.seed + k * 7) % 27] for k in range(3)]
    for pt, pf, ps in placements:
        for strat in ("plain", "page_by", "subline_by"):
            anchors.append(table_spec(pt, pf, ps, "table", "para", True, strat, "explicit", SIZES[2]))
    gcases = [apply_geom(a, g) for a in anchors for g in geoms if g]
    run.layer("geometry-ball-r2", "mc.props.c06:eval_case", gcases, chunk=40, total=len(gcases))
    # figures
    fcases = []
    for nfig in (1, 2, 3, 4):
        for pt, pf, ps in itertools.product(PLACE, repeat=3):
            for title, sub, fn, src in itertools.product((0, 1), (False, True), (None, "para"), (None, "para")):
                fcases.append({"kind": "figure", "nfig": nfig, "title": title, "subline": sub, "footnote": fn, "source": src,
                               "page": {"page_title": pt, "page_footnote": pf, "page_source": ps}})
    for g in geom_variants(1):
        if g:
            fcases.append(apply_geom({"kind": "figure", "nfig": 3, "title": 1, "subline": False, "footnote": "para", "source": "para",
                                      "page": {}}, g))
    run.layer("figure-documents", "mc.props.c06:eval_case", fcases, chunk=40, total=len(fcases))
    mcases = []
    for sizes in ((8, 2), (2, 8), (8, 8), (2, 2), (8, 2, 2), (2, 8, 2), (12, 2), (2, 12), (16, 3), (16, 16)):
        for pt, pf, ps in itertools.product(PLACE, repeat=3):
            for fn, src in (("table", "para"), ("para", "table")) if quick else (("table", "para"), ("para", "table"), ("table", "table"), ("para", "para")):
                for snp in (None,):  # RTFBody.new_page needs page_by: sections flow on
                    secs = [{"n": k, "cols": ["s", "i"], "header": "explicit", **({"section_new_page": True} if snp else {})} for k in sizes]
                    mcases.append({"kind": "multi", "sections": secs, "title": 1, "subline": True, "footnote": fn, "source": src,
                                   "page": {"nrow": 7, "page_title": pt, "page_footnote": pf, "page_source": ps}})
    run.layer("multi-section-presence", "mc.props.c06:eval_multi", mcases, chunk=40, total=len(mcases))
    for need in ("pages=1", "pages=2", "pages=3", "pages=many"):
        if not run.cnt.get(need):
            run.harness_errors.append({"layer": "vacuity", "case": None, "error": f"no document with {need} was produced"})

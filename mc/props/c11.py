"""C11 - text conversion translates exactly the documented tokens and nothing else.

Oracle: a text-level reference converter written from the property text and the frozen table
data/latex_to_unicode.json.  It scans the *input* string once, left to right:

  * the literal tokens  \\pagenumber \\totalpage \\pagefield >= <= ^ _ newline  are replaced wherever they occur;
  * otherwise a backslash + the longest letter run, together with a brace group that directly follows it in the
    input, is looked up in the table (identity on a miss); table commands that are not of that shape (\\| \\: \\sqrt[3]
    \\sqrt[4]) are supported commands too and are matched literally;
  * every other character is copied.

The result (verbatim source pieces, converted characters, super/sub/line/page markers) is rendered as RTF source and
pushed through the same reader as the real output, so verbatim parts get exactly the RTF reading the real output gets;
the two event lists ('t', text, super, sub) / ('line',) / ('cw', name, param) / ('field', inst) / ('sym', c) must be equal.
How a converted character is *spelled* in RTF (raw ANSI character, \\uN?, \\uc1\\uN*) is not the property's business:
the observed events must equal the expected events for some spelling (they only differ after a stray backslash).

With conversion off the reference converter is the identity.
"""
from __future__ import annotations

import itertools
import json
import os
import re

from ..core import repo
from ..rtfreader.reader import events_plain, parse

PID = "C11"
LEVEL = "exploration"
TECHNIQUE = ("exhaustive enumeration of command x context templates, of all token strings up to a length bound and of component x "
             "text_convert settings on the real encoder; event-level comparison with a text-level reference converter and a frozen table")
LEVEL_TEXT = ("exploration, exhaustive inside stated bounds: all 682 table commands x 14 contexts x on/off, every string of <= 3 (quick) / "
              "<= 4 (thorough) tokens over a 19-token alphabet x on/off, every component kind x {default, on, off} and every per-cell "
              "text_convert matrix of a 2x2 body / 1x2 header / 2-line text component, every row-flag vector on a page_by-segmented body; "
              "no state graph is involved")
LEVEL_NOTE = ("trusted: mc/rtfreader lexer (used for both sides), data/latex_to_unicode.json as the specification of 'supported command', "
              "the documented per-component defaults; strings longer than the bound and characters outside the alphabet are not covered")

TOKENS = ["a", "1", " ", "^", "_", ">=", "<=", "<", ">", "=", "\n", "\\alpha", "\\alphax", "\\mathbb{R}", "\\mathbb{X}",
          "\\pagenumber", "\\totalpage", "\\pagefield", "{x}"]

# <C> = the command; <a> <b> <x> letters, <d> digit, <p> punctuation, <K> another command, <R> content of a brace group
TEMPLATES = [("alone", "<C>"), ("start", "<C> <b>"), ("middle", "<a> <C> <b>"), ("end", "<a> <C>"), ("letter-after", "<C><x>"),
             ("digit-after", "<C><d>"), ("punct-after", "<C><p>"), ("command-after", "<C><K>"), ("command-before", "<K><C>"),
             ("empty-braces-after", "<C>{}"), ("backslash-before", "\\<C>"), ("in-superscript", "<x>^<C>"),
             ("in-subscript", "<x>_<C>"), ("brace-group-after", "<C>{<R>}")]
# filler alphabets; a quick run uses the one selected by the seed, a thorough run all of them
FILLSETS = [{"a": "a", "b": "b", "x": "x", "d": "1", "p": ",", "K": "\\beta", "R": "R"},
            {"a": "p", "b": "q", "x": "e", "d": "7", "p": ";", "K": "\\leq", "R": "C"},
            {"a": "A", "b": "Z", "x": "N", "d": "0", "p": ".", "K": "\\mathbb{N}", "R": "x"}]

# documented defaults of text_convert per component kind (class docstrings / DefaultsFactory comments)
COMPONENT_DEFAULT = {"title": True, "colheader": True, "body": True, "footnote_table": True, "footnote_para": True,
                     "source_table": True, "source_para": True, "page_header": False, "page_footer": False, "subline": False}

PROBES = TOKENS + ["x^2", "a_b", "x >= 1", "p<=0.05", "\\alpha\\beta", "\\mathbb{R}^2", "\\alphax y", "a\nb",
                   "Page \\pagenumber of \\totalpage", "n = \\pagefield", "\\pm 1", "\\alpha_1^2", "a >= b <= c", "\\sqrt{x}",
                   "\\infty{x}", "x^\\alpha_\\beta", "100%", "a;b"]

K_BODY = 9  # strings per body row next to the tag cell

_KEYWORDS = [("\\pagenumber", "PGN"), ("\\totalpage", "TOT"), ("\\pagefield", "NUMP"), (">=", "GE"), ("<=", "LE"),
             ("^", "SUP"), ("_", "SUB"), ("\n", "LINE")]
_MARK_RTF = {"PGN": b"\\chpgn ", "TOT": b"\\totalpage ", "NUMP": b"{\\field{\\*\\fldinst NUMPAGES }}", "SUP": b"\\super ",
             "SUB": b"\\sub ", "LINE": b"\\line "}
_LETTERS = re.compile(r"\\[a-zA-Z]+")
_GROUP = re.compile(r"\{[^}]*\}")
_LEXABLE = re.compile(r"\\[a-zA-Z]+(\{[^}]*\})?")

FLAGS = ("unlexable-command", "blank-after-replacement", "command-before-pagefield")

_TABLE = None
_ODD = None


def table():
    global _TABLE, _ODD
    if _TABLE is None:
        with open(os.path.join(repo.VERIF, "data", "latex_to_unicode.json")) as f:
            _TABLE = {k: chr(v) for k, v in json.load(f)["commands"].items()}
        _ODD = sorted((k for k in _TABLE if not _LEXABLE.fullmatch(k)), key=len, reverse=True)
    return _TABLE


def odd_commands():
    table()
    return _ODD


# --------------------------------------------------------------------------- reference converter


def reference(text: str, convert: bool, flags=frozenset()):
    """-> list of pieces ('lit', source text) | ('ch', character) | ('mk', marker name).

    flags model the three known deviations, one narrow mechanism each:
      unlexable-command        : the four table commands that are not backslash+letters(+group) are not recognised
      blank-after-replacement  : >=, <= and \\pagefield leave one blank behind
      command-before-pagefield : a table command (letters only) directly followed by \\pagefield stays verbatim
    """
    if not convert:
        return [("lit", text)] if text else []
    tab = table()
    out = []

    def lit(s):
        if out and out[-1][0] == "lit":
            out[-1] = ("lit", out[-1][1] + s)
        else:
            out.append(("lit", s))

    blank = "blank-after-replacement" in flags
    i, n = 0, len(text)
    while i < n:
        for key, mark in _KEYWORDS:
            if text.startswith(key, i):
                if mark == "GE":
                    out.append(("ch", "≥"))
                elif mark == "LE":
                    out.append(("ch", "≤"))
                else:
                    out.append(("mk", mark))
                if blank and mark in ("GE", "LE", "NUMP"):
                    lit(" ")
                i += len(key)
                break
        else:
            if text[i] == "\\":
                if "unlexable-command" not in flags:
                    hit = next((k for k in odd_commands() if text.startswith(k, i)), None)
                    if hit:
                        g = _GROUP.match(text, i + len(hit))
                        if g:  # a brace group that directly follows is looked up together with the command
                            lit(hit + g.group(0))
                            i = g.end()
                        else:
                            out.append(("ch", tab[hit]))
                            i += len(hit)
                        continue
                m = _LETTERS.match(text, i)
                if m:
                    name = m.group(0)
                    j = m.end()
                    g = _GROUP.match(text, j)
                    if g:
                        full = name + g.group(0)
                        if full in tab:
                            out.append(("ch", tab[full]))
                        else:
                            lit(full)
                        i = g.end()
                        continue
                    if (name in tab and "command-before-pagefield" in flags and text.startswith("\\pagefield", j)):
                        lit(name)
                    elif name in tab:
                        out.append(("ch", tab[name]))
                    else:
                        lit(name)
                    i = j
                    continue
            lit(text[i])
            i += 1
    return out


_HIGH = [b for b in range(0xA1, 0x100)]  # cp1252: all defined, used as one-byte stand-ins for converted characters


def render(pieces, spelling: str):
    """pieces -> (RTF source bytes, back-mapping of stand-in characters)"""
    out = []
    back = {}
    fwd = {}
    for kind, v in pieces:
        if kind == "lit":
            out.append(v.encode("ascii"))
        elif kind == "mk":
            out.append(_MARK_RTF[v])
        else:
            cp = ord(v)
            n = cp - 65536 if cp > 32767 else cp
            if spelling == "raw":
                if v not in fwd:
                    b = _HIGH[len(fwd)]
                    fwd[v] = b
                    back[bytes([b]).decode("cp1252")] = v
                out.append(bytes([fwd[v]]))
            elif spelling == "u":
                out.append(f"\\u{n}?".encode())
            else:
                out.append(f"\\uc1\\u{n}*".encode())
    return b"".join(out), back


def lex_events(src: bytes, back=None):
    """events_plain of an RTF source fragment, read by the same reader as the real output"""
    d = parse(b"{\\rtf1\\ansi {\\pard\\plain " + src + b"\\par}}")
    paras = [b for pg in d.pages for b in pg.blocks if b.kind == "para"]
    ev = []
    for p in paras:
        ev.extend(events_plain(p.events))
    if back:
        ev = [("t", "".join(back.get(c, c) for c in e[1]), e[2], e[3]) if e[0] == "t" else e for e in ev]
    return _merge(ev), [e[0] for e in d.errors]


def _merge(ev):
    out = []
    for e in ev:
        if e[0] == "t" and out and out[-1][0] == "t" and out[-1][2:] == e[2:]:
            out[-1] = ("t", out[-1][1] + e[1], e[2], e[3])
        elif e[0] == "t" and not e[1]:
            continue
        else:
            out.append(tuple(e))
    return out


SPELLINGS = ("raw", "u", "uc1u")


def expected_events(text, convert, flags=frozenset()):
    pieces = reference(text, convert, flags)
    res = []
    for sp in SPELLINGS:
        src, back = render(pieces, sp)
        ev, _ = lex_events(src, back)
        if ev not in res:
            res.append(ev)
        if not any(k == "ch" for k, _ in pieces):
            break
    return res


def judge(text: str, convert: bool, observed):
    """-> None (agrees with the reference) | (set of known mechanism names that completely explain the difference) | ()
    () = unexplained."""
    observed = _merge(observed)
    if observed in expected_events(text, convert):
        return None
    if convert:
        for k in (1, 2, 3):
            for fl in itertools.combinations(FLAGS, k):
                fs = frozenset(fl)
                pieces = reference(text, True, fs)
                # every mechanism of the set must change something for this string (minimal explanation)
                if any(reference(text, True, fs - {f}) == pieces for f in fl):
                    continue
                if observed in expected_events(text, True, fs):
                    return tuple(fl)
    return ()


def nontrivial(text: str) -> bool:
    return any(t in text for t in ("\\", "^", "_", ">=", "<=", "\n"))


def _diffkind(text, convert, observed):
    exp = expected_events(text, convert)[0]
    obs = _merge(observed)
    def kind(e):
        if e is None:
            return "end"
        if e[0] == "t":
            return "t" + ("+" if e[2] else "") + ("-" if e[3] else "")
        return e[0]

    for a, b in itertools.zip_longest(exp, obs):
        if a != b:
            return f"{kind(a)}->{kind(b)}"
    return "same"


# --------------------------------------------------------------------------- documents


def balanced(s: str) -> bool:
    d = 0
    for c in s:
        if c == "{":
            d += 1
        elif c == "}":
            d -= 1
            if d < 0:
                return False
    return d == 0


def packed_body(strings, conv):
    """one string per body cell, K_BODY per row next to a tag cell"""
    import polars as pl
    import rtflite as rtf

    n = len(strings)
    rows = (n + K_BODY - 1) // K_BODY
    cols = {"t": [f"D{i}" for i in range(rows)]}
    for j in range(K_BODY):
        cols[f"c{j}"] = [strings[i * K_BODY + j] if i * K_BODY + j < n else "pad" for i in range(rows)]
    return rtf.RTFDocument(df=pl.DataFrame(cols), rtf_page=rtf.RTFPage(nrow=1000000), rtf_column_header=[],
                           rtf_body=rtf.RTFBody(text_convert=conv))


def read_packed_body(doc, n):
    """-> (list of observed event lists or None, structural problems)"""
    rows = [b for pg in doc.pages for b in pg.blocks if b.kind == "row"]
    nr = (n + K_BODY - 1) // K_BODY
    obs = [None] * n
    if len(rows) != nr:
        return obs, [("body-row-count", f"{len(rows)} rows read, {nr} written")]
    for i, r in enumerate(rows):
        if len(r.cells) != K_BODY + 1 or r.cells[0].text != f"D{i}":
            return [None] * n, [("body-row-shape", f"row {i}: {len(r.cells)} cells, tag cell {r.cells[0].text if r.cells else None!r}")]
        for j in range(K_BODY):
            s = i * K_BODY + j
            if s < n:
                obs[s] = events_plain(r.cells[1 + j].events)
    return obs, []


def case_strings(case):
    if case["layer"] == "commands":
        tmpl = dict(TEMPLATES)[case["template"]]
        for k, v in FILLSETS[case.get("fill", 0)].items():
            tmpl = tmpl.replace(f"<{k}>", v)
        return [tmpl.replace("<C>", c) for c in sorted(table())[case["lo"]:case["hi"]]]
    if case["layer"] == "tokens":
        return token_strings(case["maxlen"])[case["lo"]:case["hi"]]
    raise ValueError(case["layer"])


_TS: dict = {}


def token_strings(maxlen: int):
    if maxlen not in _TS:
        seen = {}
        for k in range(1, maxlen + 1):
            for combo in itertools.product(TOKENS, repeat=k):
                seen.setdefault("".join(combo), None)
        _TS[maxlen] = list(seen)
    return _TS[maxlen]


class Acc:
    def __init__(self):
        self.groups = {}
        self.cnt = {}

    def count(self, k, v=1):
        self.cnt[k] = self.cnt.get(k, 0) + v

    def add(self, klass, sig, detail):
        g = self.groups.setdefault((klass, sig), {"n": 0, "detail": detail})
        g["n"] += 1

    def check(self, where, text, convert, observed):
        self.count("strings")
        self.count("strings:conv=" + ("on" if convert else "off"))
        if nontrivial(text):
            self.count("strings-with-tokens")
        if observed is None:
            return
        j = judge(text, convert, observed)
        if j is None:
            self.count("agree")
            return
        exp = expected_events(text, convert)[0]
        detail = f"{where} convert={convert}: {text!r} -> observed {_merge(observed)!r}, reference {exp!r}"
        if j:
            for klass in j:
                self.count("known:" + klass)
                self.add(klass, klass, detail)
        else:
            self.add(None, f"{where}-conv{'on' if convert else 'off'}-{_diffkind(text, convert, observed)}", detail)

    def viol(self):
        return [{"klass": k, "sig": s, "detail": g["detail"][:700] + (f"  [{g['n']} strings in this case]" if g["n"] > 1 else "")}
                for (k, s), g in self.groups.items()]


def eval_case(case: dict) -> dict:
    acc = Acc()
    if case["layer"] in ("commands", "tokens"):
        strings = case_strings(case)
        conv = case["conv"]
        assert all(balanced(s) for s in strings)
        try:
            out = packed_body(strings, conv).rtf_encode()
        except Exception as e:
            return {"viol": [{"klass": None, "sig": f"encode-raised-{type(e).__name__}", "detail": f"{case}: {type(e).__name__}: {e}"[:400]}],
                    "nt": False}
        doc = parse(out)
        obs, problems = read_packed_body(doc, len(strings))
        for sig, detail in problems:
            acc.add(None, "structure-" + sig, f"{case}: {detail}")
        where = case["layer"] + ("-" + case["template"] if "template" in case else "")
        for s, o in zip(strings, obs):
            acc.check(where, s, conv, o)
        sample = None
        if case.get("lo") == 0 and conv:
            k = min(len(strings) - 1, 11)
            sample = {"input": strings[k], "observed": _merge(obs[k]) if obs[k] else None}
        res = {"viol": acc.viol(), "nt": any(nontrivial(s) for s in strings), "cnt": acc.cnt}
        if sample is not None:
            res["sample"] = sample
        return res
    if case["layer"] == "components":
        return eval_component(case, acc)
    if case["layer"] == "matrix":
        return eval_matrix(case, acc)
    if case["layer"] == "segmented":
        return eval_segmented(case, acc)
    if case["layer"] == "autogen":
        return eval_autogen(case, acc)
    raise ValueError(case["layer"])


# --------------------------------------------------------------------------- (c) components and per-cell control


def _component_doc(comp, texts, setting):
    """document with `texts` in component kind `comp`; setting = None (default) | bool | list/matrix"""
    import polars as pl
    import rtflite as rtf

    kw = {"rtf_page": rtf.RTFPage(nrow=1000000), "rtf_column_header": []}
    tc = {} if setting is None else {"text_convert": setting}
    df = pl.DataFrame({"a": ["B0"]})
    if comp == "body":
        assert len(texts) == 1
        df = pl.DataFrame({"t": ["D0"], "a": texts})
        kw["rtf_body"] = rtf.RTFBody(**tc)
    elif comp == "colheader":
        df = pl.DataFrame({f"c{j}": [f"B{j}"] for j in range(len(texts) + 1)})
        kw["rtf_column_header"] = [rtf.RTFColumnHeader(text=["H0"] + list(texts), **tc)]
    elif comp == "title":
        kw["rtf_title"] = rtf.RTFTitle(text=list(texts), **tc)
    elif comp == "subline":
        kw["rtf_subline"] = rtf.RTFSubline(text=list(texts), **tc)
    elif comp == "page_header":
        kw["rtf_page_header"] = rtf.RTFPageHeader(text=list(texts), **tc)
    elif comp == "page_footer":
        kw["rtf_page_footer"] = rtf.RTFPageFooter(text=list(texts), **tc)
    elif comp in ("footnote_table", "footnote_para"):
        kw["rtf_footnote"] = rtf.RTFFootnote(text=list(texts), as_table=comp.endswith("table"), **tc)
    elif comp in ("source_table", "source_para"):
        kw["rtf_source"] = rtf.RTFSource(text=list(texts), as_table=comp.endswith("table"), **tc)
    else:
        raise ValueError(comp)
    return rtf.RTFDocument(df=df, **kw)


def _split_at_lines(events, k):
    """split an event list at its (k-1) top-level joining line breaks; only used with probes that contain no newline"""
    parts, cur = [], []
    for e in events:
        if e[0] == "line":
            parts.append(cur)
            cur = []
        else:
            cur.append(e)
    parts.append(cur)
    return parts if len(parts) == k else None


def _read_component(comp, doc, k):
    """-> list of k observed event lists (or None)"""
    rows = [b for pg in doc.pages for b in pg.blocks if b.kind == "row"]
    paras = [b for pg in doc.pages for b in pg.blocks if b.kind == "para" and b.events]
    if comp == "body":
        r = [x for x in rows if x.cells and x.cells[0].text == "D0"]
        return [events_plain(r[0].cells[1].events)] if len(r) == 1 and len(r[0].cells) == 2 else None
    if comp == "colheader":
        r = [x for x in rows if x.cells and x.cells[0].text == "H0"]
        return [events_plain(c.events) for c in r[0].cells[1:]] if len(r) == 1 and len(r[0].cells) == k + 1 else None
    if comp in ("footnote_table", "source_table"):
        r = [x for x in rows if x.texts != ["B0"]]
        ev = events_plain(r[0].cells[0].events) if len(r) == 1 and len(r[0].cells) == 1 else None
    elif comp in ("page_header", "page_footer"):
        dest = doc.headers if comp == "page_header" else doc.footers
        ps = [p for d in dest for p in d if p.events]
        ev = events_plain(ps[0].events) if len(ps) == 1 else ([] if not ps and len(dest) == 1 else None)
    else:
        # a text that lexes to nothing (e.g. a lone raw newline with conversion off) leaves no visible paragraph
        ev = events_plain(paras[0].events) if len(paras) == 1 else ([] if not paras else None)
    if ev is None:
        return None
    if k == 1:
        return [ev]
    return _split_at_lines(ev, k)


def eval_component(case, acc):
    comp, setting = case["component"], case["setting"]
    eff = COMPONENT_DEFAULT[comp] if setting is None else setting
    for p in PROBES:
        try:
            out = _component_doc(comp, [p], setting).rtf_encode()
        except Exception as e:
            acc.add(None, f"encode-raised-{type(e).__name__}", f"{comp} text_convert={setting} {p!r}: {type(e).__name__}: {e}"[:300])
            continue
        got = _read_component(comp, parse(out), 1)
        if got is None:
            acc.add(None, f"structure-{comp}", f"{comp} text_convert={setting} {p!r}: component not found in the output")
            continue
        acc.check(f"component-{comp}-{'default' if setting is None else ('on' if setting else 'off')}", p, eff, got[0])
    acc.count(f"component:{comp}:{'default' if setting is None else setting}")
    res = {"viol": acc.viol(), "nt": True, "cnt": acc.cnt}
    if comp == "subline":
        res["sample"] = {"component": comp, "text_convert": setting, "effective": eff, "probes": len(PROBES)}
    return res


def eval_matrix(case, acc):
    """per-cell / per-line text_convert: every 0/1 assignment of the given shape"""
    import polars as pl
    import rtflite as rtf

    comp, bits = case["component"], case["bits"]
    probes = [p for p in PROBES if "\n" not in p]
    for p in probes:
        try:
            if comp == "body":
                m = [[bool(bits[0]), bool(bits[1])], [bool(bits[2]), bool(bits[3])]]
                df = pl.DataFrame({"t": ["D0", "D1"], "a": [p, p], "b": [p, p]})
                # the tag column is never converted; its flag is irrelevant for tags
                tc = [[True] + m[0], [True] + m[1]]
                doc = rtf.RTFDocument(df=df, rtf_page=rtf.RTFPage(nrow=1000000), rtf_column_header=[], rtf_body=rtf.RTFBody(text_convert=tc))
                d = parse(doc.rtf_encode())
                rows = [b for pg in d.pages for b in pg.blocks if b.kind == "row"]
                if [r.cells[0].text for r in rows] != ["D0", "D1"] or any(len(r.cells) != 3 for r in rows):
                    acc.add(None, "structure-matrix-body", f"{p!r}: rows {[r.texts for r in rows]!r}"[:300])
                    continue
                for i in range(2):
                    for j in range(2):
                        acc.check(f"matrix-body-cell{i}{j}", p, m[i][j], events_plain(rows[i].cells[1 + j].events))
            else:
                flags = [bool(b) for b in bits]
                setting = [[True] + flags] if comp == "colheader" else flags
                d = parse(_component_doc(comp, [p] * len(flags), setting).rtf_encode())
                got = _read_component(comp, d, len(flags))
                if got is None:
                    acc.add(None, f"structure-matrix-{comp}", f"{comp} text_convert={setting} {p!r}: lines/cells not found")
                    continue
                for i, f in enumerate(flags):
                    acc.check(f"matrix-{comp}-{i}", p, f, got[i])
        except Exception as e:
            acc.add(None, f"encode-raised-{type(e).__name__}", f"matrix {comp} {bits} {p!r}: {type(e).__name__}: {e}"[:300])
    acc.count("matrix-cases")
    return {"viol": acc.viol(), "nt": True, "cnt": acc.cnt}


K_AUTO = 12  # generated texts per document


def auto_strings(src: str):
    """texts for the auto-generation layer, duplicate-free"""
    if src == "probes+tokens2":
        base = PROBES + token_strings(2)
    elif src == "tokens3":
        base = token_strings(3)
    elif src == "commands":
        base = sorted(table())
    else:
        raise ValueError(src)
    return list(dict.fromkeys(x for x in base if x))


def eval_autogen(case, acc):
    """Text that reaches a component by auto-generation instead of through its text field: DataFrame column names as
    column-header text (header component without text: omitted / RTFColumnHeader() / text_convert True / False; single- and
    multi-section), and page_by values as group-heading text (body text_convert default / True / False).
    Converted iff the owning component's text_convert says so (documented default of both: on)."""
    import polars as pl
    import rtflite as rtf

    mode, setting = case["mode"], case["setting"]
    strings = auto_strings(case["src"])[case["lo"]:case["hi"]]
    page = dict(nrow=1000000)

    def header(st):
        return rtf.RTFColumnHeader() if st == "obj" else rtf.RTFColumnHeader(text_convert=[st])

    def flag(st):
        return COMPONENT_DEFAULT["colheader"] if st in (None, "obj") else st

    per_doc = K_AUTO * (2 if mode == "multi" else 1)
    for k in range(0, len(strings), per_doc):
        chunk = strings[k:k + per_doc]
        what = f"autogen {mode} setting={setting} {case['src']}[{case['lo'] + k}:{case['lo'] + k + len(chunk)}]"
        try:
            if mode == "header":
                df = pl.DataFrame({"HDR0": ["B0"], **{name: [f"B{j + 1}"] for j, name in enumerate(chunk)}})
                kw = {} if setting is None else {"rtf_column_header": [header(setting)]}
                d = parse(rtf.RTFDocument(df=df, rtf_page=rtf.RTFPage(**page), **kw).rtf_encode())
                parts = [("HDR0", chunk, flag(setting))]
            elif mode == "multi":
                half = (len(chunk) + 1) // 2
                parts, dfs = [], []
                for si, (names, st) in enumerate(((chunk[:half], setting[0]), (chunk[half:], setting[1]))):
                    dfs.append(pl.DataFrame({f"HDR{si}": [f"S{si}B0"], **{name: [f"S{si}B{j + 1}"] for j, name in enumerate(names)}}))
                    parts.append((f"HDR{si}", names, flag(st)))
                d = parse(rtf.RTFDocument(df=dfs, rtf_body=[rtf.RTFBody(), rtf.RTFBody()], rtf_page=rtf.RTFPage(**page),
                                          rtf_column_header=[[header(setting[0])], [header(setting[1])]]).rtf_encode())
            else:  # page_by headings generated from the data values
                df = pl.DataFrame({"t": [f"D{j}" for j in range(len(chunk))], "g": chunk})
                tc = {} if setting is None else {"text_convert": setting}
                d = parse(rtf.RTFDocument(df=df, rtf_page=rtf.RTFPage(**page), rtf_column_header=[],
                                          rtf_body=rtf.RTFBody(page_by=["g"], new_page=False, **tc)).rtf_encode())
                parts = None
        except Exception as e:
            acc.add(None, f"encode-raised-{type(e).__name__}", f"{what}: {type(e).__name__}: {e}"[:300])
            continue
        rows = [b for pg in d.pages for b in pg.blocks if b.kind == "row"]
        if parts is not None:
            for tag, names, fl in parts:
                hr = [r for r in rows if r.cells and r.cells[0].text == tag]
                if len(hr) != 1 or len(hr[0].cells) != len(names) + 1:
                    acc.add(None, f"structure-autogen-{mode}", f"{what}: header row {tag} not found once with {len(names) + 1} cells: {[r.texts for r in rows]!r}"[:400])
                    continue
                for name, cell in zip(names, hr[0].cells[1:]):
                    acc.check(f"autogen-{mode}-{'default' if setting is None else setting}", name, fl, events_plain(cell.events))
        else:
            eff = COMPONENT_DEFAULT["body"] if setting is None else setting
            ok = len(rows) == 2 * len(chunk) and all(len(r.cells) == 1 for r in rows) and [r.cells[0].text for r in rows[1::2]] == [f"D{j}" for j in range(len(chunk))]
            if not ok:
                acc.add(None, "structure-autogen-page_by", f"{what}: rows {[r.texts for r in rows]!r}"[:400])
                continue
            for name, r in zip(chunk, rows[0::2]):
                acc.check(f"autogen-page_by-{'default' if setting is None else setting}", name, eff, events_plain(r.cells[0].events))
        acc.count("autogen-documents")
    acc.count(f"autogen-cases:{mode}")
    return {"viol": acc.viol(), "nt": True, "cnt": acc.cnt}


SEG_PROBES = ("\\alpha^2", "\\mathbb{R}_i")


def compositions(n: int):
    """all ordered partitions of n rows into consecutive page_by groups"""
    if n == 0:
        yield []
        return
    for first in range(1, n + 1):
        for rest in compositions(n - first):
            yield [first] + rest


def eval_segmented(case, acc):
    """per-cell text_convert given as a full nrow x ncol matrix or as a per-row column vector, on a body that page_by
    (new_page=False) renders in several segments - mid-page spanning rows, and across pages when nrow is small.
    A cell is converted iff its own flag is True."""
    import polars as pl
    import rtflite as rtf

    groups, nrow, shape = case["groups"], case["nrow"], case["shape"]
    n = sum(groups)
    g = [f"G{k}" for k, size in enumerate(groups) for _ in range(size)]
    for v in range(case["lo"], case["hi"]):
        f = [bool(v >> i & 1) for i in range(n)]
        if shape == "rowvec":
            tc = [[x] for x in f]
            want = [[x, x] for x in f]
        else:  # full matrix over all four columns (tag, a, b, page_by column); b carries the complement of a
            tc = [[True, x, not x, True] for x in f]
            want = [[x, not x] for x in f]
        what = f"segmented groups={groups} nrow={nrow} {shape} flags={''.join('1' if x else '0' for x in f)}"
        try:
            # the page_by column is the last one, so the data columns keep their index whether or not attributes are sliced
            df = pl.DataFrame({"t": [f"D{i}" for i in range(n)], "a": [SEG_PROBES[0]] * n, "b": [SEG_PROBES[1]] * n, "g": g})
            doc = rtf.RTFDocument(df=df, rtf_page=rtf.RTFPage(nrow=nrow), rtf_column_header=[],
                                  rtf_body=rtf.RTFBody(page_by=["g"], new_page=False, text_convert=tc))
            d = parse(doc.rtf_encode())
        except Exception as e:
            acc.add(None, f"encode-raised-{type(e).__name__}", f"{what}: {type(e).__name__}: {e}"[:300])
            continue
        rows = [b for pg in d.pages for b in pg.blocks if b.kind == "row"]
        data = [r for r in rows if len(r.cells) == 3 and re.fullmatch(r"D\d+", r.cells[0].text or "")]
        heads = [r for r in rows if len(r.cells) == 1]
        if [r.cells[0].text for r in data] != [f"D{i}" for i in range(n)] or len(data) + len(heads) != len(rows):
            acc.add(None, "structure-segmented", f"{what}: rows {[r.texts for r in rows]!r}"[:400])
            continue
        acc.count("segmented-documents")
        acc.count(f"segmented-pages={'1' if len(d.pages) == 1 else '2+'}")
        if len(heads) > 1:
            acc.count("segmented-documents-with-mid-body-heading")
        for i in range(n):
            for j in range(2):
                acc.check(f"segmented-{shape}-{'onepage' if nrow > 1000 else 'paged'}-col{j}", SEG_PROBES[j], want[i][j],
                          events_plain(data[i].cells[1 + j].events))
    acc.count("segmented-cases")
    return {"viol": acc.viol(), "nt": True, "cnt": acc.cnt}


# --------------------------------------------------------------------------- enumeration


def selfcheck():
    """hand-computed expectations for the reference converter and the lexing of its result (harness guard)"""
    T, F = True, False
    want = {
        "x^2": [("t", "x", F, F), ("t", "2", T, F)],
        "a_b^c": [("t", "a", F, F), ("t", "b", F, T), ("t", "c", T, F)],
        "a>=b<=c": [("t", "a≥b≤c", F, F)],
        "\\alpha\\beta": [("t", "αβ", F, F)],
        "\\alphax 1": [("cw", "alphax", None), ("t", "1", F, F)],
        "\\mathbb{R}{x}": [("t", "ℝx", F, F)],
        "\\alpha{x}": [("cw", "alpha", None), ("t", "x", F, F)],
        "p\\pagenumbera\\totalpage \\pagefield.": [("t", "p", F, F), ("cw", "chpgn", None), ("t", "a", F, F), ("cw", "totalpage", None),
                                                     ("t", " ", F, F), ("field", "NUMPAGES"), ("t", ".", F, F)],
        "a\nb": [("t", "a", F, F), ("line",), ("t", "b", F, F)],
        "\\sqrt[3]": [("t", "∛", F, F)],
    }
    for text, ev in want.items():
        got = expected_events(text, True)[0]
        if got != ev:
            raise AssertionError(f"reference converter self-check: {text!r} -> {got!r}, expected {ev!r}")
    if expected_events("x^2 \\alpha", False)[0] != [("t", "x^2 ", F, F), ("cw", "alpha", None)]:
        raise AssertionError("identity reference self-check failed")
    if judge("a>=b", True, [("t", "a≥ b", F, F)]) != ("blank-after-replacement",) or judge("a>=b", True, [("t", "a ≥b", F, F)]) != ():
        raise AssertionError("classifier self-check failed")
    if len(table()) != 682 or len(TOKENS) != 19 or len(TEMPLATES) != 14:
        raise AssertionError("space size self-check failed")


def plan(run):
    quick = run.tier == "quick"
    maxlen = 3 if quick else 4
    try:
        selfcheck()
    except AssertionError as e:
        run.harness_errors.append({"layer": "selfcheck", "case": None, "error": str(e)})
        return
    ncmd = len(table())
    run.rule = (f"(a) all {ncmd} commands of the frozen table x {len(TEMPLATES)} context templates (filler alphabet: quick = the one of "
                f"{len(FILLSETS)} selected by the seed, thorough = all) x conversion on/off, one body cell per string; "
                f"(b) every distinct concatenation of <= {maxlen} tokens of the {len(TOKENS)}-token alphabet x on/off; "
                f"(c) {len(COMPONENT_DEFAULT)} component kinds x text_convert {{default, True, False}} x {len(PROBES)} probe strings, and every 0/1 "
                "text_convert matrix of a 2x2 body, a 1x2 header row and 2-line title/subline/page header/page footer; "
                "(d) body rendered in segments: page_by with new_page=False, every composition of the rows into groups (quick: 6 compositions of 5 rows; "
                "thorough: all 64 of 7 rows) x nrow {one page, 5} x text_convert as full matrix / per-row column vector x every 0/1 row-flag vector - "
                "a cell is converted iff its own flag is set; "
                f"(e) auto-generated text: DataFrame column names as header text (header omitted / RTFColumnHeader() / text_convert True / False; "
                f"single-section, and two sections x 9 setting pairs) and page_by values as group headings (body text_convert default / True / False), "
                f"{K_AUTO} texts per document, texts = probe strings + all token strings of <= 2 tokens (thorough: + <= 3 tokens + all {ncmd} commands) - "
                "converted iff the owning component's text_convert says so. "
                "a case = one packed document (a,b) or one component setting (c); non-trivial = contains a conversion token; "
                "results are per string (counters strings / agree / known:*)")
    run.assumptions = [
        "both sides are read by the same RTF lexer; the spelling of a converted character in RTF (raw ANSI char, \\uN?, \\uc1\\uN*) is free",
        "data/latex_to_unicode.json (frozen from the pinned commit) is the specification of the supported commands",
        "documented text_convert defaults: title/header/body/footnote/source on, page header/page footer/subline off",
        "\\totalpage -> \\totalpage control word, \\pagenumber -> \\chpgn, \\pagefield -> NUMPAGES field are taken as the documented page fields",
    ]
    fn = "mc.props.c11:eval_case"
    step = 350
    fills = [run.seed % len(FILLSETS)] if quick else list(range(len(FILLSETS)))
    cases = [{"layer": "commands", "template": name, "fill": fl, "conv": conv, "lo": lo, "hi": min(lo + step, ncmd)}
             for fl in fills for name, _ in TEMPLATES for conv in (True, False) for lo in range(0, ncmd, step)]
    run.layer("commands-x-templates", fn, cases, chunk=1, total=len(cases))
    nts = len(token_strings(maxlen))
    step = 450
    cases = [{"layer": "tokens", "maxlen": maxlen, "conv": conv, "lo": lo, "hi": min(lo + step, nts)}
             for conv in (True, False) for lo in range(0, nts, step)]
    run.layer(f"token-strings-len<={maxlen}", fn, cases, chunk=1, total=len(cases))
    cases = [{"layer": "components", "component": c, "setting": s} for c in COMPONENT_DEFAULT for s in (None, True, False)]
    run.layer("components-x-text_convert", fn, cases, chunk=1, total=len(cases))
    cases = [{"layer": "matrix", "component": "body", "bits": list(b)} for b in itertools.product((0, 1), repeat=4)]
    for comp in ("colheader", "title", "subline", "page_header", "page_footer"):
        cases += [{"layer": "matrix", "component": comp, "bits": list(b)} for b in itertools.product((0, 1), repeat=2)]
    run.layer("per-cell-text_convert-matrices", fn, cases, chunk=1, total=len(cases))
    # per-cell flags on a body rendered in segments (page_by, new_page=False), one page and several pages
    if quick:
        nseg, comps = 5, [[2, 3], [1, 2, 2], [2, 1, 2], [3, 2], [1, 1, 1, 1, 1], [5]]
    else:
        nseg, comps = 7, list(compositions(7))
    cases = [{"layer": "segmented", "groups": c, "nrow": nrow, "shape": shape, "lo": lo, "hi": min(lo + 32, 2 ** nseg)}
             for c in comps for nrow in (1000000, 5) for shape in ("matrix", "rowvec") for lo in range(0, 2 ** nseg, 32)]
    run.layer("segmented-body-text_convert-matrices", fn, cases, chunk=1, total=len(cases))
    done = all(l["completed"] for l in run.layers)
    for need in ("segmented-pages=1", "segmented-pages=2+", "segmented-documents-with-mid-body-heading"):
        if done and not run.viol and not run.cnt.get(need):
            run.harness_errors.append({"layer": "vacuity", "case": None, "error": f"segmented layer produced no document counted as {need}"})
    # text that reaches a component by auto-generation (column names -> header text, page_by values -> group headings)
    srcs = ["probes+tokens2"] if quick else ["probes+tokens2", "tokens3", "commands"]
    hs = ("obj", True, False)
    cases = []
    for src in srcs:
        n = len(auto_strings(src))
        for lo in range(0, n, 480):
            sl = {"layer": "autogen", "src": src, "lo": lo, "hi": min(lo + 480, n)}
            cases += [{**sl, "mode": "header", "setting": st} for st in (None, "obj", True, False)]
            cases += [{**sl, "mode": "page_by", "setting": st} for st in (None, True, False)]
            if src != "tokens3":
                cases += [{**sl, "mode": "multi", "setting": [a, b]} for a in hs for b in hs]
    run.layer("auto-generated-text-x-text_convert", fn, cases, chunk=1, total=len(cases))
    for need in ("autogen-cases:header", "autogen-cases:multi", "autogen-cases:page_by"):
        if all(l["completed"] for l in run.layers) and not run.viol and not run.cnt.get(need):
            run.harness_errors.append({"layer": "vacuity", "case": None, "error": f"no case counted as {need}"})
    # accounting / vacuity
    exp_strings = ncmd * len(TEMPLATES) * 2 * len(fills) + nts * 2
    done = all(l["completed"] for l in run.layers)
    if done and run.cnt.get("strings", 0) < exp_strings:
        run.harness_errors.append({"layer": "accounting", "case": None,
                                   "error": f"{run.cnt.get('strings', 0)} strings judged, at least {exp_strings} planned"})
    if done and not run.cnt.get("agree"):
        run.harness_errors.append({"layer": "vacuity", "case": None, "error": "no string agreed with the reference"})
    run.extra["space"] = {"commands": ncmd, "templates": [t[0] for t in TEMPLATES], "token_alphabet": TOKENS,
                          "token_strings": nts, "unlexable_table_commands": odd_commands()}

"""C09 - cell formatting follows the data cell.

Space (exhaustive): every body attribute (13 text attributes, 4 border styles, border width, 4 border colours,
vertical alignment, cell height, cell justification) x shape {scalar, 1 x ncol, nrow x ncol, row pattern
R x ncol with 1 < R < nrow that is recycled (original row r shows pattern[r mod R])} with values
f(r, c) = alphabet[(2r + c) mod 3] (neighbours differ in both directions, f is not symmetric in r and c)
x rows {1, 4, 9} (thorough: .. 40) x nrow from "one page" down to "one row per page" x removal of 0..2
columns at any position by page_by / subline_by (three strategies) ; one attribute at a time (quick),
pairs of attributes (thorough).  Attribute matrices are given for the ORIGINAL data-frame shape.

Oracle (a) direct rule with the standard RTF meaning of the emitted words, keyed by the ORIGINAL (row, column)
of the cell, found through its D<r>.<c> sentinel; attributes that are not varied are expected at the value the
constructed RTFBody object publicly reports for them.  Row height / row justification: consistency only
(equal settings <=> equal emitted value, height order preserved).
Oracle (b) metamorphic: the same table rendered with a huge nrow gives identical per-cell properties.
The top border of each page's first data row and the bottom border of each page's last data row are C07's
(page-boundary borders) and excluded from both oracles.
"""
from __future__ import annotations

import itertools

from ..rtfreader.reader import parse
from ..spec import docspec

PID = "C09"
LEVEL = "exploration"
TECHNIQUE = ("bounded exhaustive enumeration of attribute x shape x table size x page layout x column removal on the real encoder; "
             "per-cell character/paragraph/cell/border properties of the re-parsed RTF compared with a direct reference rule keyed "
             "by sentinel tag, plus paginated-vs-unpaginated metamorphic equality")
LEVEL_TEXT = ("exploration, exhaustive inside the stated bounds: the binding attribute -> cell is a per-cell predicate over a small "
              "finite configuration space (every attribute, every shape, every page start offset up to the bound, every removal "
              "position), so complete enumeration of the real encoder is decisive inside the bound")
LEVEL_NOTE = ("trusted base: mc/rtfreader property extraction, sentinel tags; colour names are compared through their R colors() RGB "
              "values (nine names, listed in the module); a right border on an interior cell may be left to the neighbour's left "
              "border (absent is accepted there, a wrong style is not)")

HUGE = 400
K = 3  # data columns

# R colors() values of the names used (what the user asked for), independent of rtflite's table
RGB = {"red": (255, 0, 0), "blue": (0, 0, 255), "green": (0, 255, 0), "gold": (255, 215, 0), "purple": (160, 32, 240),
       "cyan": (0, 255, 255), "orange": (255, 165, 0), "magenta": (255, 0, 255), "brown": (165, 42, 42)}
COLOURS = [["red", "blue", "green"], ["gold", "purple", "cyan"], ["orange", "magenta", "brown"]]
STYLES = [["single", "double", "dotted"], ["dashed", "thick", ""], ["triple", "single", "dash-dotted"]]
STYLE_WORD = {"single": "brdrs", "double": "brdrdb", "dotted": "brdrdot", "dashed": "brdrdash", "thick": "brdrth",
              "triple": "brdrtriple", "dash-dotted": "brdrdashd", "": None}
INDENTS = [[60, 150, 300], [0, 120, 240], [30, 90, 720]]
SPACES = [[15, 60, 120], [0, 30, 90], [45, 75, 200]]
FORMAT_PROP = {"b": "b", "i": "i", "u": "ul", "s": "strike", "^": "super", "_": "sub"}
VERT = {"top": "t", "center": "c", "bottom": "b"}

# attribute -> (observed property key(s), alphabets)
CELL_ATTRS = {
    "text_font": ("font", [[1, 4, 9], [2, 6, 8], [3, 5, 10]]),
    "text_font_size": ("size", [[9, 12, 7], [8, 10, 11], [6, 14, 9]]),
    "text_format": ("format", [["b", "i", ""], ["u", "s", "bi"], ["^", "_", "bu"]]),
    "text_color": ("color", COLOURS),
    "text_background_color": ("bg", COLOURS[1:] + COLOURS[:1]),
    "text_justification": ("just", [["l", "c", "r"], ["j", "r", "l"], ["d", "c", "j"]]),
    "text_indent_first": ("fi", INDENTS),
    "text_indent_left": ("li", INDENTS[1:] + INDENTS[:1]),
    "text_indent_right": ("ri", INDENTS[2:] + INDENTS[:2]),
    "text_space": ("space", [[1, 2, 3], [2, 3, 4], [1, 3, 5]]),
    "text_space_before": ("sb", SPACES),
    "text_space_after": ("sa", SPACES[1:] + SPACES[:1]),
    "text_hyphenation": ("hyph", [[True, False]]),
    "border_left": ("style_l", STYLES),
    "border_right": ("style_r", STYLES[1:] + STYLES[:1]),
    "border_top": ("style_t", STYLES[2:] + STYLES[:2]),
    "border_bottom": ("style_b", STYLES),
    "border_width": ("width", [[15, 30, 45], [10, 20, 40], [15, 25, 60]]),
    "border_color_left": ("colour_l", COLOURS),
    "border_color_right": ("colour_r", COLOURS[1:] + COLOURS[:1]),
    "border_color_top": ("colour_t", COLOURS[2:] + COLOURS[:2]),
    "border_color_bottom": ("colour_b", COLOURS),
    "cell_vertical_justification": ("vertal", [["top", "center", "bottom"], ["bottom", "top", "center"], ["center", "bottom", "top"]]),
}
ROW_ATTRS = {
    "cell_height": ("height", [[0.15, 0.3, 0.5], [0.2, 0.4, 0.25], [0.15, 0.18, 1.0]]),
    "cell_justification": ("trq", [["l", "c", "r"], ["c", "r", "l"], ["r", "l", "c"]]),
}
ALL_ATTRS = list(CELL_ATTRS) + list(ROW_ATTRS)
PROP_ATTR = {v[0]: k for k, v in CELL_ATTRS.items()}
SIDES = "ltrb"


# --------------------------------------------------------------------------- case -> DocSpec


def fvalue(attr, alpha, r, c):
    if attr in ROW_ATTRS:
        vals = ROW_ATTRS[attr][1][alpha]
        return vals[r % len(vals)]
    vals = CELL_ATTRS[attr][1][alpha]
    m = len(vals)
    return vals[(2 * r + c) % m] if m == 3 else vals[(r + c) % m]


def attr_value(attr, shape, alpha, n, ncol, shift=0):
    """the value handed to RTFBody, always as a nested list (1x1, 1xncol, nxncol); "tuple": a Python tuple with one value per
    row (rtflite's column-vector form, recycled across the columns).  shift moves along the alphabet (sections of a
    multi-section document get different values of the same attribute)"""
    if shift:
        return _shifted(attr_value(attr, shape, alpha, n, ncol), attr, alpha, shift)
    if shape == "scalar":
        return [[fvalue(attr, alpha, 1, 0)]]
    if shape == "tuple":
        return tuple(fvalue(attr, alpha, r, 0) for r in range(n))
    if shape == "row":
        if attr in ROW_ATTRS:
            return [[fvalue(attr, alpha, 1, 0)] * ncol]
        return [[fvalue(attr, alpha, 0, c) for c in range(ncol)]]
    if shape.startswith("cols") or shape.startswith("grid"):
        # a per-column vector SHORTER than the original column count (k values, 2 <= k < ncol), recycled across the
        # ORIGINAL columns: original column c shows vector[c mod k]; "grid<R>x<k>" is also shorter than the row count
        rr, kk = short_dims(shape)
        return [[fvalue(attr, alpha, r if shape.startswith("grid") else (1 if attr in ROW_ATTRS else 0), c) for c in range(kk)]
                for r in range(rr)]
    if shape.startswith("pattern"):
        # a ROW PATTERN of R rows, 1 < R < nrow, recycled down the table: original row r shows pattern[r mod R]
        return [[fvalue(attr, alpha, r, c) for c in range(ncol)] for r in range(pattern_rows(shape))]
    return [[fvalue(attr, alpha, r, c) for c in range(ncol)] for r in range(n)]


def _shifted(val, attr, alpha, shift):
    """replace every value by the one `shift` places further in its alphabet"""
    vals = (CELL_ATTRS.get(attr) or ROW_ATTRS.get(attr))[1][alpha]

    def mv(v):
        return vals[(vals.index(v) + shift) % len(vals)]

    if isinstance(val, tuple):
        return tuple(mv(v) for v in val)
    return [[mv(v) for v in row] for row in val]


def pattern_rows(shape):
    return int(shape[len("pattern"):])


def short_dims(shape):
    """'cols3' -> (1, 3) ; 'grid3x2' -> (3, 2)"""
    if shape.startswith("cols"):
        return 1, int(shape[4:])
    a, b = shape[4:].split("x")
    return int(a), int(b)


def shape_family(shape):
    for fam in ("pattern", "cols", "grid"):
        if shape.startswith(fam):
            return fam
    return shape


def key_vector(n, level):
    if level == 0:
        h = (n + 1) // 2
        return [0 if r < h else 1 for r in range(n)]
    return [(r // 2) % 2 for r in range(n)]


def case_spec(case: dict, nrow=None) -> dict:
    n = case["n"]
    k = case.get("k", K)
    order = [f"c{j}" for j in range(k)]
    npb = nsl = 0
    ins = []
    for kind, pos in case.get("removal") or []:
        if kind == "pb":
            ins.append((pos, f"g{npb}"))
            npb += 1
        else:
            ins.append((pos, f"u{nsl}"))
            nsl += 1
    for pos, name in sorted(ins, key=lambda t: -t[0]):
        order.insert(pos, name)
    spec = {"n": n, "cols": ["sb"] * k if k > 1 else ["s"], "colorder": order, "header": case.get("header", "none"), "title": 0,
            "page": {"nrow": nrow if nrow is not None else case["nrow"]}}
    if npb:
        spec["page_by"] = [key_vector(n, l) for l in range(npb)]
    if nsl:
        spec["subline_by"] = [key_vector(n, l) for l in range(nsl)]
    if case.get("new_page"):
        spec["new_page"] = True
        spec["pageby_row"] = "first_row"
    spec["body"] = body_kwargs(case.get("attrs"), n, len(order))
    return spec


def body_kwargs(attrs, n, ncol):
    body = {}
    for attr, sa in sorted((attrs or {}).items()):
        body[attr] = attr_value(attr, sa[0], sa[1], n, ncol, sa[2] if len(sa) > 2 else 0)
    # a border colour is only observable on a border that exists
    for attr in attrs or {}:
        if attr.startswith("border_color_"):
            side = "border_" + attr[len("border_color_"):]
            if side not in body:
                body[side] = "single"
    return body


# --------------------------------------------------------------------------- observation


def ref(val, r, c):
    """reference recycling rule: scalar -> every cell, 1 x ncol -> its column, matrix -> cell by cell"""
    if val is None:
        return None
    if not isinstance(val, (list, tuple)):
        return val
    if val and not isinstance(val[0], (list, tuple)):
        return val[c % len(val)]
    row = val[r % len(val)]
    return row[c % len(row)]


def resolve(doc, idx):
    if idx is None or idx == 0:
        return None
    if doc.colortbl is None or idx >= len(doc.colortbl):
        return ("unresolvable-colour-index", idx)
    return doc.colortbl[idx]


def observe_cell(doc, cell):
    ev = next((e for e in cell.events if e[0] == "t"), None)
    # an empty cell has no text event: its character formatting is that of its text-less run group
    cp = ev[2] if ev else (cell.empty_runs[-1] if cell.empty_runs else {})
    pp = cell.ppr
    o = {"font": (cp.get("f") + 1) if cp.get("f") is not None else None,
         "size": cp.get("fs") / 2 if cp.get("fs") is not None else None,
         "format": frozenset(t for t in ("b", "i", "ul", "strike", "super", "sub") if cp.get(t)),
         "color": resolve(doc, cp.get("cf")),
         "just": pp.get("q", "l"),
         "fi": pp.get("fi", 0), "li": pp.get("li", 0), "ri": pp.get("ri", 0),
         "sb": pp.get("sb", 0), "sa": pp.get("sa", 0),
         "hyph": pp.get("hyphpar", 0) != 0,
         "vertal": cell.vertal}
    cb, pat = resolve(doc, cp.get("cb")), resolve(doc, cp.get("chcbpat"))
    o["bg"] = cb if (cp.get("chcbpat") is None or pat == cb) else ("cb/chcbpat-disagree", cb, pat)
    sl, mult = pp.get("sl"), pp.get("slmult")
    if not sl:
        o["space"] = 1
    elif mult == 1 and sl % 240 == 0:
        o["space"] = sl // 240
    else:
        o["space"] = ("sl", sl, "slmult", mult)
    for s in SIDES:
        st, w, cf = cell.borders.get(s, (None, None, None))
        if st in ("brdrnone", "brdrnil"):
            st = None
        o["style_" + s] = st
        o["present_" + s] = s in cell.borders
        o["width_" + s] = w if st is not None else None
        o["colour_" + s] = resolve(doc, cf) if st is not None else None
    return o


def blank_kind(r, j):
    """the fixed blank pattern of docspec column class 'sb': one blank cell per row, null on even rows, "" on odd rows"""
    if (r + j) % 3 == 0:
        return "null" if r % 2 == 0 else "empty-string"
    return None


def observe(doc, shown, tag="D", blanks=True):
    """-> cells {(r, j): obs}, rows {r: {...}}, pages [[r,...]]; problems list.  Only the data rows whose sentinel letter is
    `tag` (one table section); page starts / first / last rows are those of this section on each parsed page"""
    cells, rows, pages, problems = {}, {}, [], []
    for pi, pg in enumerate(doc.pages):
        prs = []
        seg_start = None
        for blk in pg.blocks:
            if blk.kind != "row":
                continue
            role, info = docspec.block_role(blk)
            if role != "data" or info[0] != tag:
                seg_start = None
                continue
            r = info[1]
            if seg_start is None:
                seg_start = r
            prs.append(r)
            if r in rows:
                problems.append(f"data row {r} rendered twice")
            tr = blk.trpr
            rows[r] = {"page": pi, "seg": seg_start, "trq": tr.get("trq"),
                       "height": abs(tr["trrh"]) if tr.get("trrh") else tr.get("trgaph")}
            last = len(blk.cells) - 1
            if len(blk.cells) != len(shown):
                problems.append(f"data row {r} has {len(blk.cells)} cells, {len(shown)} columns are displayed")
                continue
            # cells are identified by POSITION within their tagged row; the tags of the non-empty ones must agree
            for pos, cell in enumerate(blk.cells):
                name = shown[pos]
                if not name.startswith("c"):
                    continue
                j = int(name[1:])
                tg = docspec.tag_of(cell.text)
                blank = blank_kind(r, j) if blanks else None
                if blank is None:
                    if not tg or (tg[0], tg[1], tg[2]) != (tag, r, j):
                        problems.append(f"cell at position {pos} of data row {r} reads {cell.text!r}, expected {tag}{r}.{j}")
                        continue
                elif cell.text != "":
                    problems.append(f"{blank} cell at position {pos} of data row {r} reads {cell.text!r}, expected an empty cell")
                    continue
                o = observe_cell(doc, cell)
                o["last"] = pos == last
                o["r"] = r
                o["blank"] = blank
                cells[(r, j)] = o
        pages.append(prs)
    for prs in pages:
        for r in prs:
            rows[r]["p"] = prs[0]
            rows[r]["first"] = r == prs[0]
            rows[r]["last"] = r == prs[-1]
    return cells, rows, pages, problems


# --------------------------------------------------------------------------- expectation


def expected_prop(prop, settings, r, c, roff=0):
    """expected observed property of the cell at original (r, c); roff shifts the matrix row (classifiers)"""
    def g(attr):
        return ref(settings.get(attr), r - roff, c)

    if prop == "font":
        return g("text_font")
    if prop == "size":
        return g("text_font_size")
    if prop == "format":
        return frozenset(FORMAT_PROP[ch] for ch in (g("text_format") or ""))
    if prop in ("color", "bg"):
        v = g("text_color" if prop == "color" else "text_background_color")
        return RGB[v] if v else None
    if prop == "just":
        return g("text_justification") or "l"
    if prop in ("fi", "li", "ri"):
        return g({"fi": "text_indent_first", "li": "text_indent_left", "ri": "text_indent_right"}[prop])
    if prop == "space":
        return g("text_space")
    if prop in ("sb", "sa"):
        return g("text_space_before" if prop == "sb" else "text_space_after")
    if prop == "hyph":
        return bool(g("text_hyphenation"))
    if prop == "vertal":
        return VERT.get(g("cell_vertical_justification"), ("unknown", g("cell_vertical_justification")))
    side = prop[-1]
    name = {"l": "left", "t": "top", "r": "right", "b": "bottom"}[side]
    style = g("border_" + name) or ""
    if prop.startswith("style_"):
        return STYLE_WORD.get(style, ("unknown-style", style))
    if style == "":
        return None  # no border: width and colour are moot
    if prop.startswith("width_"):
        return g("border_width")
    if prop.startswith("colour_"):
        v = g("border_color_" + name)
        return RGB[v] if v else None
    raise KeyError(prop)


CELL_PROPS = (["font", "size", "format", "color", "bg", "just", "fi", "li", "ri", "space", "sb", "sa", "hyph", "vertal"]
              + [f"{p}_{s}" for s in SIDES for p in ("style", "width", "colour")])


def attr_of_prop(prop):
    if prop.startswith("width_"):
        return "border_width"
    side = {"l": "left", "t": "top", "r": "right", "b": "bottom"}.get(prop[-1])
    if prop.startswith("style_"):
        return "border_" + side
    if prop.startswith("colour_"):
        return "border_color_" + side
    return PROP_ATTR[prop]


def show(v):
    return repr(sorted(v)) if isinstance(v, frozenset) else repr(v)


def num_eq(a, b):
    if isinstance(a, (int, float)) and isinstance(b, (int, float)) and not isinstance(a, bool) and not isinstance(b, bool):
        return abs(a - b) < 1e-9
    return a == b


def skip_prop(prop, o, rowinfo):
    """page-boundary borders belong to C07"""
    if prop.endswith("_t") and rowinfo["first"]:
        return True
    if prop.endswith("_b") and rowinfo["last"]:
        return True
    return False


def direct(cells, rows, settings, colidx):
    """-> list of mismatches {attr, prop, r, c, obs, exp}"""
    out = []
    for (r, j), o in sorted(cells.items()):
        c = colidx[j]
        ri = rows[r]
        for prop in CELL_PROPS:
            if skip_prop(prop, o, ri):
                continue
            exp = expected_prop(prop, settings, r, c)
            obs = o[prop]
            if prop.endswith("_r") and not o["last"] and not o["present_r"]:
                continue  # interior right edge left to the neighbour's left border
            if prop[:5] in ("width", "colou") and (exp is None or o["style_" + prop[-1]] is None):
                continue  # width / colour of a border that is not there (a style mismatch is reported as such)
            if not num_eq(obs, exp):
                out.append({"attr": attr_of_prop(prop), "prop": prop, "r": r, "j": j, "c": c, "obs": obs, "exp": exp, "blank": o["blank"]})
    return out


def consistency(pairs, ordered):
    """pairs: [(setting, emitted, label)] -> list of problems"""
    probs = []
    by_set, by_emit = {}, {}
    for s, e, lab in pairs:
        by_set.setdefault(s, {}).setdefault(e, lab)
        by_emit.setdefault(e, {}).setdefault(s, lab)
    for s, es in by_set.items():
        if len(es) > 1:
            probs.append(f"equal setting {s!r} emitted as {sorted(es.items(), key=str)}")
    for e, ss in by_emit.items():
        if len(ss) > 1:
            probs.append(f"different settings {sorted(ss.items(), key=str)} all emitted as {e!r}")
    if ordered and not probs:
        seq = sorted(by_set.items())
        vals = [list(es)[0] for _, es in seq]
        if any(v is None for v in vals) and len(vals) > 1:
            probs.append(f"settings {[s for s, _ in seq]} emitted as {vals}")
        elif any(a >= b for a, b in zip(vals, vals[1:])):
            probs.append(f"order not preserved: settings {[s for s, _ in seq]} emitted as {vals}")
    return probs


# --------------------------------------------------------------------------- evaluation


def settings_of(body, given):
    """what a body specifies: the public fields of the constructed component, and for what the case itself handed over the
    case's own value (never read back); a tuple is one value per row (column vector)"""
    import copy

    settings = {}
    for attr in ALL_ATTRS:
        settings[attr] = getattr(body, attr)
    settings = copy.deepcopy(settings)  # encoding may touch the component
    for attr, val in (given or {}).items():
        settings[attr] = [[v] for v in val] if isinstance(val, tuple) else copy.deepcopy(val)
    return settings


def render(spec):
    b = docspec.build(spec)
    if b.sections:
        settings = [settings_of(sb.doc[0], sb.spec.get("body")) for sb in b.sections]
    else:
        settings = settings_of(b.doc.rtf_body, spec.get("body"))
    out = b.doc.rtf_encode()
    return b, settings, parse(out)


_TWINS: dict = {}


def twin_of(case, order):
    """observation of the same table rendered with a huge nrow (memoised per worker: the cases of one ladder are neighbours)"""
    key = repr(sorted((k, v) for k, v in case.items() if k != "nrow"))
    hit = _TWINS.get(key)
    if hit is None:
        try:
            b2, _, doc2 = render(multi_spec(case, nrow=HUGE) if case.get("sections") else case_spec(case, nrow=HUGE))
            if b2.sections:
                hit = [observe(doc2, sb.shown, tag="ABCDE"[i], blanks=len(sb.shown) > 1)[:3] + (len(doc2.pages),) for i, sb in enumerate(b2.sections)]
            else:
                cells2, rows2, pages2, _ = observe(doc2, b2.shown, blanks=case.get("k", K) > 1)
                hit = (cells2, rows2, pages2, len(doc2.pages))
        except Exception as e:
            hit = f"{type(e).__name__}: {e}"
        if len(_TWINS) > 16:
            _TWINS.clear()
        _TWINS[key] = hit
    return hit


def multi_spec(case, nrow=None):
    """2-3 table sections (3 data columns each, no removal) with their own body attributes"""
    secs = []
    for sc in case["sections"]:
        order = [f"c{j}" for j in range(K)]
        secs.append({"n": sc["n"], "cols": ["sb"] * K, "colorder": order, "header": "none",
                     "body": body_kwargs(sc.get("attrs"), sc["n"], K)})
    return {"kind": "multi", "sections": secs, "title": 0, "page": {"nrow": nrow if nrow is not None else case["nrow"]}}


def classify_cell_mismatches(ms, shapes, cells, rows, settings, colidx):
    """narrow classes, per attribute; returns {attr: klass|None}"""
    res = {}
    by_attr = {}
    for m in ms:
        by_attr.setdefault(m["attr"], []).append(m)
    for attr, lst in by_attr.items():
        klass = None
        shape = shapes.get(attr)
        if attr == "border_width":
            # every emitted border of every data cell carries the default \brdrw15, whatever was asked
            allw = [o[f"width_{s}"] for o in cells.values() for s in SIDES if o[f"style_{s}"] is not None]
            if allw and all(w == 15 for w in allw) and all(m["obs"] == 15 for m in lst):
                klass = "border-width-not-emitted"
        elif attr.startswith("border_color_"):
            anycf = [o[f"colour_{s}"] for o in cells.values() for s in SIDES if o[f"style_{s}"] is not None]
            if all(v is None for v in anycf) and all(m["obs"] is None for m in lst):
                klass = "border-colour-not-emitted"
        if klass is None and shape == "matrix":
            if all(rows[m["r"]]["p"] > 0 and num_eq(m["obs"], expected_prop(m["prop"], settings, m["r"], m["c"], roff=rows[m["r"]]["p"]))
                   for m in lst):
                klass = "matrix-row-rebased-per-page"
            elif attr == "border_right" and all(
                    rows[m["r"]]["seg"] > 0 and num_eq(m["obs"], expected_prop(m["prop"], settings, m["r"], m["c"], roff=rows[m["r"]]["seg"]))
                    for m in lst):
                klass = "border-right-row-rebased-per-segment"
        res[attr] = klass
    return res


def judge(add, cnt, shapes, settings, colidx, cells, rows, twin, nrow, npages, tagl="D"):
    """both oracles for ONE table (section): (a) direct rule, row-level consistency, (b) comparison with the huge-nrow twin"""
    # (a) direct rule
    ms = direct(cells, rows, settings, colidx)
    klasses = classify_cell_mismatches(ms, shapes, cells, rows, settings, colidx)
    for attr in sorted({m["attr"] for m in ms}):
        lst = [m for m in ms if m["attr"] == attr]
        m = lst[0]
        add(klasses[attr], attr, "direct",
            f"{attr} ({shapes.get(attr, 'not varied')}): {(m['blank'] + ' ') if m['blank'] else ''}cell {tagl}{m['r']}.{m['j']} (original column {m['c']}, page starting at row {rows[m['r']]['p']}) "
            f"shows {m['prop']}={show(m['obs'])}, the attribute specifies {show(m['exp'])}", len(lst))

    # row-level attributes: consistency
    def row_pairs(rws, attr, rebased=False):
        prop = ROW_ATTRS[attr][0]
        return [(ref(settings[attr], r - (ri["p"] if rebased else 0), 0), ri[prop], f"row {r}") for r, ri in sorted(rws.items())]

    for attr, (prop, _) in ROW_ATTRS.items():
        probs = consistency(row_pairs(rows, attr), ordered=(attr == "cell_height"))
        if probs:
            klass = None
            if shapes.get(attr) == "matrix" and not consistency(row_pairs(rows, attr, True), ordered=(attr == "cell_height")):
                klass = "matrix-row-rebased-per-page"
            add(klass, attr, "direct", f"{attr} ({shapes.get(attr, 'not varied')}): {probs[0]}", len(probs))

    # (b) metamorphic: same table, huge nrow
    if nrow != HUGE:
        if isinstance(twin, str):
            add(None, "document", "metamorphic", f"unpaginated twin raised {twin}")
        else:
            cells2, rows2, pages2, npages2 = twin
            diffs = {}
            for key, o in sorted(cells.items()):
                o2 = cells2.get(key)
                if o2 is None:
                    add(None, "document", "metamorphic", f"cell {tagl}{key[0]}.{key[1]} missing in the unpaginated twin")
                    continue
                r = key[0]
                c = colidx[key[1]]
                for prop in CELL_PROPS:
                    if skip_prop(prop, o, rows[r]) or skip_prop(prop, o2, rows2[r]):
                        continue
                    if prop.endswith("_r") and o["last"] != o2["last"]:
                        continue
                    if prop[:5] in ("width", "colou") and (o["style_" + prop[-1]] is None or o2["style_" + prop[-1]] is None):
                        continue
                    if not num_eq(o[prop], o2[prop]):
                        attr = attr_of_prop(prop)

                        def explained(ob, rw):
                            if num_eq(ob, expected_prop(prop, settings, r, c)):
                                return True
                            if shapes.get(attr) != "matrix":
                                return False
                            return rw["p"] > 0 and num_eq(ob, expected_prop(prop, settings, r, c, roff=rw["p"]))

                        def explained_seg(ob, rw):
                            if num_eq(ob, expected_prop(prop, settings, r, c)):
                                return True
                            return shapes.get(attr) == "matrix" and attr == "border_right" and rw["seg"] > 0 and \
                                num_eq(ob, expected_prop(prop, settings, r, c, roff=rw["seg"]))

                        if explained(o[prop], rows[r]) and explained(o2[prop], rows2[r]):
                            k = "matrix-row-rebased-per-page"
                        elif explained_seg(o[prop], rows[r]) and explained_seg(o2[prop], rows2[r]):
                            k = "border-right-row-rebased-per-segment"
                        else:
                            k = None
                        diffs.setdefault((attr, k), []).append((key, prop, o[prop], o2[prop]))
            for (attr, k), lst in sorted(diffs.items(), key=str):
                key, prop, a, bb = lst[0]
                add(k, attr, "metamorphic", f"{attr} ({shapes.get(attr, 'not varied')}): {(cells[key]['blank'] + ' ') if cells[key]['blank'] else ''}cell {tagl}{key[0]}.{key[1]} has {prop}={show(a)} with nrow={nrow} "
                    f"({npages} pages) but {show(bb)} with nrow={HUGE} ({npages2} pages)", len(lst))
            for attr, (prop, _) in ROW_ATTRS.items():
                bad = [r for r in sorted(rows) if r in rows2 and rows[r][prop] != rows2[r][prop]]
                if bad:
                    klass = None
                    if shapes.get(attr) == "matrix" and not consistency(row_pairs(rows, attr, True) + row_pairs(rows2, attr, True),
                                                                        ordered=(attr == "cell_height")):
                        klass = "matrix-row-rebased-per-page"
                    r = bad[0]
                    add(klass, attr, "metamorphic", f"{attr} ({shapes.get(attr, 'not varied')}): row {r} emitted as {rows[r][prop]!r} with nrow={nrow} "
                        f"but {rows2[r][prop]!r} with nrow={HUGE}", len(bad))
            cnt["metamorphic-pairs"] = 1


def eval_multi(case: dict) -> dict:
    """multi-section document: every section's cells are judged against THAT section's body"""
    viol, cnt = [], {}

    def adder(si):
        def add(klass, attr, kind, detail, count=1):
            viol.append({"klass": klass, "sig": f"{klass or 'unclassified'}:{attr}:{kind}:section",
                         "detail": f"section {si + 1} of {len(case['sections'])}: " + detail + (f" [{count} cell(s)/row(s)]" if count > 1 else "")})
        return add

    try:
        b, settings, doc = render(multi_spec(case))
    except Exception as e:
        return {"viol": [{"klass": None, "sig": f"encode-raised-{type(e).__name__}", "detail": f"{type(e).__name__}: {e}"}],
                "nt": False, "cnt": {"encode-raised": 1}}
    if doc.errors:
        adder(0)(None, "document", "unparseable", str(doc.errors[:3]))
    npages = len(doc.pages)
    twin = twin_of(case, None) if case["nrow"] != HUGE else None
    colidx = {j: j for j in range(K)}
    later_paginated = False
    paginated_sections = 0
    for si, (sb, sc) in enumerate(zip(b.sections, case["sections"])):
        add = adder(si)
        tagl = "ABCDE"[si]
        cells, rows, pages, problems = observe(doc, sb.shown, tag=tagl)
        for p in problems:
            add(None, "document", "structure", p)
        if len(cells) != sc["n"] * K:
            add(None, "document", "cells-missing", f"{len(cells)} data cells found, {sc['n'] * K} expected")
        shapes = {a: sa[0] for a, sa in (sc.get("attrs") or {}).items()}
        tw = twin if (twin is None or isinstance(twin, str)) else twin[si]
        judge(add, cnt, shapes, settings[si], colidx, cells, rows, tw, case["nrow"], npages, tagl)
        cnt["cells-checked"] = cnt.get("cells-checked", 0) + len(cells)
        if si > 0 and sum(1 for p in pages if p) > 1:
            later_paginated = True
        if sum(1 for p in pages if p) > 1:
            paginated_sections = paginated_sections + 1
    cnt["multi-section-documents"] = 1
    if later_paginated:
        cnt["multi-section-later-section-paginated"] = 1
    if paginated_sections == len(case["sections"]):
        cnt["multi-section-every-section-paginated"] = 1
    if paginated_sections >= 2 and len({a for sc in case["sections"] for a, sa in (sc.get("attrs") or {}).items() if sa[0] == "matrix"}) >= 2:
        cnt["multi-section-matrices-on-different-attributes-all-paginated"] = 1
    return {"viol": viol, "nt": True, "cnt": cnt, "sample": None}


def eval_case(case: dict) -> dict:
    if case.get("sections"):
        return eval_multi(case)
    viol, cnt = [], {}
    shapes = {a: sa[0] for a, sa in (case.get("attrs") or {}).items()}

    def add(klass, attr, kind, detail, count=1):
        viol.append({"klass": klass, "sig": f"{klass or 'unclassified'}:{attr}:{kind}", "detail": detail + (f" [{count} cell(s)/row(s) in this document]" if count > 1 else "")})

    spec = case_spec(case)
    try:
        b, settings, doc = render(spec)
    except Exception as e:
        return {"viol": [{"klass": None, "sig": f"encode-raised-{type(e).__name__}", "detail": f"{type(e).__name__}: {e}"}],
                "nt": False, "cnt": {"encode-raised": 1}}
    if doc.errors:
        add(None, "document", "unparseable", str(doc.errors[:3]))
    order = b.colnames
    colidx = {j: order.index(f"c{j}") for j in range(case.get("k", K))}
    cells, rows, pages, problems = observe(doc, b.shown, blanks=case.get("k", K) > 1)
    for p in problems:
        add(None, "document", "structure", p)
    n = case["n"]
    if len(cells) != n * len(colidx):
        add(None, "document", "cells-missing", f"{len(cells)} tagged data cells found, {n * len(colidx)} expected")

    npages = len(doc.pages)
    twin = twin_of(case, order) if case["nrow"] != HUGE else None
    judge(add, cnt, shapes, settings, colidx, cells, rows, twin, case["nrow"], npages)

    cnt["cells-checked"] = len(cells)
    for (r, j), o in cells.items():
        if o["blank"]:
            cnt[f"blank-{o['blank']}-cells-checked"] = cnt.get(f"blank-{o['blank']}-cells-checked", 0) + 1
            if rows[r]["first"] and rows[r]["p"] > 0:
                cnt["blank-cell-on-first-row-of-a-later-page"] = 1
            if r == n - 1:
                cnt["blank-cell-in-last-row"] = 1
    cnt["pages=1" if npages == 1 else "pages>1"] = 1
    if npages > 1 and all(len(p) == 1 for p in pages):
        cnt["one-row-per-page"] = 1
    if case.get("removal"):
        cnt[f"removed-{len(case['removal'])}"] = 1
    if case.get("k", K) == 1:
        cnt["one-displayed-column-by-removal" if case.get("removal") else "one-displayed-column-by-construction"] = 1
    for a, s in shapes.items():
        s = shape_family(s)
        cnt[f"shape-{s}"] = cnt.get(f"shape-{s}", 0) + 1
    if case.get("removal") and any(shape_family(s) in ("cols", "grid") for s in shapes.values()):
        removed_idx = [i for i, name in enumerate(order) if not name.startswith("c")]
        if any(ci > min(removed_idx) for ci in colidx.values()):
            cnt["short-column-vector-right-of-a-removed-column"] = 1
    for s in shapes.values():
        if s.startswith("pattern") and any(p and p[0] % pattern_rows(s) for p in pages[1:]):
            cnt["pattern-on-page-starting-off-cycle"] = 1
    if "matrix" in shapes.values() and any(p and p[0] % 3 for p in pages[1:]):
        cnt["matrix-on-page-starting-off-cycle"] = 1
    if any(ri["seg"] != ri["p"] for ri in rows.values()):
        cnt["mid-page-segment"] = 1
    nt = npages >= 2 or bool(case.get("removal")) or any(s != "scalar" for s in shapes.values())
    sample = None
    if not viol and npages >= 2 and any(s != "scalar" for s in shapes.values()) and case.get("removal"):
        sample = {"pages": pages, "cell D1.1": {k: (sorted(v) if isinstance(v, frozenset) else v) for k, v in cells.get((1, 1), {}).items()
                                                 if k in ("font", "size", "format", "just", "style_l")}}
    return {"viol": viol, "nt": nt, "cnt": cnt, "sample": sample}


# --------------------------------------------------------------------------- enumeration


def removal_variants(k, full):
    out = [None]
    for kind in ("pb", "sl"):
        for pos in range(k + 1):
            out.append([[kind, pos]])
    out.append([["pb", 0], ["pb", k]])
    out.append([["sl", 0], ["sl", 2]])
    out.append([["pb", 1], ["sl", k]])
    out.append([["sl", 0], ["pb", 0]])
    if full:
        for a, bpos in itertools.combinations(range(k + 1), 2):
            for kinds in (("pb", "sl"), ("sl", "pb")):
                v = [[kinds[0], a], [kinds[1], bpos]]
                if v not in out:
                    out.append(v)
    return out


def ladder(n, tier):
    if n == 1:
        return [HUGE]
    if tier == "quick":
        steps = [1, 2, 3] if n <= 4 else [1, 2, 4, 7]
    else:
        steps = [1, 2, 3, 4, 5, 7, 11, 17, 25]
    return [s for s in steps if s <= n] + [HUGE]


def pattern_shapes(n, quick):
    """row patterns of R rows, 1 < R < n.  The nrow ladders make page starts fall on every residue mod 2 and mod 3
    (n = 9, quick: starts 1..8 / 2,4,6,8 / 4,8 / 7), so each R meets page starts that are not multiples of R."""
    if n < 4:
        return ()
    if quick:
        rs = (3,) if n == 4 else (2, 3)
    else:
        rs = (2, 3) if n == 4 else (2, 3, 4) if n == 9 else (3, 7)
    return tuple(f"pattern{r}" for r in rs if r < n)


def column_short_shapes(n, ncol, quick):
    """per-column vectors of k values, 2 <= k < ncol (ncol = ORIGINAL column count incl. the columns page_by / subline_by remove),
    and one grid that is short in both directions"""
    ks = sorted({2, ncol - 1}) if quick else list(range(2, ncol))
    if n == 1 and quick:
        return ()  # the 4-row tables subsume the single-row ones for column recycling
    out = [f"cols{k}" for k in ks if 2 <= k < ncol]
    if n >= 4 and (n == 4 or not quick):
        out.append("grid3x2")
    return tuple(out)


def short_ladder(n, quick):
    """the column-short shapes are about column slicing, not page starts: reduced nrow ladder"""
    if n == 1:
        return [HUGE]
    if quick:
        return [2, HUGE] if n == 4 else [HUGE]
    return [s for s in (1, 2, 5) if s <= n] + [HUGE]


def plan(run):
    quick = run.tier == "quick"
    sizes = (1, 4, 9) if quick else (1, 4, 9, 16, 40)
    run.rule = ("every body attribute (25) x shape {scalar, 1 x ncol, nrow x ncol, row pattern of R rows with 1 < R < nrow (R in 2,3; thorough also 4,7) recycled "
                "down the table: original row r shows pattern[r mod R], per-column vector of k values with 2 <= k < ORIGINAL column count (k = 2 and "
                "ncol-1; thorough every k) recycled across the original columns: original column c shows vector[c mod k], one 3 x 2 grid short in "
                "both directions; the column-short shapes on a reduced nrow ladder; tuple form = one value per row recycled across the columns}, values alphabet[(2r+c) mod 3] over the ORIGINAL frame shape "
                f"x rows {sizes} x nrow ladder from one row per page to one page x column removal {{none; page_by or subline_by removing 1 column at "
                "every position; four 2-column removals (thorough: every position pair)}} incl. page_by with new_page; 3 data columns, one cell per row blank (null / empty string on a diagonal, so blanks hit first, middle and last rows and page starts). Quick: one "
                "attribute at a time, one of three value alphabets per attribute rotated by VERIF_SEED; thorough: all three alphabets and every "
                "position pair for tables of <= 9 rows, first alphabet for 16 and 40 rows, plus all pairs of attributes x shapes on a reduced layout set. Every case is evaluated by the direct rule and against its huge-nrow twin. "
                "Plus: tables with exactly ONE displayed column (1 data column, alone or with page_by / subline_by columns removed) x {nrow x 1 matrix, "
                "3 x 1 pattern, tuple} and tuple-form attributes on the 3-column tables; 2-/3-section documents whose section bodies differ in one "
                "attribute ({scalar, other scalar}, {scalar, matrix}, {matrix, scalar}, {unset, scalar}, {scalar, unset}, {unset, matrix}; matrix on attribute X "
                "then matrix on another attribute Y), section sizes such that only the later section / every section spans >= 2 pages, "
                "every cell judged against its own section's body. "
                "non-trivial = >= 2 pages, or a column removed, or a non-scalar shape, or several sections; distinct = distinct case")
    run.assumptions = [
        "every data row has exactly one blank cell ((r + j) mod 3 == 0: null on even rows, \"\" on odd rows) and two tagged ones; cells are "
        "identified by position within their tagged row, and a blank cell's character formatting is read from its text-less run group "
        "(reader: Cell.empty_runs) - an empty cell is a rendered data cell and must carry the same formatting",
        "the RTF reader (mc/rtfreader) extracts character, paragraph, cell and border properties correctly; cells are found by D<r>.<c> tags only",
        "attributes that a case does not vary are expected at the value the constructed RTFBody reports through its public fields",
        "top border of each page's first data row / bottom border of each page's last data row are prescribed by C07 and excluded here",
        "a right border on an interior cell may be omitted (the shared edge is drawn by the neighbour's left border); a wrong style there is a violation",
        "line spacing 1 may be emitted as no \\sl (RTF default single spacing); absent \\hyphpar counts as hyphenation off",
        "row height and row justification: consistency only (equal settings <=> equal emitted value, height order preserved)",
        "colour names are judged by their R colors() RGB values (nine names listed in the module)",
    ]
    cases = []
    for ai, attr in enumerate(ALL_ATTRS):
        nalpha = len((CELL_ATTRS.get(attr) or ROW_ATTRS.get(attr))[1])
        alphas = [(run.seed + ai) % nalpha] if quick else list(range(nalpha))
        for alpha in alphas:
            for n in sizes:
                if n > 9 and alpha != alphas[0]:
                    continue  # the large tables (thorough only) use the first alphabet
                for shape in ("scalar", "row", "matrix") + pattern_shapes(n, quick):
                    if n == 1 and shape == "matrix":
                        continue
                    if shape.startswith("pattern") and shape != "pattern3" and alpha != alphas[0]:
                        continue  # thorough: the extra pattern lengths use the first alphabet
                    for rem in removal_variants(K, not quick and n <= 9):
                        if n == 1 and rem and len(rem) > 1:
                            continue
                        variants = [{}]
                        if rem == [["pb", 1]]:
                            variants.append({"new_page": True})
                        if rem in (None, [["pb", 1]]) and shape == "matrix":
                            variants.append({"header": "default"})
                        for var in variants:
                            for nrow in ladder(n, run.tier):  # innermost: the ladder shares one huge-nrow twin
                                if var and nrow not in (2, 3, HUGE):
                                    continue
                                c = {"n": n, "nrow": nrow, "attrs": {attr: [shape, alpha]}, **var}
                                if rem:
                                    c["removal"] = rem
                                cases.append(c)
                # per-column vectors shorter than the ORIGINAL column count, recycled across columns
                for rem in removal_variants(K, not quick and n <= 9):
                    if n == 1 and rem and len(rem) > 1:
                        continue
                    for shape in column_short_shapes(n, K + len(rem or []), quick):
                        if alpha != alphas[0] and shape not in ("cols2", "cols3"):
                            continue
                        for var in ([{}, {"new_page": True}] if rem == [["pb", 1]] else [{}]):
                            for nrow in short_ladder(n, quick):
                                c = {"n": n, "nrow": nrow, "attrs": {attr: [shape, alpha]}, **var}
                                if rem:
                                    c["removal"] = rem
                                cases.append(c)
    run.layer("one-attribute", "mc.props.c09:eval_case", cases, chunk=40, total=len(cases))

    # tables with exactly ONE displayed column (by construction, and because page_by / subline_by removed the others):
    # nrow x 1 attributes; and attributes in tuple form (one value per row, recycled across the columns)
    single = []
    rems1 = [None, [["pb", 0]], [["sl", 1]], [["pb", 0], ["sl", 1]]] + ([] if quick else [[["pb", 1]], [["sl", 0]], [["pb", 0], ["pb", 1]]])
    for ai, attr in enumerate(ALL_ATTRS):
        nalpha = len((CELL_ATTRS.get(attr) or ROW_ATTRS.get(attr))[1])
        for alpha in ([(run.seed + ai) % nalpha] if quick else range(nalpha)):
            for rem in rems1:
                for n, shps, nrows in ((4, ("matrix", "pattern3", "tuple"), (2, HUGE) if quick else (1, 2, 3, HUGE)),
                                       (9, ("matrix", "tuple"), (4,) if quick else (1, 2, 4, 7, HUGE))):
                    for shape in shps:
                        for nrow in nrows:
                            c = {"n": n, "k": 1, "nrow": nrow, "attrs": {attr: [shape, alpha]}}
                            if rem:
                                c["removal"] = rem
                            single.append(c)
            for rem in (None, [["pb", 1]], [["sl", 0]]):
                for n, nrows in ((4, (2, HUGE)),) if quick else ((4, (1, 2, HUGE)), (9, (2, 4, HUGE))):
                    for nrow in nrows:
                        c = {"n": n, "nrow": nrow, "attrs": {attr: ["tuple", alpha]}}
                        if rem:
                            c["removal"] = rem
                        single.append(c)
    run.layer("one-displayed-column-and-tuple-form", "mc.props.c09:eval_case", single, chunk=40, total=len(single))

    # multi-section documents whose bodies differ in one attribute: every cell against its OWN section's body
    multi = []
    for ai, attr in enumerate(ALL_ATTRS):
        other = ALL_ATTRS[(ai + 7) % len(ALL_ATTRS)]  # a different attribute for the cross pairs
        two = [[["scalar", 0], ["scalar", 0, 1]], [["scalar", 0], ["matrix", 0]], [["matrix", 0], ["scalar", 0, 1]],
               [None, ["scalar", 0]], [["scalar", 0], None], [None, ["matrix", 0]]]
        if not quick:
            two += [[["row", 0], ["matrix", 0, 1]], [["matrix", 0], ["matrix", 0, 1]], [["pattern3", 0], ["row", 0, 1]]]
        # (2, 4): only the later section spans pages; (4, 4) / (4, 9): EVERY section spans >= 2 pages at the small nrow values
        for sa, sb_ in two:
            for sizes in ((2, 4), (4, 4)) if quick else ((2, 4), (4, 4), (4, 9)):
                for nrow in (2, HUGE) if quick else (1, 2, 3, HUGE):
                    if quick and nrow == HUGE and sizes != (2, 4):
                        continue  # without page breaks the section sizes make no difference
                    multi.append({"sections": [{"n": sizes[0], **({"attrs": {attr: sa}} if sa else {})},
                                               {"n": sizes[1], **({"attrs": {attr: sb_}} if sb_ else {})}], "nrow": nrow})
        # section 1: matrix on attribute X, section 2: matrix on another attribute Y (and the mirror image), all sections paginated
        for sizes in ((4, 4),) if quick else ((4, 4), (2, 4), (4, 9)):
            for nrow in (2,) if quick else (1, 2, 3, HUGE):
                multi.append({"sections": [{"n": sizes[0], "attrs": {attr: ["matrix", 0]}},
                                           {"n": sizes[1], "attrs": {other: ["matrix", 0]}}], "nrow": nrow})
        # three sections: only the later ones paginated / all paginated
        for s3 in ((2, 4, 3), (4, 4, 3)):
            for nrow in (2,) if quick else (1, 2, HUGE):
                multi.append({"sections": [{"n": s3[0], "attrs": {attr: ["scalar", 0]}}, {"n": s3[1], "attrs": {attr: ["matrix", 0]}},
                                           {"n": s3[2], "attrs": {attr: ["scalar", 0, 1]}}], "nrow": nrow})
                multi.append({"sections": [{"n": s3[0], "attrs": {attr: ["matrix", 0]}}, {"n": s3[1], "attrs": {other: ["scalar", 0]}},
                                           {"n": s3[2], "attrs": {other: ["matrix", 0]}}], "nrow": nrow})
    run.layer("multi-section-bodies", "mc.props.c09:eval_case", multi, chunk=30, total=len(multi))
    if not quick:
        pairs = []
        layouts = [(4, 2), (9, 4), (9, HUGE)]
        rems = [None, [["pb", 1]], [["sl", 0]], [["pb", 0], ["sl", K]]]
        for a1, a2 in itertools.combinations(ALL_ATTRS, 2):
            for s1, s2 in itertools.product(("scalar", "row", "matrix", "pattern3"), repeat=2):
                for n, nrow in layouts:
                    if n == 4 and "pattern3" in (s1, s2) and s1 != s2:
                        continue  # mixed pattern pairs on the 9-row layouts only
                    for rem in rems:
                        c = {"n": n, "nrow": nrow, "attrs": {a1: [s1, 0], a2: [s2, 0]}}
                        if rem:
                            c["removal"] = rem
                        pairs.append(c)
        run.layer("attribute-pairs", "mc.props.c09:eval_case", pairs, chunk=40, total=len(pairs))
    for need in ("pages=1", "pages>1", "one-row-per-page", "removed-1", "removed-2", "shape-scalar", "shape-row", "shape-matrix", "shape-pattern", "shape-cols", "shape-grid", "shape-tuple",
                 "one-displayed-column-by-construction", "one-displayed-column-by-removal", "multi-section-documents",
                 "multi-section-later-section-paginated", "multi-section-every-section-paginated",
                 "multi-section-matrices-on-different-attributes-all-paginated",
                 "short-column-vector-right-of-a-removed-column",
                 "matrix-on-page-starting-off-cycle", "pattern-on-page-starting-off-cycle", "blank-null-cells-checked",
                 "blank-empty-string-cells-checked", "blank-cell-on-first-row-of-a-later-page", "blank-cell-in-last-row", "mid-page-segment", "metamorphic-pairs", "cells-checked"):
        if not run.cnt.get(need):
            run.harness_errors.append({"layer": "vacuity", "case": None, "error": f"counter {need} is zero: that part of the property was never exercised"})

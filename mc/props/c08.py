"""C08 - all rows of a table share one right edge and proportional columns.

Space (exhaustive): column count x col_rel_width mode {all 1 (unset); 1..n ascending; one 10 among 0.2s}
x width scope {given for all original columns, given for the displayed columns only} x header mode
{default (auto), explicit inheriting, explicit with own widths, two-row spanning with own widths,
two-row spanning whose second row inherits, none} x column removal {none; page_by / subline_by removing
1 column at first / middle / last position; 2 columns (two page_by levels, two subline_by levels,
page_by + subline_by)} x col_width {2, 6.25, 8.5, 12}, all with table-rendered footnote and source;
radius-2 ball over orientation / footnote / source / nrow / new_page / pageby_header / row count around
anchors; 2- and 3-section documents with different column counts; header stacks whose rows have their own
cell count (one full-span cell, fewer cells than columns) and own col_rel_width of that length (one-element
list, scalar, list), alone and combined, single- and multi-section; documents whose body / column-header
objects were used by an earlier document with another column count.

Oracle (from the property text, on the re-parsed RTF):  W = round(col_width*1440).
  every table row              last \\cellx == W +-1
  data row                     one cell per displayed column, boundary i == W*cum(rel displayed)_i/total +-1
  header row, inherited widths same boundaries as the data rows, cell by cell
  header row, own widths       boundary i == W*cum(own)_i/total +-1
  group heading / table footnote / table source     exactly one cell, boundary W +-1
"""
from __future__ import annotations

import itertools

from ..rtfreader.reader import parse
from ..spec import docspec

PID = "C08"
LEVEL = "exploration"
TECHNIQUE = ("bounded exhaustive enumeration of the column-layout configuration product (plus radius-2 ball, multi-section "
             "and component-reuse layers) on the real encoder; \\cellx boundaries of every re-parsed row compared with the "
             "proportional-width rule")
LEVEL_TEXT = ("exploration, exhaustive inside the stated bounds: every configuration of the finite layout product is built with "
              "the public API, encoded and re-read; the property is a per-document predicate on \\cellx values, so complete "
              "enumeration of the small configuration space is the strongest statement available short of proof")
LEVEL_NOTE = ("trusted base: mc/rtfreader (cellx extraction) and the sentinel-tag role classification of mc/spec/docspec; "
              "tolerance one twip as the property states")

TOL = 1.0 + 1e-6


# --------------------------------------------------------------------------- reference (boring)


def bounds(rel, w_in):
    """Exact (unrounded) right boundaries in twips of columns with relative widths rel in a table w_in inches wide."""
    tot = float(sum(rel))
    out, cum = [], 0.0
    for w in rel:
        cum += w
        out.append(w_in * 1440.0 * cum / tot)
    return out


def close(obs, exp):
    return len(obs) == len(exp) and all(o is not None and abs(o - e) <= TOL for o, e in zip(obs, exp))


def rel_vector(mode, k, pos=0):
    if mode == "none":
        return None
    if mode == "asc":
        return [float(i + 1) for i in range(k)]
    if mode == "one10":
        return [10.0 if i == pos % k else 0.2 for i in range(k)]
    # vectors with REPEATED values that are not all equal: a column's width also occurs at other columns
    if mode == "alt21":
        return [2.0 if i % 2 == 0 else 1.0 for i in range(k)]
    if mode == "alt13":
        return [1.0 if i % 2 == 0 else 3.0 for i in range(k)]
    if mode == "pairs221":
        return [1.0 if i % 3 == 2 else 2.0 for i in range(k)]
    raise ValueError(mode)


# --------------------------------------------------------------------------- case -> DocSpec


def _keys(n, level, kind):
    """group key vector: level 0 = two halves, level 1 = alternating inside"""
    if level == 0:
        h = (n + 1) // 2
        return [0 if r < h else 1 for r in range(n)]
    return [r % 2 for r in range(n)]


def colorder_for(k, removal):
    """removal: list of [kind, position-name]; kind 'pb' / 'sl'; position 'first' / 'mid' / 'last'.
    -> (colorder, page_by level count, subline_by level count)"""
    data = [f"c{j}" for j in range(k)]
    npb = nsl = 0
    inserts = []  # (index in data, name)
    for kind, posname in removal:
        idx = {"first": 0, "mid": max(k // 2, 0), "last": k}[posname]
        if kind == "pb":
            name = f"g{npb}"
            npb += 1
        else:
            name = f"u{nsl}"
            nsl += 1
        inserts.append((idx, name))
    order = list(data)
    # insert from the right so that indices stay valid; equal index keeps the given order
    for idx, name in sorted(inserts, key=lambda t: -t[0]):
        order.insert(idx, name)
    return order, npb, nsl


def section_spec(sec: dict, n: int) -> dict:
    """One table section described by the small case dict -> DocSpec keys."""
    k = sec["k"]
    removal = sec.get("removal") or []
    order, npb, nsl = colorder_for(k, removal)
    spec = {"n": n, "cols": ["s"] * k, "colorder": order}
    if npb:
        spec["page_by"] = [_keys(n, l, "pb") for l in range(npb)]
    if nsl:
        spec["subline_by"] = [_keys(n, l, "sl") for l in range(nsl)]
    for key in ("new_page", "pageby_row", "pageby_header"):
        if key in sec:
            spec[key] = sec[key]
    will_remove = [c for c in order if c.startswith("u") or (c.startswith("g") and not (sec.get("new_page") and sec.get("pageby_row", "column") == "column"))]
    shown = [c for c in order if c not in will_remove]
    relmode = sec.get("rel", "none")
    scope = sec.get("scope", "all")
    pos = sec.get("relpos", 0)
    if relmode != "none":
        if scope == "shown":
            spec["col_rel_width"] = rel_vector(relmode, len(shown), pos)
        else:
            spec["col_rel_width"] = rel_vector(relmode, len(order), pos)
    hm = sec.get("header", "default")
    if hm == "explicit_own":
        spec["header"] = "explicit"
        # own widths, deliberately different from the body's: descending
        spec["header_attrs"] = {"col_rel_width": [float(len(shown) - i) + 0.5 for i in range(len(shown))]}
    elif hm == "two_inherit":
        spec["header"] = "two"
        spec["two_widths"] = False
    elif hm == "stack":
        spec["header"] = "stack"
        spec["header_stack"] = [stack_row(ck, wk, len(shown)) for ck, wk in sec["stack"]]
    else:
        spec["header"] = hm
    return spec


def stack_cells(cells_kind, ncols):
    """number of cells of a header row: 1 (one full-span cell), 'mid' (2, fewer than the columns), 'pen' (ncols - 1), 'all'"""
    if cells_kind == 1:
        return 1
    if cells_kind == "mid":
        return 2 if ncols >= 3 else None
    if cells_kind == "pen":
        return ncols - 1 if ncols >= 4 else None
    return ncols


def stack_row(cells_kind, widths_kind, ncols):
    """header row with its OWN explicit col_rel_width of the row's own length (one-element list, scalar, list), or inheriting"""
    m = stack_cells(cells_kind, ncols)
    if widths_kind == "inherit":
        w = None
    elif widths_kind == "scalar":
        w = 1
    elif widths_kind == "single":
        w = [2.5]
    elif widths_kind == "ones":
        w = [1] * m
    else:  # ascending
        w = [float(i + 1) for i in range(m)]
    return {"cells": m, "widths": w}


def stack_valid(stack, ncols):
    for ck, wk in stack:
        m = stack_cells(ck, ncols)
        if m is None or (wk in ("scalar", "single") and m != 1) or (wk == "inherit" and m != ncols):
            return False
    return True


def case_spec(case: dict) -> dict:
    n = case.get("n", 4)
    page = {}
    if case.get("col_width") is not None:
        page["col_width"] = case["col_width"]
    if case.get("orientation"):
        page["orientation"] = case["orientation"]
    if case.get("nrow"):
        page["nrow"] = case["nrow"]
    if case.get("sections"):
        spec = {"kind": "multi", "sections": [section_spec(s, n) for s in case["sections"]],
                "multi_header": case.get("multi_header", "nested")}
    else:
        spec = section_spec(case, n)
    spec["page"] = page
    spec["title"] = 1
    spec["footnote"] = case.get("footnote", "table")
    spec["source"] = case.get("source", "table")
    if case.get("earlier"):
        e = dict(case["earlier"])
        spec["earlier"] = case_spec({**e, "col_width": case.get("col_width"), "footnote": None, "source": None})
        spec["reuse"] = case.get("reuse", "both")
        spec["earlier_encode"] = case.get("earlier_encode", True)
    return spec


# --------------------------------------------------------------------------- oracle


def expected_for_section(built, sspec, w_in):
    """-> dict: data boundaries, per header-row (kind, boundaries), unsliced boundaries (classifier)"""
    shown, order = built.shown, built.colnames
    rel = sspec.get("col_rel_width")
    if rel is not None and len(rel) == 1 and len(order) > 1:
        # a single value is broadcast to every original column by the constructor; either reading
        # (one value for the one displayed column / for all columns) gives equal displayed widths
        rel = [rel[0]] * len(order)
    if rel is None:
        rel_shown = [1.0] * len(shown)
        rel_unsliced = [1.0] * len(order)
    elif len(rel) == len(order):
        rel_shown = [w for w, c in zip(rel, order) if c in shown]
        rel_unsliced = list(rel)
    else:
        rel_shown = list(rel)
        rel_unsliced = None  # widths were given for the displayed columns: nothing to slice
    data = bounds(rel_shown, w_in)
    hm = sspec.get("header", "default")
    hdr = {}
    if hm in ("default", "explicit"):
        own = (sspec.get("header_attrs") or {}).get("col_rel_width")
        hdr[0 if hm == "explicit" else "auto"] = ("own", bounds(own, w_in)) if own else ("inherited", data)
    elif hm == "two":
        k = len(shown)
        span = [max(1, k // 2), max(1, k - k // 2)] if k > 1 else [1]
        hdr[0] = ("own", bounds(span, w_in))
        hdr[1] = ("own", data) if sspec.get("two_widths", True) else ("inherited", data)
    elif hm == "stack":
        # every header row stands on its own: its cell count is its own, its widths are proportional to ITS col_rel_width
        for r, row in enumerate(sspec["header_stack"]):
            w = row["widths"]
            if w is None:
                hdr[r] = ("inherited", data)
            else:
                hdr[r] = ("own", bounds(list(w) if isinstance(w, (list, tuple)) else [w], w_in))
    unsliced = bounds(rel_unsliced, w_in) if rel_unsliced is not None and len(order) != len(shown) else None
    return {"data": data, "hdr": hdr, "unsliced": unsliced, "ncols": len(shown)}


def eval_case(case: dict) -> dict:
    spec = case_spec(case)
    viol = []
    cnt = {}
    try:
        b = docspec.build(spec)
    except Exception as e:
        return {"viol": [{"klass": None, "sig": f"construct-raised-{type(e).__name__}", "detail": f"{type(e).__name__}: {e}"}],
                "nt": False, "cnt": {"construct-raised": 1}}
    w_in = b.doc.rtf_page.col_width if case.get("col_width") is None else case["col_width"]
    W = round(w_in * 1440)
    earlier_bounds = None
    if b.earlier is not None:
        ea = b.earlier
        erel = ea.spec.get("col_rel_width") or [1.0] * len(ea.colnames)
        earlier_bounds = bounds(erel, w_in)
    try:
        out = b.doc.rtf_encode()
    except Exception as e:
        klass = None
        if b.earlier is not None and isinstance(e, IndexError):
            # narrow: the public col_rel_width field of at least one re-used component still has the earlier
            # document's length, which is shorter than this document's column count (a 1-column body is re-broadcast
            # by the constructor, its header is not)
            n_now, n_before = len(b.colnames), len(b.earlier.colnames)
            comps = []
            if case.get("reuse", "both") in ("body", "both"):
                comps.append(b.doc.rtf_body)
            if case.get("reuse", "both") in ("header", "both"):
                comps.extend(b.doc.rtf_column_header)
            if n_before < n_now and any(c.col_rel_width is not None and len(c.col_rel_width) == n_before for c in comps):
                klass = "reused-component-keeps-earlier-widths"
        return {"viol": [{"klass": klass, "sig": f"encode-raised-{type(e).__name__}", "detail": f"{type(e).__name__}: {e}"}],
                "nt": False, "cnt": {"encode-raised": 1}}
    doc = parse(out)
    if doc.errors:
        viol.append({"klass": None, "sig": "unparseable-" + doc.errors[0][0], "detail": str(doc.errors[:3])})

    if b.sections:
        secs = {SECTION_TAGS_MULTI[i]: (sb, expected_for_section(sb, sb.spec, w_in)) for i, sb in enumerate(b.sections)}
    else:
        secs = {"D": (b, expected_for_section(b, spec, w_in))}

    def report(role, obs, exp, what, inherited=False, sec=None):
        """one violation per mismatching row, classified narrowly"""
        klass = None
        if sec is not None and role == "header" and inherited and sec["unsliced"] is not None \
                and len(obs) == sec["ncols"] and close(obs, sec["unsliced"][:len(obs)]):
            klass = "header-keeps-unsliced-widths-after-column-removal"
        elif earlier_bounds is not None and role in ("header", "data") and obs and len(obs) <= len(earlier_bounds) \
                and close(obs, earlier_bounds[:len(obs)]):
            klass = "reused-component-keeps-earlier-widths"
        if len(obs) != len(exp):
            kind = "cell-count"
        elif obs and obs[-1] is not None and abs(obs[-1] - exp[-1]) > TOL:
            kind = "right-edge"
        else:
            kind = "inner-boundary"
        viol.append({"klass": klass, "sig": f"{klass or 'unclassified'}:{role}-{what}-{kind}",
                     "detail": f"{role} row ({what}) has \\cellx {obs}, expected {[round(x, 1) for x in exp]} "
                               f"(col_width {w_in} in = {W} twips)"})

    roles_seen = set()
    npages = len(doc.pages)
    pending = []  # header rows waiting for the data row that tells their section
    for pg in doc.pages:
        for blk in pg.blocks:
            if blk.kind != "row":
                continue
            role, info = docspec.block_role(blk)
            obs = blk.cellx
            cnt[f"rows-{role}"] = cnt.get(f"rows-{role}", 0) + 1
            roles_seen.add(role)
            if role == "data":
                sb, sec = secs.get(info[0], (None, None))
                if sec is None:
                    viol.append({"klass": None, "sig": "data-row-of-unknown-section", "detail": str(blk.texts)})
                    continue
                for hrole, hinfo, hobs in pending:
                    key = "auto" if hinfo[0] == "auto" else hinfo[1]
                    exp = sec["hdr"].get(key)
                    if exp is None:
                        viol.append({"klass": None, "sig": "unexpected-header-row", "detail": f"header row {hinfo} {hobs} in a section configured {sb.spec.get('header')}"})
                        continue
                    kind, e = exp
                    cnt[f"header-{kind}"] = cnt.get(f"header-{kind}", 0) + 1
                    if len(e) == 1 and sec["ncols"] > 1:
                        cnt["header-one-cell-spanning-several-columns"] = cnt.get("header-one-cell-spanning-several-columns", 0) + 1
                    elif 1 < len(e) < sec["ncols"]:
                        cnt["header-fewer-cells-than-columns"] = cnt.get("header-fewer-cells-than-columns", 0) + 1
                    if not close(hobs, e):
                        report("header", hobs, e, f"{kind}-widths", inherited=(kind == "inherited"), sec=sec)
                pending = []
                if not close(obs, sec["data"]):
                    report("data", obs, sec["data"], "proportional", sec=sec)
            elif role == "header":
                pending.append((role, info, obs))
            elif role in ("group", "footnote_table", "source_table", "subline_by_row"):
                if not close(obs, [float(W)]):
                    report(role, obs, [float(W)], "single-cell-full-width")
            else:
                viol.append({"klass": None, "sig": "unidentified-row", "detail": str(blk.texts)})
                # every row, whatever it is, must end at W
                if not obs or obs[-1] is None or abs(obs[-1] - W) > TOL:
                    viol.append({"klass": None, "sig": "row_other-right-edge", "detail": f"{obs} vs {W}"})
    if pending:
        viol.append({"klass": None, "sig": "header-row-without-data", "detail": str([p[2] for p in pending])})
    if cnt.get("rows-data", 0) == 0:
        viol.append({"klass": None, "sig": "no-data-row", "detail": "document has no data row"})
    removal = bool(case.get("removal")) or any(s.get("removal") for s in case.get("sections") or [])
    cnt["pages>1" if npages > 1 else "pages=1"] = 1
    if removal:
        cnt["with-column-removal"] = 1
    if b.sections:
        cnt["multi-section"] = 1
    if b.earlier is not None:
        cnt["reused-components"] = 1
    sample = None
    if removal and case.get("header") == "two" and not viol:
        sample = {"rows": [[docspec.block_role(x)[0], x.cellx] for pg in doc.pages[:1] for x in pg.blocks if x.kind == "row"][:6]}
    return {"viol": viol, "nt": len(roles_seen) >= 2, "cnt": cnt, "sample": sample}


SECTION_TAGS_MULTI = "ABCDE"

# --------------------------------------------------------------------------- enumeration

HEADERS = ("default", "explicit", "explicit_own", "two", "two_inherit", "none")
COL_WIDTHS = (2, 6.25, 8.5, 12)


def removals(k):
    out = [[]]
    pos = ["first", "last"] + (["mid"] if k >= 2 else [])
    for kind in ("pb", "sl"):
        for p in pos:
            out.append([[kind, p]])
    out.append([["pb", "first"], ["pb", "last"]])
    out.append([["sl", "first"], ["sl", "mid" if k >= 2 else "last"]])
    out.append([["pb", "first"], ["sl", "last"]])
    out.append([["sl", "mid" if k >= 2 else "first"], ["pb", "mid" if k >= 2 else "first"]])
    return out


def core_cases(kmax, seed, all_positions):
    cases = []
    for k in range(1, kmax + 1):
        for rem in removals(k):
            for relmode in ("none", "asc", "one10"):
                scopes = ("all", "shown") if rem and relmode != "none" else ("all",)
                for scope in scopes:
                    positions = [seed % (k + len(rem))] if relmode == "one10" else [0]
                    if relmode == "one10" and all_positions:
                        positions = sorted({0, (k + len(rem)) // 2, k + len(rem) - 1})
                    for relpos in positions:
                        for hm in HEADERS:
                            for cw in COL_WIDTHS:
                                c = {"k": k, "header": hm, "col_width": cw}
                                if rem:
                                    c["removal"] = rem
                                if relmode != "none":
                                    c["rel"] = relmode
                                    if scope != "all":
                                        c["scope"] = scope
                                    if relpos:
                                        c["relpos"] = relpos
                                cases.append(c)
    return cases


BALL_DIMS = {
    "orientation": ["landscape"],
    "footnote": [None, "para"],
    "source": [None, "para"],
    "nrow": [5, 8],
    "paging": [{"new_page": True, "pageby_row": "first_row"}, {"new_page": True, "pageby_row": "column"}],
    "pageby_header": [False],
    "n": [1, 7],
    "col_width": [None],          # RTFPage's own default width
}


def ball(anchor, radius):
    names = list(BALL_DIMS)
    out = []
    for r in range(1, radius + 1):
        for dims in itertools.combinations(names, r):
            for vals in itertools.product(*[BALL_DIMS[d] for d in dims]):
                c = dict(anchor)
                ok = True
                for d, v in zip(dims, vals):
                    if d == "paging":
                        if not any(x[0] == "pb" for x in c.get("removal") or []):
                            ok = False
                            break
                        c.update(v)
                    else:
                        c[d] = v
                if ok:
                    out.append(c)
    return out


# header stacks: rows whose cell count differs from the column count (one full-span cell, k < ncols cells), each with an explicit
# col_rel_width of the row's own length (one-element list, scalar, list), alone and above / between other header rows
STACKS = (
    [[1, "ones"]],
    [[1, "scalar"]],
    [["mid", "asc"]],
    [[1, "ones"], ["all", "inherit"]],
    [[1, "scalar"], ["all", "asc"]],
    [[1, "single"], ["mid", "asc"], ["all", "inherit"]],
    [[1, "ones"], ["pen", "ones"], ["all", "inherit"]],
    [["mid", "ones"], ["all", "inherit"]],
    [["all", "inherit"], [1, "single"]],
)


def stack_cases(kmax):
    cases = []
    for k in range(1, kmax + 1):
        for rem in ([], [["pb", "mid" if k >= 2 else "first"]], [["sl", "first"]], [["pb", "first"], ["sl", "last"]]):
            for rel in ("none", "asc"):
                for cw in (2, 6.25):
                    for st in STACKS:
                        if not stack_valid(st, k):
                            continue
                        c = {"k": k, "header": "stack", "stack": st, "col_width": cw}
                        if rem:
                            c["removal"] = rem
                        if rel != "none":
                            c["rel"] = rel
                        cases.append(c)
    # the same rows in multi-section documents (nested and flat header lists)
    for ka, kb in itertools.permutations(range(1, min(kmax, 4) + 1), 2):
        for st in (STACKS[3], STACKS[5], STACKS[0]):
            if stack_valid(st, ka) and stack_valid(st, kb):
                cases.append({"sections": [{"k": ka, "header": "stack", "stack": st}, {"k": kb, "header": "stack", "stack": st, "rel": "asc"}],
                              "col_width": 6.25})
            if stack_valid(st, ka):
                cases.append({"sections": [{"k": ka, "header": "stack", "stack": st}, {"k": kb, "header": "none"}],
                              "multi_header": "flat", "col_width": 6.25})
    return cases


def repeated_width_cases(kmax):
    """col_rel_width vectors with repeated, not all equal values x every removal (1 and 2 columns, page_by / subline_by, every
    position): the width that must go is identified by the column's position, not by its value"""
    cases = []
    for k in range(1, kmax + 1):
        for rem in removals(k):
            if not rem:
                continue
            for rel in ("alt21", "alt13", "pairs221"):
                for hm, cw in (("explicit_own", 6.25), ("default", 8.5)):
                    cases.append({"k": k, "header": hm, "col_width": cw, "removal": rem, "rel": rel})
    return cases


def multi_cases(kmax):
    cases = []
    ks = list(range(1, kmax + 1))
    for ka, kb in itertools.permutations(ks, 2):
        for ha, hb in itertools.product(("explicit", "none", "two", "explicit_own"), repeat=2):
            for rel in ("none", "asc"):
                cases.append({"sections": [{"k": ka, "header": ha, "rel": rel}, {"k": kb, "header": hb, "rel": rel}], "col_width": 6.25})
    for k3 in itertools.permutations(ks[:4], 3):
        for rel in ("none", "one10"):
            for hm in ("explicit", "two_inherit"):
                cases.append({"sections": [{"k": k, "header": hm, "rel": rel} for k in k3], "col_width": 8.5})
    # flat header list: applies to the first section only
    for ka, kb in itertools.permutations(ks[:3], 2):
        cases.append({"sections": [{"k": ka, "header": "explicit"}, {"k": kb, "header": "none"}], "multi_header": "flat", "col_width": 6.25})
    return cases


def reuse_cases(kmax):
    cases = []
    for ka, kb in itertools.permutations(range(1, kmax + 1), 2):
        for reuse in ("body", "header", "both"):
            for enc in (True, False):
                cases.append({"k": kb, "header": "default", "col_width": 6.25, "earlier": {"k": ka, "header": "default"},
                              "reuse": reuse, "earlier_encode": enc})
    # same column count: re-use is harmless and must stay so
    for k in range(1, kmax + 1):
        cases.append({"k": k, "header": "default", "col_width": 6.25, "earlier": {"k": k, "header": "default"}, "reuse": "both"})
    return cases


def plan(run):
    quick = run.tier == "quick"
    kmax = 6 if quick else 12
    run.rule = (f"full product of column count 1..{kmax} x col_rel_width mode {{unset, ascending, one 10 among 0.2s}} x width scope "
                "{all original columns, displayed columns} x header mode {default, explicit inheriting, explicit own widths, two-row "
                "spanning, two-row with inheriting second row, none} x column removal {none, page_by/subline_by x first/middle/last, "
                "three 2-column removals} x col_width {2, 6.25, 8.5, 12} with table footnote and source; radius-2 ball over orientation, "
                "footnote, source, nrow, new_page/pageby_row, pageby_header, row count, default col_width around anchors; 2-/3-section "
                "documents with different column counts; col_rel_width vectors with repeated, not all equal values ([2,1,2,1..], [1,3,1,3..], "
                "[2,2,1,2,2,1..]) x every removal x 2 header modes; header stacks (1-3 header rows whose cell count may differ from the column count: one "
                "full-span cell, 2 or ncols-1 cells, all columns; each such row with an explicit col_rel_width of its own length given as a "
                "one-element list, a scalar or a list, label rows inheriting or own) x column count x 4 removals x 2 width modes x 2 col_widths, "
                "also in nested / flat multi-section headers; body/header objects re-used from an earlier document of another column count. "
                "Quick: the position of the wide column in the 'one 10' vector is rotated by VERIF_SEED, thorough: first/middle/last. "
                "non-trivial = the document renders at least two different kinds of table row; distinct = distinct case")
    run.assumptions = [
        "the RTF reader (mc/rtfreader) extracts \\cellx correctly and rows are identified by sentinel tags only",
        "an explicit header row with own widths is given one width per cell of THAT row (a one-element list or a scalar for a "
        "single full-span cell); its boundaries are proportional to its own col_rel_width and it ends at the common right edge",
        "tolerance is one twip, as the property states; W = round(col_width * 1440)",
        "re-use of a component is only explored for components whose col_rel_width the user left unset (explicit widths of another "
        "column count would be a user error)",
    ]
    core = core_cases(kmax, run.seed, not quick)
    run.layer("layout-product", "mc.props.c08:eval_case", core, chunk=50, total=len(core))
    anchors = []
    for k in ((2, 3, 5) if quick else (1, 2, 3, 5, 8)):
        for hm in ("default", "two", "explicit_own"):
            for rem in ([], [["pb", "mid"]], [["sl", "first"]], [["pb", "first"], ["sl", "last"]]):
                a = {"k": k, "header": hm, "col_width": 6.25, "rel": "asc"}
                if rem:
                    a["removal"] = rem
                anchors.append(a)
    bcases = [c for a in anchors for c in ball(a, 2)]
    run.layer("ball-r2", "mc.props.c08:eval_case", bcases, chunk=50, total=len(bcases))
    wcases = repeated_width_cases(kmax)
    run.layer("repeated-widths", "mc.props.c08:eval_case", wcases, chunk=40, total=len(wcases))
    scases = stack_cases(kmax)
    run.layer("header-stacks", "mc.props.c08:eval_case", scases, chunk=40, total=len(scases))
    mcases = multi_cases(4 if quick else 6)
    run.layer("multi-section", "mc.props.c08:eval_case", mcases, chunk=30, total=len(mcases))
    rcases = reuse_cases(4 if quick else 6)
    run.layer("reused-components", "mc.props.c08:eval_case", rcases, chunk=20, total=len(rcases))
    for need in ("rows-data", "rows-header", "rows-group", "rows-footnote_table", "rows-source_table", "header-inherited",
                 "header-own", "header-one-cell-spanning-several-columns", "header-fewer-cells-than-columns", "with-column-removal", "multi-section", "reused-components", "pages>1"):
        if not run.cnt.get(need):
            run.harness_errors.append({"layer": "vacuity", "case": None, "error": f"counter {need} is zero: that part of the property was never exercised"})

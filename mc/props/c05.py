"""C05 - every data row sits under its own group heading on its own page.

Paginator-automaton exploration (mc/explore/paginator.py): for every layout gamma, all histories
of row events (group change at each of 1-3 page_by levels, subline change, divider groups) up to
a depth, plus the product of group-run lengths 1..K+2 so that groups start, end and continue at
every offset within a page.  Invariant on every page of every state: walking the page top-down,
the headings seen on this page equal the row's key at every non-divider level (outer before
inner), no heading is stranded or spurious, '-----' never shows, no data row is lost.
"""
from __future__ import annotations

import itertools
import re

from ..explore import paginator as P

PID = "C05"
LEVEL = "model_checking"
TECHNIQUE = ("explicit-state exploration of the paginator automaton on the real encoder: all group-change histories to depth n "
             "+ full product of group-run lengths around the page capacity; per-page heading-walk invariant on every state")
LEVEL_TEXT = ("Every history of group-change events up to the stated depth and every combination of group-run lengths 1..capacity+2 is "
              "executed on the real code for each layout; the heading invariant is evaluated on every page of every resulting document. "
              "Continuation headings depend on where a break falls inside a group, i.e. on (group length, capacity, offset), which this enumerates completely within the bounds.")
LEVEL_NOTE = "Trusted: RTF reader, sentinel tags G<l>v<k> / U<l>v<k> / D<r>.<c>. Bounds: <=3 page_by levels, heights 1..2, depth/nrow as in evidence."



def check_obs(g, hist, obs, viol):
    gn = P.norm_gamma(g)
    n = len(hist)
    if obs.error:
        viol.append({"klass": None, "sig": "encode-raised", "detail": f"{obs.error} hist={hist}"})
        return
    L, strat = gn["L"], gn["strategy"]
    pb, subs, start = P.keys_of(g, hist)
    shows_spanning = strat in ("page_by", "subline+page_by") and not (gn["new_page"] and gn["pageby_row"] == "column")
    flat = [r for pg in obs.data_pages() for r in pg]
    if flat != list(range(n)):
        viol.append({"klass": None, "sig": "data-row-lost-or-reordered", "detail": f"rows on pages {obs.data_pages()} for n={n} hist={hist}"})
        return
    for pi, pg in enumerate(obs.pages):
        names = [r for r, _, _ in pg]
        seen = [None] * L  # heading value seen on this page per level
        run_levels = []  # levels of the current consecutive heading run
        first_data = True
        sub_heads = [info for r, info, _ in pg if r == "subline_by"]
        for bi, (role, info, _) in enumerate(pg):
            if role == "group":
                lv, val = info[1], info[2]
                if not shows_spanning:
                    viol.append({"klass": None, "sig": "unexpected-spanning-row", "detail": f"page {pi + 1}: spanning row {info} in a layout that shows page_by as a column; hist={hist}"})
                    continue
                if run_levels and lv <= run_levels[-1]:
                    viol.append({"klass": None, "sig": "heading-order", "detail": f"page {pi + 1}: heading level {lv} after level {run_levels[-1]} (outer must precede inner); page={names} hist={hist}"})
                run_levels.append(lv)
                if lv < L:
                    seen[lv] = val
                    for l in range(lv + 1, L):
                        seen[l] = None
                nxt = pg[bi + 1][0] if bi + 1 < len(pg) else None
                if nxt not in ("group", "data"):
                    viol.append({"klass": None, "sig": "heading-stranded", "detail": f"page {pi + 1}: heading {info} is followed by {nxt} (must be an inner heading or a data row on the same page); hist={hist}"})
            elif role == "data":
                r = info[1]
                if shows_spanning:
                    key = [pb[l][r] for l in range(L)]
                    for l in range(L):
                        if key[l] == -1 or key[l] is None:
                            continue  # a divider / null group has no heading of its own
                        if seen[l] != key[l]:
                            viol.append({"klass": None, "sig": f"heading-{'missing' if seen[l] is None else 'wrong'}",
                                         "detail": f"page {pi + 1}: data row {r} has level-{l + 1} value G{l}v{key[l]} but the heading in force on this page is "
                                                   f"{'none' if seen[l] is None else 'G%dv%d' % (l, seen[l])}; page={describe(pg)} hist={hist}"})
                            break
                    # justification of the heading run directly before this row
                    if run_levels:
                        st = start[r]
                        top = first_data
                        for lv in run_levels:
                            ok = top or (st == "s") or (st != 0 and st <= lv + 1)
                            if not ok:
                                viol.append({"klass": None, "sig": "heading-spurious", "detail": f"page {pi + 1}: level-{lv + 1} heading before row {r} although neither it nor an outer level changed and the row is not first on the page; hist={hist}"})
                                break
                run_levels = []
                first_data = False
            else:
                run_levels = []
        if strat in ("subline", "subline+page_by") and any(r == "data" for r in names):
            if len(sub_heads) != 1:
                viol.append({"klass": None, "sig": "subline-heading-count", "detail": f"page {pi + 1}: {len(sub_heads)} subline_by heading paragraphs (expected exactly 1); page={names} hist={hist}"})
            else:
                para = [b for b in pg if b[0] == "subline_by"][0]
                # the heading names the single group of the page
                rows = [info[1] for role, info, _ in pg if role == "data"]
                if strat == "subline":
                    keys = {tuple(pb[l][r] for l in range(L)) for r in rows}
                else:
                    keys = {(subs[r],) for r in rows}
                if len(keys) != 1:
                    viol.append({"klass": None, "sig": "page-mixes-subline-groups", "detail": f"page {pi + 1} holds rows of subline groups {sorted(keys)}; hist={hist}"})
                else:
                    want = [v for v in next(iter(keys)) if v != -1]
                    got = obs_para_values(obs, pi)
                    if got != want:
                        viol.append({"klass": None, "sig": "subline-heading-wrong", "detail": f"page {pi + 1}: heading paragraph names {got} but the page holds group {want}; hist={hist}"})


def describe(pg):
    return [(r if r != "data" else f"D{i[1]}") if r != "group" else f"G{i[1]}v{i[2]}" for r, i, _ in pg]


def obs_para_values(obs, pi):
    for role, info, _ in obs.pages[pi]:
        if role == "subline_by":
            return info[3] if len(info) > 3 else [info[2]]
    return None


def eval_case(case: dict) -> dict:
    g = case["gamma"]
    viol: list = []
    cnt = {"continuation_pages": 0, "midpage_group_starts": 0, "divider_groups": 0, "pages_ge2": 0}

    def visit(hist, obs, parent):
        check_obs(g, hist, obs, viol)
        if obs.error:
            return
        if obs.divider_text:
            viol.append({"klass": None, "sig": "divider-text-rendered", "detail": f"'-----' appears as text; hist={hist}"})
        _, _, start = P.keys_of(g, hist)
        dp = obs.data_pages()
        if len(dp) >= 2:
            cnt["pages_ge2"] += 1
        for pg in dp[1:]:
            if pg and start[pg[0]] == 0:
                cnt["continuation_pages"] += 1
        for pg in dp:
            cnt["midpage_group_starts"] += sum(1 for r in pg[1:] if start[r] != 0)
        cnt["divider_groups"] += sum(1 for e in hist if e[2])

    stats = P.explore(g, case, visit)
    return {"viol": viol[:50], "nt_n": cnt["pages_ge2"], "cnt": {k: v for k, v in cnt.items() if v},
            "evals": stats["observations"], "states": stats["observations"], "transitions": max(0, stats["observations"] - 1),
            "sample": None}


def gammas(run):
    quick = run.tier == "quick"
    out = []
    nrows1 = (3, 4, 6) if quick else (3, 4, 5, 6, 8, 12, 30)
    for nrow in nrows1:
        for hm in ("none", "explicit"):
            for np_, pr in ((False, "column"), (True, "first_row")):
                for pbh in ((True,) if quick and hm == "none" else (True, False)):
                    out.append(({"strategy": "page_by", "L": 1, "nrow": nrow, "header": hm, "new_page": np_, "pageby_row": pr,
                                 "pageby_header": pbh, "heights": [1]}, 6 if not quick else 5, True))
                    if not quick and pbh and hm == "explicit":  # wrapped rows: a shallower tree
                        out.append(({"strategy": "page_by", "L": 1, "nrow": nrow, "header": hm, "new_page": np_, "pageby_row": pr,
                                     "pageby_header": pbh, "heights": [1, 2]}, 5, True))
    out.append(({"strategy": "page_by", "L": 1, "nrow": 4, "header": "explicit", "new_page": True, "pageby_row": "column", "heights": [1]}, 5, False))
    # null group values next to real ones (a null group has no heading; the group AFTER it needs its own)
    for nrow in ((6, 12) if quick else (4, 6, 8, 12)):
        out.append(({"strategy": "page_by", "L": 1, "nrow": nrow, "header": "explicit", "nulls": True, "heights": [1]}, 5, False))
        out.append(({"strategy": "page_by", "L": 2, "nrow": nrow + 2, "header": "explicit", "nulls": True, "heights": [1]}, 4, False))
    # integer group values (0 is falsy) and values that recur non-adjacently (A, B, A)
    for nrow in ((5, 8, 12) if quick else (4, 5, 6, 8, 12)):
        # integer values; with recurrence the falsy value 0 also starts a group in the middle of a page
        out.append(({"strategy": "page_by", "L": 1, "nrow": nrow, "header": "explicit", "numeric_groups": True, "recur": True, "heights": [1]}, 5, False))
        out.append(({"strategy": "page_by", "L": 1, "nrow": nrow, "header": "explicit", "recur": True, "heights": [1]}, 5, False))
    # (thorough sizes follow the budget: the first two thorough runs were cut at 3600 s with 730 k and 320 k documents)
    for L, nrows, depth in ((2, (4, 6, 10) if quick else (4, 6, 8, 12), 4 if quick else 5), (3, (6, 12) if quick else (6, 8, 12), 4)):
        for nrow in nrows:
            for hm in (("explicit",) if quick else ("none", "explicit")):
                for rep in (True, False):
                    out.append(({"strategy": "page_by", "L": L, "nrow": nrow, "header": hm, "inner_repeat": rep, "heights": [1]}, depth, True))
                if nrow >= 6:  # page_by list order differs from the DataFrame's column order
                    out.append(({"strategy": "page_by", "L": L, "nrow": nrow, "header": hm, "inner_repeat": True, "heights": [1], "group_cols_reversed": True},
                                depth, False))
    for nrow in ((4, 6) if quick else (3, 4, 5, 6, 8)):
        out.append(({"strategy": "page_by", "L": 2, "nrow": nrow, "header": "explicit", "new_page": True, "pageby_row": "first_row", "heights": [1]},
                    4 if quick else 5, False))
    for nrow in ((3, 5) if quick else (3, 4, 5, 6, 8)):
        for L in (1, 2):
            out.append(({"strategy": "subline", "L": L, "nrow": nrow, "header": "explicit", "heights": [1, 2] if L == 1 else [1]}, 5 if L == 1 else 4, False))
        out.append(({"strategy": "subline+page_by", "L": 1, "nrow": nrow + 1, "header": "explicit", "heights": [1]}, 5, False))
    return out


def run_length_cases(g, quick):
    gn = P.norm_gamma(g)
    K = gn["nrow"]
    # run lengths around the page capacity (thorough: plus 3 and K+2; every length 1..K+2 cubed was 412 k long documents - beyond the budget)
    lens = sorted({1, 2, max(1, K - 2), K - 1, K, K + 1}) if quick else sorted({1, 2, 3, max(1, K - 2), K - 1, K, K + 1, K + 2})
    lens = [x for x in lens if x >= 1]
    L = gn["L"]
    hists = []
    if L == 1:
        for a, b, c in itertools.product(lens, repeat=3):
            hists.append(P.runs_history([a, b, c], [1, 1, 1]))
    else:
        # outer run 1 = inner runs a, b ; outer run 2 = inner run c, d
        small = lens if not quick else sorted({1, 2, K - 1, K + 1})
        for a, b, c in itertools.product(small, repeat=3):
            hists.append(P.runs_history([a, b, c, 2], [1, L, 1, L]))
    out = []
    for i in range(0, len(hists), 25):
        out.append({"gamma": g, "mode": "list", "histories": [[list(e) for e in h] for h in hists[i:i + 25]]})
    return out


def plan(run):
    quick = run.tier == "quick"
    run.rule = ("per layout gamma (page_by 1-3 levels / subline_by 1-2 levels / both; nrow; header; new_page; pageby_row; pageby_header; inner value "
                "repeated or fresh): every history of events (h, change level 0..L or 's', divider) up to the depth, unmerged; plus the product of "
                "group-run lengths over {1..K+2} (quick: {1,2,K-2,K-1,K,K+1}). states = histories executed; non-trivial = distinct (gamma, history) whose document has >= 2 pages")
    run.assumptions = ["a heading row is recognised by its G<l>v<k> tag in a one-cell row; widths are C08's",
                       "layouts with new_page + pageby_row='column' show the group as a column: only conservation is checked there"]
    cases = []
    for g, depth, with_div in gammas(run):
        cases += P.split_cases(g, depth, bfs=False, divider=with_div, split_at=5)
        gn = P.norm_gamma(g)
        if gn["strategy"] == "page_by" and gn["L"] <= 2 and not (gn["new_page"] and gn["pageby_row"] == "column"):
            cases += run_length_cases(g, quick)
    run.layer("heading-walk", "mc.props.c05:eval_case", cases, chunk=1, total=len(cases))
    run.extra["traces_validated_against_impl"] = run.states
    for need in ("continuation_pages", "midpage_group_starts", "divider_groups"):
        if not run.cnt.get(need):
            run.harness_errors.append({"layer": "vacuity", "case": None, "error": f"boundary counter {need} is zero"})

"""C18 - exports are all-or-nothing and leave no debris.

Fault enumeration on the real export code: for write_rtf / write_docx / write_html / write_pdf x
target pre-state {absent, existing, inside two missing directories} x converter stub behaviour
{success, success + HTML resource folder, raises before output, writes output then raises, returns
a list / None / a str / a Path that does not exist, no converter (LibreOffice absent), the library's own
LibreOfficeConverter with a stand-in soffice executable (converts / fails / output then fails / no output)}: an injected
Exception and an injected BaseException at library call instances of the export (quick: first and
last instance of every call site; thorough: every instance), plus a second fault after every fault
the library swallowed.  Oracle on the sandbox snapshot before/after each call.
"""
from __future__ import annotations

import os

from ..explore import faults as F

PID = "C18"
LEVEL = "fault_enumeration"
TECHNIQUE = ("exhaustive fault enumeration: an exception injected at every library call site (first and last instance; thorough: every instance) of every export "
             "x target pre-state x converter behaviour (stubs, and the library's own converter driving a stand-in soffice), file-system snapshot oracle; plus every export/edit/export history up to depth 2 rounds against a fresh reference")
LEVEL_TEXT = ("Every function-call boundary inside the library during an export is a crash point; each is exercised (per site in quick, per instance in thorough) for every "
              "export method, target pre-state and converter behaviour, and the complete sandbox (target dir + private temp dir) is compared before/after. "
              "All-or-nothing is a statement about every failure point, which only enumeration of the failure points decides.")
LEVEL_NOTE = ("A crash is modelled as exception unwinding (a killed process cannot clean its temp directory by construction). Parent directories created before a failing "
              "encode are not counted (the property lists target, partial target and temp files). Faults inside shutil.move are environment faults and are not injected.")

METHODS = ("rtf", "docx", "html", "pdf")
PRE = ("absent", "exists", "missingdir")
PRE_MORE = ("exists_binary", "exists_same", "exists_same_crlf")  # particular contents of a pre-existing target
STUBS = ("ok", "html_res", "raise_before", "raise_after", "list", "none", "str", "missing_path", "default") + F.REAL_MODES
DOCS = ("table", "paged", "figure")
# converter behaviours that ARE a failed conversion: the export must raise
MUST_RAISE = ("raise_before", "raise_after", "real_fail", "real_failafter", "real_nooutput", "missing_path")


def make_doc_factory(kind):
    def make(captured):
        import polars as pl
        import rtflite as rtf

        class Doc(rtf.RTFDocument):
            def rtf_encode(self):  # wrap the public method: what did THIS execution's encode return?
                r = super().rtf_encode()
                captured.append(r)
                return r

        if kind == "table":
            return Doc(df=pl.DataFrame({"a": ["D0.0", "D1.0"], "b": [1, 2]}), rtf_title=rtf.RTFTitle(text="T0 \\alpha"),
                       rtf_footnote=rtf.RTFFootnote(text="F0"))
        if kind == "paged":
            return Doc(df=pl.DataFrame({"g": ["G0v0", "G0v0", "G0v1"], "a": ["D0.1", "D1.1", "D2.1"]}), rtf_page=rtf.RTFPage(nrow=3),
                       rtf_body=rtf.RTFBody(page_by=["g"], text_color="red"), rtf_source=rtf.RTFSource(text="Z0"))
        if kind == "ctrl":  # texts holding characters that str.splitlines() / universal newlines treat as line ends
            return Doc(df=pl.DataFrame({"a": ["D0.0 x\ry", "D1.0 p\r\nq"], "b": ["u\x0cv", "w\x0bz\x1c"]}), rtf_title=rtf.RTFTitle(text="T0 a\rb", text_convert=False),
                       rtf_footnote=rtf.RTFFootnote(text="F0 end\r"))
        from ..explore.histpool import _png_path

        return Doc(rtf_figure=rtf.RTFFigure(figures=[_png_path()], fig_width=2, fig_height=1), rtf_title=rtf.RTFTitle(text="T0"))

    return make


# operations on the same document object before the observed export (export histories)
EARLIER = (("rtf", None), ("docx", "ok"), ("pdf", "raise_before"), ("html", "raise_after"), ("pdf", "missing_path"))
EDITS = ("none", "title_assign_nested", "title_item_inplace", "tail_assign_nested", "body_attr_nested", "replace_title", "replace_df")


def apply_edit(doc, name):
    """Edits a user can make between two exports; every one leaves a valid document."""
    import polars as pl
    import rtflite as rtf

    if name == "none":
        return
    if name == "title_assign_nested":
        doc.rtf_title.text = ["T9 edited"]
    elif name == "title_item_inplace":
        t = doc.rtf_title.text
        if isinstance(t, list):
            t[0] = "T8 in place"
        else:
            doc.rtf_title.text = ("T8 in place",)
    elif name == "tail_assign_nested":
        comp = doc.rtf_footnote or doc.rtf_source
        if comp is not None:
            comp.text = ["F9 edited"]
        else:
            doc.rtf_title.text_font_size = [12.0]
    elif name == "body_attr_nested":
        if doc.rtf_figure is None:
            doc.rtf_body.text_justification = [["r"]]
        else:
            doc.rtf_figure.fig_align = "left"
    elif name == "replace_title":
        doc.rtf_title = rtf.RTFTitle(text="T7 replaced")
    elif name == "replace_df":
        if doc.rtf_figure is None:
            doc.df = doc.df.with_columns(pl.col(doc.df.columns[-1]).cast(pl.Utf8) + "x")
        else:
            doc.rtf_title = rtf.RTFTitle(text=["T6", "second line"])


def make_prelude(steps):
    def prelude(doc, out_dir):
        for i, st in enumerate(steps):
            if st[0] == "edit":
                apply_edit(doc, st[1])
            else:
                _, m, stub = st
                tgt = os.path.join(out_dir, f"earlier{i}.{m}")
                try:
                    if m == "rtf":
                        doc.write_rtf(tgt)
                    else:
                        getattr(doc, "write_" + m)(tgt, converter=F.Stub(stub))
                except Exception:  # noqa: BLE001 - a failed earlier export is part of the history
                    pass
    return prelude


def fresh_reference(kind, steps):
    """rtf_encode() of a newly built document that received the same edits and no export."""
    import contextlib
    import io

    doc = make_doc_factory(kind)([])
    with contextlib.redirect_stdout(io.StringIO()):
        for st in steps:
            if st[0] == "edit":
                apply_edit(doc, st[1])
        return doc.rtf_encode()


def judge(r, method, stub_mode, pre):
    """Oracle on one export execution -> list of (sig, detail)."""
    out = []
    before, after = r["before"], r["after"]
    tgt = r["target_rel"]
    tmp_left = [p for p in after if p.startswith("tmp" + os.sep)]
    if tmp_left:
        out.append(("temp-files-left", f"temporary files/directories left behind: {tmp_left[:4]}"))
    new_files = [p for p, v in after.items() if v is not None and p not in before and not p.startswith("tmp" + os.sep)]
    changed = [p for p, v in after.items() if p in before and before[p] != v]
    removed = [p for p in before if p not in after]
    if r["result"][0] == "exc":
        if pre.startswith("exists") and after.get(tgt) != r.get("pre_bytes"):
            out.append(("existing-target-damaged-on-failure", f"export raised {r['result'][1]} but the pre-existing target now holds {str(after.get(tgt))[:40]!r}"))
        if not pre.startswith("exists") and tgt in after:
            out.append(("partial-target-on-failure", f"export raised {r['result'][1]} but a target file exists ({len(after[tgt] or b'')} bytes)"))
        others = [p for p in new_files if p != tgt]
        if others:
            out.append(("debris-on-failure", f"export raised {r['result'][1]} but new files appeared: {others[:4]}"))
        if [p for p in changed if p != tgt] or removed:
            out.append(("other-files-touched-on-failure", f"changed={changed} removed={removed}"))
    else:
        if stub_mode in MUST_RAISE:
            out.append(("failed-conversion-not-raised", f"the converter failed ({stub_mode}) but the export returned normally; the target now holds {str(after.get(tgt))[:40]!r}"))
            return out
        if method == "rtf":
            want = r["captured"][-1].encode("utf-8") if r["captured"] else None
            if len(r["captured"]) != 1:
                out.append(("encode-count", f"rtf_encode() was called {len(r['captured'])} times by write_rtf"))
        else:
            want = r["stub_output"]
            if r["captured"] and r["stub_output"] is not None and r["stub_output"] != b"CONVERTED:" + r["captured"][-1].encode("utf-8"):
                out.append(("intermediate-rtf-differs-from-encode", "the converter did not receive exactly the rtf_encode() result"))
        if want is None or after.get(tgt) != want:
            out.append(("target-content-wrong-on-success", f"export returned but the target holds {str(after.get(tgt))[:50]!r} (expected {len(want or b'')} bytes)"))
        allowed = {tgt}
        if method == "html" and stub_mode == "html_res":
            # the folder keeps the name the converter gave it (<stem>.html_files: the page links to it by that name) and sits next to the target
            res_dir = os.path.join(os.path.dirname(tgt), os.path.splitext(os.path.basename(tgt))[0] + ".html_files")
            allowed |= {res_dir + os.sep + "img.png"}
            if after.get(res_dir + os.sep + "img.png") != b"RES":
                out.append(("html-resources-missing", f"resource folder not at {res_dir}"))
        others = [p for p in new_files if p not in allowed]
        if others:
            out.append(("debris-on-success", f"files other than the target appeared: {others[:4]}"))
        if [p for p in changed if p != tgt] or removed:
            out.append(("other-files-touched-on-success", f"changed={changed} removed={removed}"))
    return out


def eval_case(case: dict) -> dict:
    method, stub, pre, kind = case["method"], case["stub"], case["pre"], case.get("doc", "table")
    tname = case.get("target_name")
    make = make_doc_factory(kind)
    viol = []
    cnt = {"runs": 0, "faults_propagated": 0, "faults_swallowed": 0, "exports_ok": 0, "exports_raised": 0}

    def one(fault_at=None, cls=F.Fault, second=None, record=False):
        r = F.run_export(make, method, stub, pre, fault_at=fault_at, fault_cls=cls, record_sites=record, second_fault_at=second, target_name=tname, tmp_other_fs=bool(case.get("tmpfs")))
        cnt["runs"] += 1
        cnt["exports_ok" if r["result"][0] == "ok" else "exports_raised"] += 1
        for sig, detail in judge(r, method, stub, pre):
            viol.append({"klass": None, "sig": f"{sig}-{method}", "detail": f"write_{method} doc={kind} target={pre}{' name=' + tname if tname else ''}{' tmp-on-other-fs' if case.get('tmpfs') else ''} converter={stub} fault_at={fault_at}"
                                                                          f"{'/' + str(second) if second else ''} ({cls.__name__ if fault_at else 'no fault'}): {detail}"})
        return r

    mode = case["mode"]
    if mode == "sequence":
        steps = [tuple(x) for x in case["steps"]]
        r = F.run_export(make, method, stub, pre, prelude=make_prelude(steps))
        cnt["runs"] += 1
        cnt["sequence_runs"] = 1
        cnt["exports_ok" if r["result"][0] == "ok" else "exports_raised"] += 1
        where = f"write_{method} doc={kind} target={pre} converter={stub} after {steps}"
        for sig, detail in judge(r, method, stub, pre):
            if sig == "encode-count":
                continue  # how often write_rtf encodes is not observable by the user; the content oracle below decides
            viol.append({"klass": None, "sig": f"{sig}-{method}-after-history", "detail": f"{where}: {detail}"})
        if r["result"][0] == "ok":
            want = fresh_reference(kind, steps).encode("utf-8")
            got = r["after"].get(r["target_rel"])
            if method != "rtf":
                want = b"CONVERTED:" + want
            if got != want:
                viol.append({"klass": None, "sig": f"export-differs-from-fresh-encode-{method}-after-history",
                             "detail": f"{where}: the exported file is not what rtf_encode() of an equal, never exported document returns "
                                       f"({len(got or b'')} vs {len(want)} bytes)"})
        else:
            viol.append({"klass": None, "sig": f"export-raised-after-history-{method}", "detail": f"{where}: {r['result']}"})
        return {"viol": viol, "nt": any(st[0] == "edit" and st[1] != "none" for st in steps), "evals": 1, "cnt": {k: v for k, v in cnt.items() if v}}
    if mode == "nofault":
        r = one(record=True)
        sites = {}
        for i, s in enumerate(r["sites"], 1):
            sites.setdefault(s, []).append(i)
        return {"viol": viol, "nt": stub not in ("ok", None) or pre != "absent", "evals": 1, "cnt": cnt, "ncalls": r["ncalls"], "site_points": sorted({v[0] for v in sites.values()} | {v[-1] for v in sites.values()}),
                "nsites": len(sites), "result": r["result"][0],
                "sample": {"method": method, "stub": stub, "pre": pre, "result": r["result"], "library_calls": r["ncalls"], "sites": len(sites)}}
    pts = case["points"]
    for k in pts:
        for cls in (F.Fault, F.BaseFault):
            r = one(fault_at=k, cls=cls)
            if not r["fired"]:
                continue
            propagated = r["result"][0] == "exc" and r["result"][1] == cls.__name__
            if propagated:
                cnt["faults_propagated"] += 1
            elif r["result"][0] == "ok":
                cnt["faults_swallowed"] += 1
                # a second fault right after a swallowed one, and at the last call
                for k2 in sorted({k + 1, k + 2, k + 3, r["ncalls"]}):
                    if k2 > k:
                        one(fault_at=k, cls=cls, second=k2)
    best = {}
    for v in viol:
        cur = best.get(v["sig"])
        if cur is None or len(v["detail"]) < len(cur["detail"]):
            best[v["sig"]] = v
    return {"viol": list(best.values()), "nt_n": cnt["faults_propagated"] + cnt["faults_swallowed"], "evals": cnt["runs"], "cnt": {k: v for k, v in cnt.items() if v}}


def plan(run):
    quick = run.tier == "quick"
    run.rule = ("export method {rtf,docx,html,pdf} x target {absent, exists, two missing directories} x converter {9 stub behaviours; the library's own LibreOfficeConverter driving a stand-in soffice that converts / fails / writes output then fails / writes nothing} without fault; then an injected Exception and "
                "an injected BaseException at library call instances (quick: first and last instance of every call site, all three pre-states for write_rtf and write_html, "
                "seed-rotated pre-state for docx/pdf; thorough: every instance, every pre-state, three documents), plus second faults after swallowed ones; then export histories on one document object: "
                "earlier export {write_rtf ok, write_docx ok, write_pdf converter raises, write_html converter raises after output, write_pdf converter returns a missing path} x edit "
                "{none, nested assign on title / footnote-or-source / body attribute, list item in place, title replaced, df replaced} x observed export {4 methods} x 3 documents "
                "(thorough: two such rounds), judged against rtf_encode() of an equal never-exported document. "
                "non-trivial = a run in which an injected fault fired, or a no-fault run with a failing/malformed converter or a non-empty target pre-state; distinct = (method, pre, stub, doc, fault point, fault class)")
    run.assumptions = ["crash = exception unwinding at a library function entry", "directories created for a missing parent path are not debris (not listed by the property)"]
    # 1. matrix without faults (also yields the call sites)
    base = []
    for m in METHODS:
        for pre in PRE_MORE:
            for kind in DOCS:
                base.append({"mode": "nofault", "method": m, "stub": (None if m == "rtf" else "ok"), "pre": pre, "doc": kind})
    for m in METHODS:
        for pre in PRE:
            for stub in (STUBS if m != "rtf" else (None,)):
                if stub == "html_res" and m != "html":
                    continue
                for kind in (DOCS if (not quick or m == "rtf") else ("table",)):
                    base.append({"mode": "nofault", "method": m, "stub": stub, "pre": pre, "doc": kind})
    # target names whose suffix is not the format's own (the converter names its output <stem>.<format>), and documents
    # whose texts hold CR / CRLF / FF / VT / FS (characters some text APIs treat as line ends)
    for m, names in (("html", ("report.htm", "report.xhtml", "report", "re port.HTML")), ("pdf", ("report.PDF", "report")), ("docx", ("report.doc", "report")),
                     ("rtf", ("report.txt", "report"))):
        for nm in names:
            for pre in ("absent", "exists"):
                for stub in ((None,) if m == "rtf" else (("ok", "html_res", "real_ok") if m == "html" else ("ok", "real_ok"))):
                    base.append({"mode": "nofault", "method": m, "stub": stub, "pre": pre, "doc": "table", "target_name": nm})
    for m in METHODS:
        for pre in ("absent", "exists_same"):
            base.append({"mode": "nofault", "method": m, "stub": (None if m == "rtf" else "ok"), "pre": pre, "doc": "ctrl"})
    # the temporary directory on another file system than the target (TMPDIR on tmpfs, reports on disk): a rename between them fails
    for m in METHODS:
        for pre in PRE:
            for stub in ((None,) if m == "rtf" else ("ok", "raise_after", "real_ok")):
                base.append({"mode": "nofault", "method": m, "stub": stub, "pre": pre, "doc": "table", "tmpfs": True})
    info = {}

    def on_res(r):
        c = r["_case"]
        if "site_points" in r and not c.get("target_name") and c["doc"] != "ctrl" and not c.get("tmpfs"):
            info[(c["method"], c["stub"], c["pre"], c["doc"])] = (r["ncalls"], r["site_points"], r["nsites"])

    run.layer("matrix-no-fault", "mc.props.c18:eval_case", base, chunk=4, total=len(base), on_result=on_res)
    # 2. faults
    cases = []
    for (m, stub, pre, kind), (ncalls, site_points, nsites) in sorted(info.items(), key=str):
        if stub not in (None, "ok", "html_res", "raise_after", "real_ok", "real_fail"):
            continue
        if quick:
            if stub == "raise_after" and m != "docx":
                continue
            if stub in ("real_ok", "real_fail") and m != "pdf":
                continue
            if m in ("docx", "pdf") and pre != PRE[(run.seed + METHODS.index(m)) % 3]:
                continue
            if pre in PRE_MORE and not (m == "rtf" and pre == "exists_binary"):
                continue
            if m == "html" and stub == "ok":
                continue
            if m == "pdf" and stub == "ok":
                continue  # pdf is driven through the library's own converter class (real_ok / real_fail) in the quick tier
        pts = site_points if quick else list(range(1, ncalls + 1))
        for i in range(0, len(pts), 25):
            cases.append({"mode": "faults", "method": m, "stub": stub, "pre": pre, "doc": kind, "points": pts[i:i + 25]})
    run.extra["library_call_instances"] = {f"{k[0]}/{k[3]}": v[0] for k, v in info.items() if k[2] == "absent" and k[1] in (None, "ok")}
    run.extra["call_sites"] = {f"{k[0]}/{k[3]}": v[2] for k, v in info.items() if k[2] == "absent" and k[1] in (None, "ok")}
    run.layer("fault-injection", "mc.props.c18:eval_case", cases, chunk=1, total=len(cases))
    # 3. export histories: earlier exports (successful and failed) and edits on the same object
    seq = []
    for kind in DOCS:
        for e1 in EARLIER:
            for ed in EDITS:
                for m in METHODS:
                    seq.append({"mode": "sequence", "method": m, "stub": (None if m == "rtf" else "ok"), "pre": "absent", "doc": kind,
                                "steps": [["export", *e1], ["edit", ed]]})
        if not quick:
            for e1 in EARLIER:
                for ed1 in EDITS[1:]:
                    for e2 in EARLIER:
                        for ed2 in EDITS[1:]:
                            seq.append({"mode": "sequence", "method": "rtf", "stub": None, "pre": "exists", "doc": kind,
                                        "steps": [["export", *e1], ["edit", ed1], ["export", *e2], ["edit", ed2]]})
    run.layer("export-histories", "mc.props.c18:eval_case", seq, chunk=10, total=len(seq))
    for need in ("faults_propagated", "faults_swallowed", "exports_ok", "exports_raised"):
        if not run.cnt.get(need):
            run.harness_errors.append({"layer": "vacuity", "case": None, "error": f"counter {need} is zero"})

"""C13 - group_by blanks only true repeats and restores context on each page.

Exhaustive enumeration of group-key sequences over {a, b, null} (1-3 group_by levels) x nrow such
that page starts fall on every row position, plus combinations with page_by / subline_by on another
column, all executed on the real encoder and read back.  Oracle: a group_by cell is blank exactly
when its hierarchical key (null is a value, distinct from every non-null) equals the preceding
row's and the row is not the first data row of its page; other columns untouched; non-contiguous
keys => ValueError and no output.
"""
from __future__ import annotations

import itertools

from ..rtfreader.reader import parse
from ..spec import docspec

PID = "C13"
LEVEL = "model_checking"
TECHNIQUE = ("exhaustive enumeration of all group-key sequences over {a,b,null} (1-3 levels, length <= 7/8) x page sizes placing a page start at "
             "every row position, executed on the real encoder; null-aware reference suppression compared cell by cell")
LEVEL_TEXT = ("All key sequences up to the stated length (every adjacency pattern incl. nulls, every non-contiguous order) are run for page sizes that "
              "put a break before every row; suppression is a relation between adjacent rows and page starts, so enumerating all short sequences x all "
              "break positions decides it within the bound.")
LEVEL_NOTE = "Trusted: RTF reader, sentinel tags K<l>v<k>. Bounds: alphabet {a,b,null}, <=3 levels, lengths as in evidence; no reserved rows (header none) so page starts are controlled by nrow."

SYMS = (0, 1, None)


def contiguous(keys):
    """keys: list of hierarchical key tuples per row. Every level's prefix keys must be contiguous."""
    if not keys:
        return True
    L = len(keys[0])
    for l in range(L):
        seen = set()
        prev = object()
        for k in keys:
            p = k[: l + 1]
            if p != prev:
                if p in seen:
                    return False
                seen.add(p)
                prev = p
    return True


def expected_cells(keys, page_firsts):
    """-> per row, per level: True = must show the original value, False = must be blank."""
    out = []
    for r, k in enumerate(keys):
        row = []
        for l in range(len(k)):
            show = r == 0 or r in page_firsts or k[: l + 1] != keys[r - 1][: l + 1]
            row.append(show)
        out.append(row)
    return out


def defect_model(keys, page_firsts):
    """The pinned implementation's mechanism: three-valued != (null if either side is null), higher
    levels compared on their ALREADY BLANKED values; then original values restored at page starts."""
    n = len(keys)
    L = len(keys[0]) if keys else 0
    blanked = [[k[l] for k in keys] for l in range(L)]
    shown = [[True] * L for _ in range(n)]

    def cmp3(x, y):
        return None if x is None or y is None else x != y

    for l in range(L):
        orig = [k[l] for k in keys]
        res = []
        for r in range(n):
            if r == 0:
                res.append(True)
                continue
            conds = [cmp3(blanked[h][r], blanked[h][r - 1]) for h in range(l)] + [cmp3(orig[r], orig[r - 1])]
            res.append(True if any(c is True for c in conds) else False)
        for r in range(n):
            shown[r][l] = res[r]
            blanked[l][r] = orig[r] if res[r] else None
    for r in page_firsts:
        for l in range(L):
            shown[r][l] = True
    return shown


def build_spec(case_keys, nrow, extra):
    n = len(case_keys)
    L = len(case_keys[0])
    spec = {"n": n, "cols": ["s", "i"], "title": 0, "header": "none",
            "group_by": [[k[l] for k in case_keys] for l in range(L)], "page": {"nrow": nrow}}
    spec.update(extra or {})
    return spec


def check_one(keys, nrow, extra):
    """-> list of violations for one document."""
    viol = []
    spec = build_spec(keys, nrow, extra)
    n, L = len(keys), len(keys[0])
    cont = contiguous(keys)
    try:
        b = docspec.build(spec)
        out = b.doc.rtf_encode()
    except ValueError as e:
        if cont:
            viol.append({"klass": None, "sig": "contiguous-data-rejected", "detail": f"ValueError for contiguous keys {keys} nrow={nrow} {extra}: {e}"})
        return viol, None
    except Exception as e:
        viol.append({"klass": None, "sig": f"encode-raised-{type(e).__name__}", "detail": f"{type(e).__name__}: {e} keys={keys} nrow={nrow} {extra}"})
        return viol, None
    if not cont:
        viol.append({"klass": None, "sig": "non-contiguous-data-rendered", "detail": f"keys {keys} are not contiguous but a document was produced (nrow={nrow} {extra})"})
        return viol, None
    d = parse(out)
    if d.errors:
        viol.append({"klass": None, "sig": "unparseable", "detail": str(d.errors[:2])})
        return viol, None
    # locate data rows and page starts
    got = {}
    page_firsts = set()
    order = []
    for pg in d.pages:
        first = True
        for blk in pg.blocks:
            role, info = docspec.block_role(blk)
            if role != "data":
                continue
            r = info[1]
            order.append(r)
            if first:
                page_firsts.add(r)
                first = False
            got[r] = blk.texts
    if order != list(range(n)):
        viol.append({"klass": None, "sig": "data-rows-lost-or-reordered", "detail": f"rows {order} keys={keys} nrow={nrow} {extra}"})
        return viol, None
    exp = expected_cells(keys, page_firsts)
    shown_cols = b.shown
    kidx = [shown_cols.index(f"k{l}") for l in range(L)]
    wrong = []
    for r in range(n):
        texts = got[r]
        if len(texts) != len(shown_cols):
            viol.append({"klass": None, "sig": "cell-count", "detail": f"row {r}: {len(texts)} cells for {len(shown_cols)} columns"})
            return viol, None
        for l in range(L):
            orig = b.display[r][f"k{l}"]
            want = orig if exp[r][l] else ""
            if texts[kidx[l]] != want:
                wrong.append((r, l, want, texts[kidx[l]]))
        for j, name in enumerate(shown_cols):
            if name.startswith("k"):
                continue
            if texts[j] != b.display[r][name]:
                viol.append({"klass": None, "sig": "other-column-altered", "detail": f"row {r} column {name}: {texts[j]!r} != {b.display[r][name]!r} keys={keys}"})
    if wrong:
        # narrow class: the whole document equals the known defect mechanism
        dm = defect_model(keys, page_firsts - {0})
        same = all((got[r][kidx[l]] != "") == (dm[r][l] and b.display[r][f"k{l}"] != "") or b.display[r][f"k{l}"] == ""
                   for r in range(n) for l in range(L))
        r, l, want, gotv = wrong[0]
        only_blanked = all(want_ and not got_ for (_, _, want_, got_) in wrong)
        klass = "suppression-compares-null-or-already-blanked-values" if (same and only_blanked) else None
        viol.append({"klass": klass, "sig": f"suppression-mismatch-{klass}",
                     "detail": f"row {r} level {l + 1}: rendered {gotv!r}, expected {want!r}; keys={keys} page starts={sorted(page_firsts)} nrow={nrow} {extra or ''}"})
    return viol, len(d.pages)


def eval_case(case: dict) -> dict:
    L = case["levels"]
    syms = case.get("syms", [0, 1, None])
    alphabet = list(itertools.product(syms, repeat=L))
    prefix = [tuple(k) for k in case["prefix"]]
    depth = case["depth"]
    extra = case.get("extra")
    viol_best = {}
    cnt = {"rendered": 0, "rejected": 0, "multi_page": 0, "with_null": 0, "docs": 0}
    n_docs = 0

    def nrows_for(n):
        mode = case.get("nrows", "all")
        if mode == "all":
            return list(range(1, n + 2))
        return sorted({x for x in mode if x <= n + 1} | {n + 1})

    def visit(keys):
        nonlocal n_docs
        if case.get("only_len") and len(keys) != case["only_len"]:
            return
        for nrow in nrows_for(len(keys)):
            v, npages = check_one(keys, nrow, extra)
            n_docs += 1
            if npages is None and not v:
                cnt["rejected"] += 1
                break  # rejection does not depend on nrow
            if npages:
                cnt["rendered"] += 1
                cnt["multi_page"] += npages > 1
            for x in v:
                cur = viol_best.get(x["sig"])
                if cur is None or len(x["detail"]) < len(cur["detail"]):
                    viol_best[x["sig"]] = dict(x, n=(cur or {}).get("n", 0) + 1)
                else:
                    cur["n"] += 1
        if any(None in k for k in keys):
            cnt["with_null"] += 1

    def rec(keys, d):
        if keys:
            visit(keys)
        if d <= 0:
            return
        for a in alphabet:
            rec(keys + [a], d - 1)

    rec(list(prefix), depth)
    return {"viol": list(viol_best.values()), "nt_n": cnt["multi_page"] + cnt["rejected"], "evals": n_docs,
            "sample": {"levels": L, "prefix": case["prefix"], "depth": depth, "documents": n_docs, "rendered": cnt["rendered"], "rejected_non_contiguous": cnt["rejected"],
                       "multi_page": cnt["multi_page"]} if depth >= 2 else None, "cnt": {k: v for k, v in cnt.items() if v},
            "states": n_docs, "transitions": max(0, n_docs - 1)}


def plan(run):
    quick = run.tier == "quick"
    run.rule = ("all key sequences over {a,b,null}^levels: 1 level length<=7 (thorough 8), 2 levels length<=4 (5), 3 levels length<=3 over {a,null} (quick) / "
                "{a,b,null} (thorough); each with nrow = 1..n+1 (1 level) or a subset placing breaks at several positions; plus combinations with page_by / "
                "subline_by on another column; plus integer / float / boolean key columns over {0, 1, null} (1 level length<=5 (7), 2 levels length<=3 (4)); plus two-level keys whose texts hold '|', ',', a tab or the words '__NULL__' / 'None'; plus two- and three-level keys whose columns sit in the DataFrame in another order than group_by names them. states = documents executed (sequence x nrow); non-trivial = distinct (sequence, nrow) rendered on >= 2 pages, or rejected as non-contiguous")
    run.assumptions = ["no header/footnote rows are configured, so nrow alone controls where pages start",
                       "null display text is the empty string, so only non-null cells can distinguish blank from shown"]
    cases = []
    # one level: split by first two symbols
    d1 = 7 if quick else 8
    for a, b in itertools.product(SYMS, repeat=2):
        cases.append({"levels": 1, "prefix": [[a], [b]], "depth": d1 - 2, "nrows": "all" if not quick else [1, 2, 3, 5]})
    for a in SYMS:
        cases.append({"levels": 1, "prefix": [[a]], "depth": 0, "nrows": "all"})
    # two levels
    d2 = 4 if quick else 5
    for a in itertools.product(SYMS, repeat=2):
        for b in itertools.product(SYMS, repeat=2):
            cases.append({"levels": 2, "prefix": [list(a), list(b)], "depth": d2 - 2, "nrows": [1, 2, 3] if quick else "all"})
    # three levels
    s3 = [0, None] if quick else [0, 1, None]
    for a in itertools.product(s3, repeat=3):
        for b in itertools.product(s3, repeat=3):
            cases.append({"levels": 3, "syms": s3, "prefix": [list(a), list(b)], "depth": 1, "nrows": [1, 2]})
    # combined with page_by / subline_by on another column (run pattern splits the rows at each position)
    for n in ((4,) if quick else (4, 5)):
        for grp in [[0] * split + [1] * (n - split) for split in range(1, n)] + [[r % 2 for r in range(n)], [(r // 2) % 2 for r in range(n)]]:
            # (the last two: the page_by / subline_by value recurs - A, B, A - which is legal; only group_by keys must be contiguous)
            for which in ("page_by", "subline_by"):
                for a in SYMS:
                    cases.append({"levels": 1, "prefix": [[a]], "depth": n - 1, "nrows": [2, 3], "only_len": n,
                                  "extra": {which: [grp], "colorder": None}})
    # numeric / boolean key columns: 0, 0.0 and False are legitimate key values (and falsy ones)
    for kt in ("int", "float", "bool"):
        for a, b in itertools.product(SYMS, repeat=2):
            cases.append({"levels": 1, "prefix": [[a], [b]], "depth": 3 if quick else 5, "nrows": [1, 2, 3] if quick else "all", "extra": {"group_by_dtype": kt}})
        for a in itertools.product((0, 1), repeat=2):
            for b in itertools.product(SYMS, repeat=2):
                cases.append({"levels": 2, "prefix": [list(a), list(b)], "depth": 1 if quick else 2, "nrows": [1, 2], "extra": {"group_by_dtype": kt}})
    # key texts that contain what an implementation might use as a separator or null marker when it joins the levels
    # into one key: ("x", "y|z") and ("x|y", "z") are different keys; the text "__NULL__" / "None" / "" is not null
    for vals in ({"0": ["x", "x|y"], "1": ["y|z", "z"]}, {"0": ["a", "a|"], "1": ["|b", "b"]}, {"0": ["a", "b"], "1": ["__NULL__", "None"]},
                 {"0": ["a", "a,"], "1": [",b", "b"]}, {"0": ["a", "a\t"], "1": ["\tb", "b"]}):
        for a in itertools.product((0, 1), repeat=2):
            for b in itertools.product(SYMS, repeat=2):
                cases.append({"levels": 2, "prefix": [list(a), list(b)], "depth": 1 if quick else 2, "nrows": [1, 3],
                              "extra": {"group_by_values": vals, "body": {"text_convert": False}}})  # '_' would be converted to a subscript
    # the group_by list names the levels in another order than the DataFrame holds the columns (outer level = first NAME in group_by)
    for a in itertools.product(SYMS, repeat=2):
        for b in itertools.product(SYMS, repeat=2):
            cases.append({"levels": 2, "prefix": [list(a), list(b)], "depth": 1 if quick else 2, "nrows": [1, 2, 3], "extra": {"colorder": ["c0", "k1", "k0", "c1"]}})
    for a in itertools.product((0, None), repeat=3):
        for b in itertools.product((0, 1, None) if not quick else (0, None), repeat=3):
            cases.append({"levels": 3, "syms": [0, 1, None] if not quick else [0, None], "prefix": [list(a), list(b)], "depth": 1, "nrows": [1, 2],
                          "extra": {"colorder": ["k2", "c0", "k0", "c1", "k1"]}})
    run.layer("key-sequences", "mc.props.c13:eval_case", cases, chunk=1, total=len(cases))
    run.extra["traces_validated_against_impl"] = run.evaluations
    for need in ("rendered", "rejected", "multi_page", "with_null"):
        if not run.cnt.get(need):
            run.harness_errors.append({"layer": "vacuity", "case": None, "error": f"counter {need} is zero"})

"""C19 - invalid configuration is rejected up front with ValueError.

Space (exhaustive): for every field that the property names as validated, of RTFPage, RTFBody,
RTFColumnHeader, RTFFootnote, RTFSource, RTFTitle, RTFSubline, RTFPageHeader, RTFPageFooter and
RTFFigure: every member of a fixed list of invalid values of the field's kind (unknown keyword,
wrong-case keyword, 0, -1, -0.5, font 0 / 11 / -1, margin lists of length 0/1/5/7/12; values that are legal for a
SIBLING field but not here (text vs cell justification letters, horizontal vs vertical alignment words, border styles
vs format letters vs colours, font size vs font number, the keyword sets of the placement-like fields); near-miss
strings built from a legal value (trailing / leading newline, CRLF, blank, tab, NUL, repetition, upper / title case,
Unicode look-alike, '' where not legal); thorough: also
padded / upper-case / near-miss keywords, -0.0, -1e-9, -100, margin lengths 2/3/4/8) at every
position of every shape {scalar, list of 1..3, 2x2 matrix, 1x3 matrix} (thorough: also 3x1 and 2x3),
all other positions holding valid values - rotated members of the legal set and, where '' is a legal "no value"
spelling (colours, border styles, format, justification, vertical alignment), also '' at all other positions / at the
previous / at the next position; plus the RTFDocument-level rules (df together with a
figure, neither, group_by/page_by/subline_by column missing from the data at every list position
and in every section, new_page without page_by, df/rtf_body/rtf_column_header list length
mismatches, missing figure file at every list position), each crossed with the other optional fields of the same
constructor set / unset (the rule must hold whatever else is configured).  A slice of all this is evaluated again in a
child interpreter started with `python -O` (asserts stripped) and must give the same verdicts.
Oracle: the constructor raises ValueError (pydantic's ValidationError is one) - or FileNotFoundError
for a missing figure file.  Any other exception type, or a returned object, is a violation.
Positive control: the same value with the *valid* filler at the same position must construct; an
invalid case whose twin control does not construct is vacuous and is not counted as non-trivial.
"""
from __future__ import annotations

import atexit
import glob
import os
import shutil

PID = "C19"
LEVEL = "exploration"
TECHNIQUE = ("bounded exhaustive enumeration of (component, validated field, shape, position, invalid value) on the real "
             "constructors; exception-type oracle with a twin positive control per case")
LEVEL_TEXT = ("exhaustive within the stated bound: every validated field named by the property x every listed invalid value x "
              "every position of every shape (scalar, list 1..3, 2x2, 1x3) with valid fillers, plus the document-level rules; "
              "each case is one real constructor call, and a twin call with the valid value in the same position proves that "
              "the rejection is due to the bad value. Exploration is the right level: the space is a finite product of small "
              "alphabets and the property is an exception-type predicate on each member")
LEVEL_NOTE = ("trusted base: CPython exception semantics (issubclass(type(e), ValueError)); the lists of valid and invalid "
              "values per kind in this module (restated from the documented legal sets, not read from the live tables); "
              "shapes beyond 2x3 and values of other Python types (None, bool, nested deeper) are outside the bound")

FINDING_FIELD_NAME = "validator-message-uses-missing-__field_name__"

# --------------------------------------------------------------------------- kinds: legal and illegal values
# 'valid' restates the documented legal set (a few members), 'invalid' the fixed list of illegal values.

KINDS = {
    "border": {"valid": ["single", "double", "", "dashed"], "invalid": ["bogus", "Single", "solid"]},
    "colour": {"valid": ["red", "blue", "gray50"], "invalid": ["notacolour", "Red", "grey101"]},
    "font": {"valid": [1, 4, 9, 10], "invalid": [0, 11, -1]},
    "format": {"valid": ["b", "", "i", "bi"], "invalid": ["x", "B", "bx"]},
    "textjust": {"valid": ["l", "c", "r", "j"], "invalid": ["x", "L", "left"]},       # text_justification: l c r j d
    "celljust": {"valid": ["l", "c", "r"], "invalid": ["x", "L", "left"]},            # cell_justification (row alignment): l c r only
    "valign": {"valid": ["top", "center", "bottom"], "invalid": ["middle", "Top", "x"]},
    "orientation": {"valid": ["portrait", "landscape"], "invalid": ["Portrait", "LANDSCAPE", "diagonal", ""]},
    "placement": {"valid": ["first", "last", "all"], "invalid": ["First", "middle", "none", ""]},
    "pageby_row": {"valid": ["column", "first_row"], "invalid": ["Column", "row", ""]},
    "fig_align": {"valid": ["left", "center", "right"], "invalid": ["Center", "middle", "justify"]},
    "fig_pos": {"valid": ["before", "after"], "invalid": ["Before", "top", "inside"]},
    "posfloat": {"valid": [1.5, 0.25, 3], "invalid": [0, -1, -0.5]},
    "pagedim": {"valid": [8.5, 11, 6.25], "invalid": [0, -1, -0.5]},
    "posint": {"valid": [15, 10, 30], "invalid": [0, -1, -0.5]},
    "fontsize": {"valid": [9, 12, 8], "invalid": [0, -1, -0.5]},
    "margin": {"valid": [[1.25, 1, 1.75, 1.25, 1.75, 1.0], [1, 1, 2, 1.25, 1.25, 1.25], [0.5, 0.5, 0.5, 0.5, 0.5, 0.5]],
               "invalid": [[], [1.0], [1, 1, 1, 1, 1], [1, 1, 1, 1, 1, 1, 1], [1] * 12]},
}

# further members of the same kinds, thorough tier only
EXTRA_INVALID = {
    "border": [" single", "SINGLE", "none", "single "], "colour": ["RED", "red ", "gray101", "light blue"],
    "font": [12, 100, -10], "format": ["bB", "bold", "*", "b "], "textjust": ["C", "centre", "lr", " l"], "celljust": ["C", "centre", "lr", " l"],
    "valign": ["BOTTOM", "centre", "middle "], "orientation": ["landscape ", "Landscape", "l"],
    "placement": ["ALL", "every", "first "], "pageby_row": ["first-row", "firstrow", "COLUMN"],
    "fig_align": ["LEFT", "centre", "l"], "fig_pos": ["AFTER", "below", "after "],
    "posfloat": [-0.0, -100, -1e-9], "pagedim": [-0.0, -100, -1e-9], "posint": [-2, -100], "fontsize": [-0.0, -100, -1e-9],
    "margin": [[1, 1], [1, 1, 1], [1, 1, 1, 1], [1] * 8],
}


# --------------------------------------------------------------------------- derived invalid values
# Two further classes of invalid value are DERIVED from the legal sets instead of being listed by hand:
#  * sibling values - legal for a related field, illegal here (text vs cell justification letters, horizontal vs vertical
#    alignment words, border styles vs format letters vs colour names, font numbers vs font sizes, the keyword sets of
#    page_title / pageby_row / fig_pos / orientation): a validator that consults the wrong table accepts exactly these;
#  * near-miss strings built from a legal value - trailing / leading "\n", "\r\n", blank, tab, NUL, the value repeated,
#    upper / title case, a Unicode look-alike letter, and '' where '' is not legal: a validator that matches loosely
#    (regex '$', strip(), lower(), startswith) accepts exactly these.
# rtflite documents no normalisation of these keywords, so every one of them must be rejected up front.
BORDER_STYLES = ["single", "double", "thick", "dotted", "dashed", "small-dash", "dash-dotted", "dash-dot-dotted", "triple", "wavy",
                 "double-wavy", "striped", "embossed", "engraved", "frame", ""]
LEGAL_LIST = {
    "border": BORDER_STYLES, "format": ["b", "i", "u", "s", "^", "_", "bi", ""], "colour": ["red", "blue", "gray50", ""],
    "textjust": ["l", "c", "r", "j", "d", ""], "celljust": ["l", "c", "r", ""],
    "valign": ["top", "center", "bottom", "merge_first", "merge_rest", ""], "fig_align": ["left", "center", "right"],
    "orientation": ["portrait", "landscape"], "placement": ["first", "last", "all"], "pageby_row": ["column", "first_row"],
    "fig_pos": ["before", "after"], "font": list(range(1, 11)), "fontsize": [9, 12, 8, 7.5],
}
FAMILIES = [["celljust", "textjust", "valign", "fig_align"], ["border", "format", "colour"], ["font", "fontsize"],
            ["placement", "pageby_row", "fig_pos", "orientation"]]
LOOKALIKE = {"a": "\u0430", "c": "\u0441", "e": "\u0435", "i": "\u0456", "o": "\u043e", "p": "\u0440", "s": "\u0455", "l": "\u04cf",
             "r": "\u0433", "b": "\uff42", "t": "\uff54", "f": "\uff46", "d": "\u0501", "g": "\u0261", "j": "\u0458", "^": "\u02c6", "_": "\uff3f"}
_COLOURS = None


def is_legal(kind: str, v) -> bool:
    """The documented legal set of the kind, restated (colours: the frozen table data/colors.json)."""
    global _COLOURS
    if kind == "format":
        return isinstance(v, str) and all(ch in "bius^_" for ch in v)
    if kind == "colour":
        if _COLOURS is None:
            import json
            with open(os.path.join(os.path.dirname(os.path.dirname(os.path.dirname(os.path.abspath(__file__)))), "data", "colors.json")) as f:
                _COLOURS = set(json.load(f)["names"])
        return v == "" or v in _COLOURS
    if kind == "fontsize":
        return isinstance(v, (int, float)) and v > 0
    return v in LEGAL_LIST[kind]


def sibling_values(kind: str) -> list:
    out = []
    for fam in FAMILIES:
        if kind in fam:
            for sib in fam:
                if sib != kind:
                    out += [v for v in LEGAL_LIST[sib] if not is_legal(kind, v) and v not in out]
    return out


def near_misses(kind: str) -> list:
    if kind not in LEGAL_LIST or kind in ("font", "fontsize"):
        return []
    bases = [v for v in KINDS[kind]["valid"] if v != ""][:2]
    out = []
    for b in bases[:1] + ([bases[1]] if kind == "format" and len(bases) > 1 else []):
        look = next((b.replace(ch, LOOKALIKE[ch], 1) for ch in b if ch in LOOKALIKE), None)
        out += [b + "\n", "\n" + b, b + "\r\n", b + "\x00", b + " ", b + b, look, " " + b, b + "\t", b.upper(), b.title()]
    out += ["\n", "", " "]
    res = []
    for v in out:
        if v is not None and not is_legal(kind, v) and v not in res:
            res.append(v)
    return res


def invalid_values(kind: str, thorough: bool, seed: int = 0) -> list:
    """[(value, why)] - hand-listed, sibling and near-miss values; the quick tier takes the first 3 of each derived list plus 1
    more rotated by the seed (the lists are ordered most-confusable first), the thorough tier takes everything."""
    out = [(v, "listed") for v in KINDS[kind]["invalid"]]
    for why, vals in (("sibling", sibling_values(kind)), ("near-miss", near_misses(kind))):
        if not thorough and len(vals) > 4:
            rest = vals[3:]
            vals = vals[:3] + [rest[seed % len(rest)]]
        out += [(v, why) for v in vals]
    if thorough:
        out += [(v, "listed") for v in EXTRA_INVALID[kind]]
    seen, res = [], []
    for v, why in out:
        if repr(v) not in seen:
            seen.append(repr(v))
            res.append((v, why))
    return res

SHAPES = {"scalar": None, "list1": (1,), "list2": (2,), "list3": (3,), "m2x2": (2, 2), "m1x3": (1, 3),
          "m3x1": (3, 1), "m2x3": (2, 3)}
QUICK_SHAPES = ("scalar", "list1", "list2", "list3", "m2x2", "m1x3")
ALL_SHAPES = QUICK_SHAPES + ("m3x1", "m2x3")
MATRIX = ("m2x2", "m1x3", "m3x1", "m2x3")

TEXT_FIELDS = {"text_font": "font", "text_format": "format", "text_font_size": "fontsize", "text_color": "colour",
               "text_background_color": "colour", "text_justification": "textjust"}
TABLE_FIELDS = dict(TEXT_FIELDS)
TABLE_FIELDS.update({f"border_{s}": "border" for s in ("left", "right", "top", "bottom", "first", "last")})
TABLE_FIELDS.update({f"border_color_{s}": "colour" for s in ("left", "right", "top", "bottom", "first", "last")})
TABLE_FIELDS.update({"border_width": "posint", "cell_height": "posfloat", "col_rel_width": "posfloat",
                     "cell_justification": "celljust", "cell_vertical_justification": "valign"})
PAGE_FIELDS = {"orientation": "orientation", "width": "pagedim", "height": "pagedim", "col_width": "pagedim", "nrow": "posint",
               "border_first": "border", "border_last": "border", "page_title": "placement", "page_footnote": "placement",
               "page_source": "placement", "margin": "margin"}

TEXT_COMPONENTS = ("RTFTitle", "RTFSubline", "RTFPageHeader", "RTFPageFooter")
TABLE_COMPONENTS = ("RTFBody", "RTFColumnHeader", "RTFFootnote", "RTFSource")


def shapes_of(comp: str, field: str, all_shapes) -> list:
    """(shape, required) - 'required' shapes are documented input forms: a valid value of that shape must construct.
    Optional shapes are admitted by the declared type on the pinned tree but not documented; they are explored
    only as far as the twin control constructs."""
    if comp in ("RTFPage", "RTFFigure") or field == "pageby_row":
        return [("scalar", True)]
    if comp in TEXT_COMPONENTS:
        return [(s, s not in MATRIX) for s in all_shapes]
    if field == "col_rel_width":       # a vector of column weights
        return [(s, s not in MATRIX) for s in all_shapes]
    return [(s, True) for s in all_shapes]


def npos(shape: str) -> int:
    dims = SHAPES[shape]
    if dims is None:
        return 1
    n = 1
    for d in dims:
        n *= d
    return n


# the legal "no value" spelling of a kind: '' means "no colour", "no border", "no formatting" (documented; it is the
# default of several fields) - and rtflite's code tables also list '' for justification and vertical alignment.
# An invalid value must be rejected also when its neighbours are such empty entries (a validator that skips or stops
# at '' is the classic slip), so the empty spelling is placed before / after / all around the invalid value.
EMPTY = {"colour": "", "border": "", "format": "", "textjust": "", "celljust": "", "valign": ""}
EMPTY_DOCUMENTED = ("colour", "border", "format")       # for the others the empty neighbour is explored only if its twin constructs
SCHEMES = ("empty-others", "empty-prev", "empty-next")
_KEEP = object()


def make_value(kind: str, shape: str, rot: int, pos=None, bad=_KEEP, scheme=None):
    """Valid fillers valid[(i+rot) % n] at every position i; with a scheme, the legal empty spelling at all other
    positions / the previous / the next position relative to `pos`; `bad` at position `pos` when given."""
    valid = KINDS[kind]["valid"]
    n = npos(shape)
    flat = [valid[(i + rot) % len(valid)] for i in range(n)]
    if scheme is not None:
        e = EMPTY[kind]
        if scheme == "empty-others":
            flat = [flat[i] if i == pos else e for i in range(n)]
        elif scheme == "empty-prev":
            flat[pos - 1] = e
        elif scheme == "empty-next":
            flat[pos + 1] = e
        else:
            raise ValueError(scheme)
    if bad is not _KEEP:
        flat[pos] = bad
    dims = SHAPES[shape]
    if dims is None:
        return flat[0]
    if len(dims) == 1:
        return flat
    r, c = dims
    return [flat[i * c:(i + 1) * c] for i in range(r)]


def schemes_at(kind: str, shape: str, pos: int) -> list:
    if kind not in EMPTY or npos(shape) < 2:
        return []
    out = ["empty-others"]
    if pos > 0 and npos(shape) > 2:
        out.append("empty-prev")
    if pos + 1 < npos(shape) and npos(shape) > 2:
        out.append("empty-next")
    return out


# --------------------------------------------------------------------------- outcome of one constructor call


def attempt(fn):
    """-> (outcome, text); outcome in {'constructed', 'ValueError', 'FileNotFoundError', 'other:<Type>'}"""
    try:
        obj = fn()
    except ValueError as e:            # includes pydantic.ValidationError
        return "ValueError", f"{type(e).__name__}: {str(e)[:160]}"
    except FileNotFoundError as e:
        return "FileNotFoundError", f"FileNotFoundError: {str(e)[:160]}"
    except Exception as e:
        return f"other:{type(e).__name__}", f"{type(e).__name__}: {str(e)[:160]}", e
    return "constructed", type(obj).__name__


def classify(exc) -> str | None:
    """Narrow: the rejection path itself is reached, but building its message dereferences the
    non-existent class attribute __field_name__ (pydantic v2 has no such attribute)."""
    if type(exc) is AttributeError and "__field_name__" in str(exc):
        return FINDING_FIELD_NAME
    return None


def judge(where: str, bad_repr: str, res, allow_fnf: bool, viol: list, cnt: dict):
    out = res[0]
    if out == "ValueError" or (allow_fnf and out == "FileNotFoundError"):
        cnt["rejected-" + out] = cnt.get("rejected-" + out, 0) + 1
        return
    if out == "constructed":
        viol.append({"klass": None, "sig": f"{where}-accepted",
                     "detail": f"{where}: invalid value {bad_repr} was accepted, constructor returned a {res[1]}"})
        return
    exc = res[2] if len(res) > 2 else None
    tname = out.split(":", 1)[-1]
    viol.append({"klass": classify(exc) if exc is not None else None, "sig": f"{where}-raised-{tname}",
                 "detail": f"{where}: invalid value {bad_repr} raised {res[1]} - not a ValueError"})


# --------------------------------------------------------------------------- builders (public API only)

_FIG_DIR = None


def fig_dir() -> str:
    global _FIG_DIR
    if _FIG_DIR is None:
        from ..core import repo
        from ..spec.figures import make_png
        d = os.path.join(repo.VERIF, ".work", f"c19-{os.getppid()}-{os.getpid()}")
        os.makedirs(d, exist_ok=True)
        for i in range(3):
            p = os.path.join(d, f"ok{i}.png")
            if not os.path.exists(p):
                with open(p, "wb") as f:
                    f.write(make_png(3 + i, 2, bytes([i + 1]) * 5))
        _FIG_DIR = d
        atexit.register(shutil.rmtree, d, True)   # replay / inline runs; pool workers are cleaned by plan()
    return _FIG_DIR


def component(comp: str, **kw):
    import rtflite
    return getattr(rtflite, comp)(**kw)


def frame():
    import polars as pl
    return pl.DataFrame({"A": ["a", "a", "b", "b"], "B": ["p", "q", "p", "q"], "C": ["x", "x", "x", "y"], "D": [1, 2, 3, 4],
                         "E": ["u", "u", "v", "v"], "F": ["m", "m", "m", "n"]})


# Cross-field rules are crossed with the OTHER optional fields of the same constructor, set (to a valid non-default value)
# or unset: the rule must hold in every such context (a validator that lets another field stand in for the missing one,
# or skips the rule when some other field is set, is the slip this catches).  `ctx` in a case = names of the fields set.
BODY_CTX = {"subline_by": ["A"], "group_by": ["B"], "pageby_row": "first_row", "pageby_header": False, "as_colheader": False,
            "last_row": False, "col_rel_width": [2], "text_font": 4, "border_left": "double"}
GROUP_OTHERS = {"group_by": ["D"], "page_by": ["E"], "subline_by": ["F"]}
FIGURE_CTX = {"fig_align": "left", "fig_pos": "before", "fig_width": 3, "fig_height": [2]}
DOC_CTX = ("rtf_title", "rtf_subline", "rtf_page_header", "rtf_page_footer", "rtf_footnote", "rtf_source", "rtf_page")


def doc_ctx(names) -> dict:
    import rtflite as rtf
    make = {"rtf_title": lambda: rtf.RTFTitle(text="T"), "rtf_subline": lambda: rtf.RTFSubline(text="S"),
            "rtf_page_header": lambda: rtf.RTFPageHeader(), "rtf_page_footer": lambda: rtf.RTFPageFooter(text="PF"),
            "rtf_footnote": lambda: rtf.RTFFootnote(text="F", as_table=False), "rtf_source": lambda: rtf.RTFSource(text="S", as_table=False),
            "rtf_page": lambda: rtf.RTFPage(nrow=10), "rtf_body": lambda: rtf.RTFBody()}
    return {n: make[n]() for n in names}


def subsets(names):
    import itertools
    names = list(names)
    for k in range(len(names) + 1):
        for c in itertools.combinations(names, k):
            yield list(c)


def eval_field(case: dict) -> dict:
    comp, field, kind, shape, rot = case["comp"], case["field"], case["kind"], case["shape"], case.get("rot", 0)
    where = f"{comp}.{field}"
    viol, cnt = [], {}
    extra = {"text": "T"} if comp not in ("RTFPage", "RTFFigure", "RTFBody") else {}
    scheme = case.get("scheme")
    ctl_value = make_value(kind, shape, rot, case.get("pos"), scheme=scheme)      # the twin: valid value at `pos` too
    ctl = attempt(lambda: component(comp, **{field: ctl_value}, **extra))
    required = case.get("required", True)
    if case.get("ctl"):
        # positive control layer: a valid value of a documented shape must construct
        if ctl[0] == "constructed":
            cnt["control-constructed"] = 1
            cnt["control-" + shape] = 1
        elif not required and ctl[0] == "ValueError":
            cnt["optional-shape-not-accepted"] = 1
        elif not required:
            cnt["optional-shape-raised-other"] = 1
        else:
            viol.append({"klass": None, "sig": f"{where}-valid-rejected",
                         "detail": f"{where}: VALID value {ctl_value!r} ({shape}) did not construct: {ctl[1]}"})
        return {"viol": viol, "nt": ctl[0] == "constructed", "cnt": cnt}
    bad = case["bad"]
    value = make_value(kind, shape, rot, case["pos"], bad, scheme)
    if ctl[0] != "constructed":
        # the shape itself is not accepted here: the invalid twin says nothing about the bad value
        return {"viol": [], "nt": False, "cnt": {"vacuous-twin-control-not-constructed": 1}}
    res = attempt(lambda: component(comp, **{field: value}, **extra))
    judge(where, f"{bad!r} at position {case['pos']} of {shape} value {value!r}", res, False, viol, cnt)
    cnt["invalid-" + shape] = 1
    cnt["invalid-kind-" + kind] = 1
    if scheme:
        cnt["invalid-with-" + scheme] = 1
    if case.get("why"):
        cnt["invalid-" + case["why"] + "-value"] = 1
    if shape in MATRIX and case["pos"] > 0:
        cnt["invalid-inner-matrix-position"] = 1
    sample = None
    if shape == "m2x2" and case["pos"] == 3:
        sample = {"call": f"{comp}({field}={value!r})", "outcome": res[1], "twin_control": f"{comp}({field}={ctl_value!r}) -> {ctl[1]}"}
    out = {"viol": viol, "nt": True, "cnt": cnt}
    if sample:
        out["sample"] = sample
    return out


def eval_doc(case: dict) -> dict:
    import rtflite as rtf
    from pathlib import Path
    rule = case["rule"]
    viol, cnt = [], {}
    allow_fnf = False

    def bodies(n, **kw0):
        return [rtf.RTFBody(**(kw0 if i == case.get("sec", 0) else {})) for i in range(n)]

    if rule == "figure-missing":
        d = fig_dir()
        good = [os.path.join(d, f"ok{i}.png") for i in range(3)]
        missing = {"nofile": os.path.join(d, "absent.png"), "nodir": os.path.join(d, "no-such-dir", "f.png")}[case["bad"]]
        n = npos(case["shape"])
        conv = Path if case.get("as_path") else str

        def figs(with_bad):
            flat = [conv(good[i % 3]) for i in range(n)]
            if with_bad:
                flat[case["pos"]] = conv(missing)
            return flat[0] if case["shape"] == "scalar" else flat

        fkw = {k: FIGURE_CTX[k] for k in case.get("ctx", [])}
        ctl = attempt(lambda: rtf.RTFFigure(figures=figs(False), **fkw))
        run = (lambda: rtf.RTFFigure(figures=figs(True), **fkw))
        where, bad_repr, allow_fnf = "RTFFigure.figures", f"missing file ({case['bad']}) at position {case['pos']} of {case['shape']} (also set: {fkw})", True
    elif rule == "group-missing":
        opt, nsec, sec = case["opt"], case["sections"], case.get("sec", 0)
        names = ["A", "B", "C"]
        n = npos(case["shape"])

        def cols(with_bad):
            flat = [names[(i + case.get("rot", 0)) % 3] for i in range(n)]
            if with_bad:
                flat[case["pos"]] = case["bad"]
            return flat[0] if case["shape"] == "scalar" else flat

        okw = {k: GROUP_OTHERS[k] for k in case.get("ctx", [])}

        def doc(with_bad):
            if nsec == 1:
                return rtf.RTFDocument(df=frame(), rtf_body=rtf.RTFBody(**{opt: cols(with_bad)}, **okw))
            return rtf.RTFDocument(df=[frame() for _ in range(nsec)], rtf_body=bodies(nsec, **{opt: cols(with_bad)}, **okw))

        ctl = attempt(lambda: doc(False))
        run = (lambda: doc(True))
        where = f"RTFDocument.{opt}"
        bad_repr = f"column {case['bad']!r} (not in the data) at position {case['pos']} of {case['shape']} {opt}, section {sec + 1}/{nsec}" + (f" (also set: {okw})" if okw else "")
    elif rule == "new-page":
        extras = {k: BODY_CTX[k] for k in case.get("ctx", [])}
        wrap = (lambda b: rtf.RTFDocument(df=frame(), rtf_body=b)) if case.get("in_doc") else (lambda b: b)
        # twin: the same context with page_by present (new_page legal), and with new_page=False (page_by absent)
        ctl = attempt(lambda: (wrap(rtf.RTFBody(new_page=True, page_by=["C"], **extras)), wrap(rtf.RTFBody(new_page=False, **extras))))
        run = (lambda: wrap(rtf.RTFBody(new_page=True, **extras)))
        where, bad_repr = "RTFBody.new_page", f"new_page=True without page_by (other arguments {extras})"
    elif rule == "df-and-figure":
        d = fig_dir()
        fig = lambda: rtf.RTFFigure(figures=[os.path.join(d, f"ok{i}.png") for i in range(case["nfig"])])
        ndf = case["ndf"]

        def dfkw():
            if ndf == 0:
                return {"df": frame()}
            return {"df": [frame() for _ in range(ndf)], "rtf_body": [rtf.RTFBody() for _ in range(ndf)]}

        names = case.get("ctx", [])
        ctl = attempt(lambda: (rtf.RTFDocument(**dfkw(), **doc_ctx(names)), rtf.RTFDocument(rtf_figure=fig(), **doc_ctx(names))))
        run = (lambda: rtf.RTFDocument(rtf_figure=fig(), **dfkw(), **doc_ctx(names)))
        where = "RTFDocument.df+rtf_figure"
        bad_repr = f"df ({'single' if ndf == 0 else f'list of {ndf}'}) together with a figure component of {case['nfig']} file(s); other components: {names}"
    elif rule == "neither":
        names = case.get("ctx", [])
        explicit = {"df": None, "rtf_figure": None} if case.get("explicit_none") else {}
        ctl = attempt(lambda: rtf.RTFDocument(**{**doc_ctx(names), "df": frame()}))
        run = (lambda: rtf.RTFDocument(**doc_ctx(names), **explicit))
        where, bad_repr = "RTFDocument.neither", f"neither df nor rtf_figure{' (both passed as None)' if explicit else ''}; other components: {names}"
    elif rule == "section-length":
        n, m, what = case["ndf"], case["nother"], case["what"]

        def doc(k):
            kw = {"df": [frame() for _ in range(n)]}
            if what == "rtf_body":
                kw["rtf_body"] = [rtf.RTFBody() for _ in range(k)]
            else:
                kw["rtf_body"] = [rtf.RTFBody() for _ in range(n)]
                kw["rtf_column_header"] = [[rtf.RTFColumnHeader(text=["a", "b", "c", "d", "e", "f"])] for _ in range(k)]
            return rtf.RTFDocument(**kw, **doc_ctx(case.get("ctx", [])))

        ctl = attempt(lambda: doc(n))
        run = (lambda: doc(m))
        where, bad_repr = f"RTFDocument.df-vs-{what}", f"df list of {n} with {'nested ' if what != 'rtf_body' else ''}{what} list of {m}; other components: {case.get('ctx', [])}"
    else:
        raise ValueError(f"unknown rule {rule}")
    if case.get("ctl"):
        if ctl[0] == "constructed":
            return {"viol": [], "nt": True, "cnt": {"control-constructed": 1, "control-doc-" + rule: 1}}
        return {"viol": [{"klass": None, "sig": f"{where}-valid-rejected",
                          "detail": f"{where}: the VALID twin of [{bad_repr}] did not construct: {ctl[1]}"}], "nt": False}
    if ctl[0] != "constructed":
        return {"viol": [], "nt": False, "cnt": {"vacuous-twin-control-not-constructed": 1}}
    res = attempt(run)
    judge(where, bad_repr, res, allow_fnf, viol, cnt)
    cnt["invalid-doc-" + rule] = 1
    if case.get("ctx"):
        cnt["invalid-doc-with-other-fields-set"] = 1
    out = {"viol": viol, "nt": True, "cnt": cnt}
    if case.get("pos") == 1 or rule == "df-and-figure":
        out["sample"] = {"rule": rule, "input": bad_repr, "outcome": res[1]}
    return out


# --------------------------------------------------------------------------- the interpreter's optimisation level
# `python -O` / PYTHONOPTIMIZE strips assert statements: a validator written as an assert rejects nothing there.  The
# optimisation level is part of the environment, so a slice of the invalid cases (every invalid value of every validated
# field in scalar form, one inner matrix position per matrix-capable field, the document-level rules in their plain context)
# is re-evaluated in ONE child interpreter started with -O, which imports rtflite from the same ${VERIF_REPO:-/repo}/src.
# Demanded: the same verdict as in this interpreter.

_CHILD = """
import json, sys
sys.path.insert(0, {verif!r})
from mc.core import repo
repo.bind()
from mc.props import c19
cases = json.load(sys.stdin)
out = [c19.eval_case(c) for c in cases]
sys.stdout.write("\\n@@C19-CHILD@@" + json.dumps({{"optimize": sys.flags.optimize, "results": out}}, default=str))
"""


def eval_optimised(case: dict) -> dict:
    import json
    import subprocess
    import sys
    from ..core import repo
    sub = case["cases"]
    p = subprocess.run([sys.executable, "-O", "-c", _CHILD.format(verif=repo.VERIF)], input=json.dumps(sub), capture_output=True,
                       text=True, cwd=repo.VERIF, env=dict(os.environ, VERIF_REPO=repo.REPO), timeout=900)
    if p.returncode != 0 or "@@C19-CHILD@@" not in p.stdout:
        raise RuntimeError(f"python -O child failed (rc={p.returncode}): {p.stderr[-800:]}")
    child = json.loads(p.stdout.split("@@C19-CHILD@@", 1)[1])
    if child["optimize"] < 1 or len(child["results"]) != len(sub):
        raise RuntimeError(f"python -O child: optimize={child['optimize']}, {len(child['results'])} results for {len(sub)} cases")
    viol, cnt = [], {"O-cases": len(sub), "O-same-verdict": 0, "O-rejected": 0}
    for c, rc in zip(sub, child["results"]):
        rn = eval_case(c)
        sn = sorted(v["sig"] for v in rn.get("viol") or [])
        sc = sorted(v["sig"] for v in rc.get("viol") or [])
        cnt["O-rejected"] += sum(v for k, v in (rc.get("cnt") or {}).items() if k.startswith("rejected-"))
        if bool(rc.get("nt")) != bool(rn.get("nt")) and not sc and not sn:
            sc = ["twin-control-verdict-differs"]
        if sn == sc:
            cnt["O-same-verdict"] += 1      # violations common to both are reported by the ordinary layers
            continue
        extra = [v for v in (rc.get("viol") or []) if v["sig"] not in sn]
        d = extra[0]["detail"] if extra else f"normal interpreter: {sn}; under -O: {sc}"
        viol.append({"klass": None, "sig": "under-python-O:" + (extra[0]["sig"] if extra else "verdict-differs"),
                     "detail": f"[child interpreter started with python -O] {d} - the normal interpreter gives {sn or 'a clean rejection'}"})
    return {"viol": viol, "nt": True, "cnt": cnt}


def optimised_slice(groups, dbad) -> list:
    """-> three batches of sub-cases (page/text/figure components, table components, document rules)."""
    light, table = [], []
    for comp, fields in groups:
        dest = table if comp in TABLE_COMPONENTS else light
        for field, kind in fields.items():
            base = {"comp": comp, "field": field, "kind": kind}
            shapes = dict(shapes_of(comp, field, QUICK_SHAPES))
            listed = [v for v, why in invalid_values(kind, False, 0) if why == "listed"]
            derived = [v for v, why in invalid_values(kind, False, 0) if why != "listed"][:2]
            for b in listed + derived:
                dest.append({**base, "shape": "scalar", "rot": 0, "pos": 0, "bad": b})
            if shapes.get("m2x2"):
                dest.append({**base, "shape": "m2x2", "rot": 1, "pos": 3, "bad": listed[0]})
            elif shapes.get("list3"):
                dest.append({**base, "shape": "list3", "rot": 1, "pos": 2, "bad": listed[0]})
    docs = [c for c in dbad if not c.get("ctx") and c.get("sections", 1) == 1 and not c.get("as_path")]
    return [{"k": "optimised", "part": n, "cases": cs} for n, cs in (("page-text-figure", light), ("table-components", table), ("document-rules", docs))]


def eval_case(case: dict) -> dict:
    if case.get("k") == "optimised":
        return eval_optimised(case)
    if case.get("k") == "doc":
        return eval_doc(case)
    return eval_field(case)


# --------------------------------------------------------------------------- enumeration


def field_cases(comp, fields, all_shapes, rots, extra=False, seed=0):
    ctl, bad = [], []
    for field, kind in fields.items():
        nvalid = len(KINDS[kind]["valid"])
        inv = invalid_values(kind, extra, seed)
        for shape, required in shapes_of(comp, field, all_shapes):
            base = {"comp": comp, "field": field, "kind": kind, "shape": shape}
            if not required:
                base["required"] = False
            for rot in range(nvalid):     # every valid value at every position
                ctl.append({**base, "rot": rot, "ctl": True})
            for rot in rots:
                for pos in range(npos(shape)):
                    for b, why in inv:
                        bad.append({**base, "rot": rot % nvalid, "pos": pos, "bad": b, **({} if why == "listed" else {"why": why})})
                    for scheme in schemes_at(kind, shape, pos):
                        sbase = dict(base)
                        if kind not in EMPTY_DOCUMENTED:
                            sbase["required"] = False
                        ctl.append({**sbase, "rot": rot % nvalid, "pos": pos, "scheme": scheme, "ctl": True})
                        for b, why in inv:
                            if why == "listed" or extra:      # derived values with the empty-neighbour schemes: thorough only
                                bad.append({**sbase, "rot": rot % nvalid, "pos": pos, "bad": b, "scheme": scheme,
                                            **({} if why == "listed" else {"why": why})})
    # distinct (rot % nvalid may collide for short valid lists)
    seen, out = set(), []
    for c in bad:
        k = (c["field"], c["shape"], c["rot"], c["pos"], repr(c["bad"]), c.get("scheme"))
        if k not in seen:
            seen.add(k)
            out.append(c)
    seen, cout = set(), []
    for c in ctl:
        k = (c["field"], c["shape"], c["rot"], c.get("pos"), c.get("scheme"))
        if k not in seen:
            seen.add(k)
            cout.append(c)
    return cout, out


def doc_cases(thorough: bool):
    ctl, bad = [], []

    def add(c):
        bad.append({"k": "doc", **c})
        ctl.append({"k": "doc", **c, "ctl": True})

    lists = ("scalar", "list1", "list2", "list3")
    for shape in lists:
        for pos in range(npos(shape)):
            for kind in ("nofile", "nodir"):
                for as_path in (False, True):
                    for ctx in subsets(FIGURE_CTX):
                        add({"rule": "figure-missing", "shape": shape, "pos": pos, "bad": kind, "as_path": as_path, "ctx": ctx})
    for opt in ("group_by", "page_by", "subline_by"):
        others = [o for o in GROUP_OTHERS if o != opt]
        for shape in lists:
            for pos in range(npos(shape)):
                for b in ("Z", "a", "A ", ""):
                    for rot in ((0, 1, 2) if thorough else (0,)):
                        for ctx in subsets(others):
                            add({"rule": "group-missing", "opt": opt, "shape": shape, "pos": pos, "bad": b, "sections": 1, "rot": rot, "ctx": ctx})
                        for nsec in ((2, 3) if thorough else (2,)):
                            for sec in range(nsec):
                                for ctx in (subsets(others) if thorough else ([], others)):
                                    add({"rule": "group-missing", "opt": opt, "shape": shape, "pos": pos, "bad": b, "sections": nsec,
                                         "sec": sec, "rot": rot, "ctx": ctx})
    # new_page requires page_by: in every combination of the other optional body fields
    for ctx in subsets(BODY_CTX):
        for in_doc in (False, True):
            add({"rule": "new-page", "ctx": ctx, "in_doc": in_doc})
    # df together with a figure / neither: in every combination of the other document components
    for ndf in (0, 1, 2):
        for nfig in (1, 2):
            for ctx in (subsets(DOC_CTX) if (ndf, nfig) == (0, 1) or thorough else ([], list(DOC_CTX))):
                add({"rule": "df-and-figure", "ndf": ndf, "nfig": nfig, "ctx": ctx})
    for ctx in subsets(DOC_CTX + ("rtf_body",)):
        add({"rule": "neither", "ctx": ctx})
    for ctx in ([], list(DOC_CTX)):
        add({"rule": "neither", "ctx": ctx, "explicit_none": True})
    top = 4 if thorough else 3
    for what in ("rtf_body", "rtf_column_header"):
        for n in range(1, top + 1):
            for m in range(1, top + 1):
                if m != n:
                    for ctx in (subsets(DOC_CTX) if thorough else ([], ["rtf_title", "rtf_footnote"], list(DOC_CTX))):
                        add({"rule": "section-length", "what": what, "ndf": n, "nother": m, "ctx": ctx})
    return ctl, bad


def plan(run):
    thorough = run.tier != "quick"
    all_shapes = ALL_SHAPES if thorough else QUICK_SHAPES
    rots = (0, 1, 2, 3) if thorough else (run.seed % 12,)
    run.rule = ("cases = (component, validated field named by the property, shape in {scalar, list1..3, 2x2, 1x3"
                + (", 3x1, 2x3" if thorough else "") + "}, position, invalid value of the field's kind) with valid fillers "
                + ("for every rotation of the valid list" if thorough else "(rotation of the valid filler list chosen by VERIF_SEED)")
                + "; document-level and cross-field rules enumerated over list position x section x bad name / list lengths 1.."
                + ("4" if thorough else "3") + ", each crossed with the other optional fields of the same constructor set/unset (new_page without "
                "page_by x all 2^9 combinations of 9 other RTFBody fields; df+figure and neither x all combinations of 7-8 other document "
                "components; missing grouping column x the other grouping options; missing figure file x the other figure fields). one evaluation = the invalid constructor call + its twin valid call. "
                "non-trivial = an invalid case whose twin control (valid value in the same position) constructs, or a control that "
                "constructs; distinct = distinct case")
    run.assumptions = [
        "demanded fields are exactly those the property names: border styles, colours, font numbers, format letters, text/cell "
        "justification, vertical alignment, orientation, placement keywords (page_title/page_footnote/page_source, pageby_row, "
        "fig_pos, fig_align), width, height, nrow, col_width, col_rel_width, border_width, cell_height, font size, margin length; "
        "cell_nrow, fig_width/fig_height, as_table and text_indent_reference are not named and are not demanded",
        "a single RTFBody given with a list of DataFrames, or a list of bodies with a single DataFrame, is not a 'mismatched list "
        "length' in the sense of the property (an implementation may broadcast) and is not demanded",
        "for a missing figure file both FileNotFoundError and ValueError are accepted",
        "the interpreter's optimisation level is part of the environment: a slice of the invalid cases (every listed invalid value of "
        "every validated field in scalar form, one inner list/matrix position per field, the document-level rules in their plain "
        "context) is re-evaluated in a child interpreter started with `python -O` and must get the same verdict",
        "legal sets restated in this module: text_justification l c r j d (and ''), cell_justification l c r (and '') - 'j' and 'd' are "
        "text-only; vertical alignment top center bottom merge_first merge_rest; the 15 border style names; format = any string over "
        "b i u s ^ _; colours = the frozen table data/colors.json. rtflite documents no normalisation (case folding, stripping) of these "
        "keywords, so near-miss spellings (trailing newline, padding, NUL, repetition, other case, Unicode look-alikes) must be rejected "
        "by the constructor - 'accepted and later refused by rtf_encode()' counts as accepted",
        "matrix shapes for the text components (title, subline, page header/footer) and for col_rel_width are explored only where "
        "the valid twin constructs (they are admitted by the declared type but not documented)",
    ]
    ctl_all, bad_all = [], []
    groups = [("RTFPage", PAGE_FIELDS)]
    groups += [(c, TEXT_FIELDS) for c in TEXT_COMPONENTS]
    for c in TABLE_COMPONENTS:
        f = dict(TABLE_FIELDS)
        if c == "RTFBody":
            f["pageby_row"] = "pageby_row"
        groups.append((c, f))
    groups.append(("RTFFigure", {"fig_align": "fig_align", "fig_pos": "fig_pos"}))
    for comp, fields in groups:
        c, b = field_cases(comp, fields, all_shapes, rots, extra=thorough, seed=run.seed)
        ctl_all += c
        bad_all += b
    dctl, dbad = doc_cases(thorough)
    try:
        run.layer("positive-controls", "mc.props.c19:eval_case", ctl_all + dctl, chunk=150, total=len(ctl_all) + len(dctl), max_samples=0)
        run.layer("invalid-field-values", "mc.props.c19:eval_case", bad_all, chunk=150, total=len(bad_all), max_samples=3)
        run.layer("document-rules", "mc.props.c19:eval_case", dbad, chunk=40, total=len(dbad), max_samples=3)
        ocases = optimised_slice(groups, dbad)
        run.layer("under-python-O", "mc.props.c19:eval_case", ocases, chunk=1, total=len(ocases), max_samples=0)
    finally:
        from ..core import repo
        for d in glob.glob(os.path.join(repo.VERIF, ".work", f"c19-{os.getpid()}-*")):
            shutil.rmtree(d, ignore_errors=True)
    # vacuity guards
    need = ["control-constructed", "rejected-ValueError", "rejected-FileNotFoundError", "invalid-inner-matrix-position",
            "invalid-scalar", "invalid-list3", "invalid-m2x2", "invalid-m1x3"]
    need += ["invalid-kind-" + k for k in KINDS] + ["invalid-with-" + x for x in SCHEMES]
    need += ["O-cases", "O-same-verdict", "O-rejected", "invalid-doc-with-other-fields-set", "invalid-sibling-value", "invalid-near-miss-value"]
    need += ["invalid-doc-" + r for r in ("figure-missing", "group-missing", "new-page", "df-and-figure", "neither", "section-length")]
    for n in need:
        if not run.cnt.get(n):
            run.harness_errors.append({"layer": "vacuity", "case": None, "error": f"counter {n} is zero"})
    nbad = len(bad_all) + len(dbad)
    vac = run.cnt.get("vacuous-twin-control-not-constructed", 0)
    if vac * 4 > nbad:
        run.harness_errors.append({"layer": "vacuity", "case": None,
                                   "error": f"{vac} of {nbad} invalid cases are vacuous (twin control did not construct)"})
    run.extra["constructor_calls"] = 2 * nbad - vac + len(ctl_all) + len(dctl)
    run.extra["invalid_cases"] = nbad
    run.extra["positive_controls"] = len(ctl_all) + len(dctl)

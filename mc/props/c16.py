"""C16 - figures are embedded byte-exactly, one per page, at the configured size.

Space (exhaustive, DESIGN 5 C16): synthetic image files (PNG with any IHDR size incl. > 65535, JPEG with
SOF0/SOF2 behind 0..2 APPn segments / DQT+DHT / decoy SOF inside an APPn / fill bytes, EMF of exact byte
lengths) whose total length sits around the 80-hex-digit line length (len % 40 in {39, 0, 1}) and which
contain every byte value; suffixes .png .jpg .jpeg .emf .PNG; 1..3 (quick) / 1..6 (thorough) figures;
fig_width / fig_height scalar or list of length 1..n+1; three alignments; placement^3; caption presence.
Core products + radius-2 ball around anchors.

Oracle (from the property text): page k carries exactly one picture; its hex payload decodes to the bytes of
file k; its blip keyword is the one of the file's format; \\picw/\\pich equal the size in the image header
(PNG IHDR / JPEG SOFn, read by a boring reference reader in mc/spec/figures.py); |\\picwgoal - inches*1440| < 1
with the positional / last-value-reused rule; title, footnote, source on exactly the pages their option selects.
Not demanded here: subline placement, component order, page-break geometry (C06), alignment keyword.
"""
from __future__ import annotations

import atexit
import glob
import hashlib
import itertools
import os
import shutil
from fractions import Fraction

from ..core import repo
from ..rtfreader.reader import parse
from ..spec import docspec
from ..spec.figures import jpeg_size, make_emf, make_jpeg, make_png, pattern, png_size

PID = "C16"
LEVEL = "exploration"
TECHNIQUE = ("bounded exhaustive enumeration of synthetic image files x figure-document configurations on the real "
             "encoder; payload / header-size / display-size / caption-placement oracle on the re-parsed RTF")
LEVEL_TEXT = ("exploration, exhaustive inside the stated bound: the encoder is a pure function of (file bytes, suffix, "
              "sizes, options), every defect mechanism named by the property (hex line wrapping, header parsing, "
              "positional size lookup, placement predicates) has a small finite alphabet that is enumerated completely")
LEVEL_NOTE = ("trusted base: the RTF reader's \\pict decoding (self-tested) and the 30-line PNG/JPEG header readers in "
              "mc/spec/figures.py (cross-checked against Pillow in plan()); files are synthetic, not real photographs")

PLACE = ("first", "last", "all")
BLIP = {"png": "pngblip", "jpeg": "jpegblip", "emf": "emfblip"}
VALS = [0.5, 3, 5.1, 7.25]


def selected(option: str, i: int, n: int) -> bool:
    return option == "all" or (option == "first" and i == 0) or (option == "last" and i == n - 1)


# --------------------------------------------------------------------------- synthetic files


def synth(fig: dict) -> bytes:
    """Deterministic file content for a figure descriptor."""
    fmt, salt = fig["fmt"], fig.get("salt", 0)
    if fmt == "emf" and "tot" in fig:  # exact total length; a real header needs 88 bytes, shorter ones are truncated
        tot = fig["tot"]
        return make_emf(pattern(max(0, tot - 88), salt))[:tot]
    base, res = fig.get("len", [0, None])

    def mk(n):
        pl = pattern(n, salt)
        if fmt == "png":
            return make_png(fig["w"], fig["h"], pl)
        if fmt == "jpeg":
            return make_jpeg(fig["w"], fig["h"], pl, tuple(fig.get("app", ())), fig.get("sof", 0xC0),
                             fake_sof=bool(fig.get("fake")), tables=bool(fig.get("tables")), fill=fig.get("fill", 0))
        return make_emf(pl)

    n = base
    data = mk(n)
    while res is not None and len(data) % 40 != res:
        n += 1
        data = mk(n)
    return data


_DIR = None
_FILES: dict = {}


def workdir() -> str:
    global _DIR
    if _DIR is None:
        _DIR = os.path.join(repo.VERIF, ".work", f"c16-p{os.getppid()}-{os.getpid()}")
        os.makedirs(_DIR, exist_ok=True)
        atexit.register(shutil.rmtree, _DIR, True)
    return _DIR


def file_for(data: bytes, suffix: str) -> str:
    key = hashlib.sha1(data).hexdigest()[:20] + suffix
    p = _FILES.get(key)
    if p is None:
        p = os.path.join(workdir(), key)
        with open(p, "wb") as f:
            f.write(data)
        _FILES[key] = p
    return p


def ref_size(fmt: str, data: bytes):
    if fmt == "png":
        return png_size(data)
    if fmt == "jpeg":
        return jpeg_size(data)
    return None  # EMF: no pixel size in the header


def dim_at(v, i):
    """The property's rule: positional, last value reused when the list is shorter."""
    if isinstance(v, list):
        return v[i] if i < len(v) else v[-1]
    return v


# --------------------------------------------------------------------------- one case


def build(case: dict, paths: list):
    import pathlib

    import rtflite as rtf

    pk = case.get("paths", "list")
    if pk == "str":
        figures = paths[0]
    elif pk == "Path":
        figures = [pathlib.Path(p) for p in paths]
    else:
        figures = list(paths)
    fkw = {}
    for k, name in (("fw", "fig_width"), ("fh", "fig_height"), ("align", "fig_align")):
        if k in case:
            fkw[name] = case[k]
    kw = {"rtf_figure": rtf.RTFFigure(figures=figures, **fkw)}
    if case.get("title"):
        kw["rtf_title"] = rtf.RTFTitle(text="T0")
    if case.get("subline"):
        kw["rtf_subline"] = rtf.RTFSubline(text="S0")
    if case.get("footnote"):
        kw["rtf_footnote"] = rtf.RTFFootnote(text="F0", as_table=False)
    if case.get("source"):
        kw["rtf_source"] = rtf.RTFSource(text="Z0", as_table=False)
    kw["rtf_page"] = rtf.RTFPage(page_title=case.get("pt", "all"), page_footnote=case.get("pf", "last"),
                                 page_source=case.get("ps", "last"))
    return rtf.RTFDocument(**kw)


def eval_case(case: dict) -> dict:
    figs = case["figs"]
    n = len(figs)
    datas = [synth(f) for f in figs]
    paths = [file_for(d, f["sfx"]) for d, f in zip(datas, figs)]
    viol = []
    cnt = {}

    def bump(k):
        cnt[k] = cnt.get(k, 0) + 1

    try:
        out = build(case, paths).rtf_encode()
    except Exception as e:
        return {"viol": [{"klass": None, "sig": f"encode-raised-{type(e).__name__}", "detail": f"{type(e).__name__}: {e}"[:300]}],
                "nt": False}
    doc = parse(out)
    if doc.errors:
        viol.append({"klass": None, "sig": "unparseable-" + doc.errors[0][0], "detail": str(doc.errors[:3])})
    npages = len(doc.pages)
    if npages != n:
        viol.append({"klass": None, "sig": "figure-page-count", "detail": f"{n} figures on {npages} pages"})
    fw, fh = case.get("fw", 5.0), case.get("fh", 5.0)
    pt, pf, ps = case.get("pt", "all"), case.get("pf", "last"), case.get("ps", "last")
    summary = []
    for k, pg in enumerate(doc.pages):
        roles = [docspec.block_role(b) for b in pg.blocks]
        names = [r for r, _ in roles if r != "blank"]
        summary.append(names)
        where = f"page {k + 1}/{npages}"
        picts = [b for b in pg.blocks if b.kind == "pict"]
        if len(picts) != 1:
            viol.append({"klass": None, "sig": "pictures-per-page", "detail": f"{where}: {len(picts)} pictures, expected exactly one"})
        other = [info for r, info in roles if r in ("other", "row_other")]
        if other:
            viol.append({"klass": None, "sig": "unidentified-block", "detail": f"{where}: {str(other[:2])[:200]}"})

        # captions on exactly the selected pages
        def expect(present, what, *rs):
            c = sum(1 for r in names if r in rs)
            if present and c != 1:
                viol.append({"klass": None, "sig": f"{what}-{'missing' if c == 0 else 'repeated'}",
                             "detail": f"{where}: {what} selected for this page but found {c}x; page has {names}"})
            if not present and c:
                viol.append({"klass": None, "sig": f"{what}-unexpected",
                             "detail": f"{where}: {what} found {c}x on a page its option does not select; page has {names}"})

        expect(bool(case.get("title")) and selected(pt, k, npages), "title", "title")
        expect(bool(case.get("footnote")) and selected(pf, k, npages), "footnote", "footnote_para", "footnote_table")
        expect(bool(case.get("source")) and selected(ps, k, npages), "source", "source_para", "source_table")
        if k >= n or not picts:
            continue
        pic, fig, data = picts[0], figs[k], datas[k]
        tag = f"{where} ({fig['fmt']}{fig['sfx']}, {len(data)} bytes)"
        # payload
        if not pic.hex_ok or pic.data != data:
            if pic.hex_ok and pic.data in datas:
                viol.append({"klass": None, "sig": "figure-order", "detail": f"{tag}: carries the bytes of figure {datas.index(pic.data) + 1}"})
            else:
                first = next((i for i, (a, b) in enumerate(zip(pic.data, data)) if a != b), min(len(pic.data), len(data)))
                viol.append({"klass": None, "sig": "payload-mismatch",
                             "detail": f"{tag}: payload decodes to {len(pic.data)} bytes (hex_ok={pic.hex_ok}), file has {len(data)}; first difference at byte {first}"})
        # picture type
        if pic.blip != BLIP[fig["fmt"]]:
            viol.append({"klass": None, "sig": "blip-keyword", "detail": f"{tag}: \\{pic.blip}, expected \\{BLIP[fig['fmt']]}"})
        # pixel size from the image header
        ref = ref_size(fig["fmt"], data)
        got = (pic.props.get("picw"), pic.props.get("pich"))
        w_in, h_in = dim_at(fw, k), dim_at(fh, k)
        if ref is not None and got != tuple(ref):
            klass = None
            if fig["fmt"] == "jpeg" and fig.get("fill") and got == (int(w_in * 96), int(h_in * 96)):
                # completely explained: the header walker gives up on 0xFF fill bytes and the 96-dpi fallback is emitted
                klass = "jpeg-fill-bytes-before-frame-header"
            sig = klass or ("pixel-size-swapped" if got == (ref[1], ref[0]) else "pixel-size")
            viol.append({"klass": klass, "sig": sig,
                         "detail": f"{tag}: \\picw{got[0]}\\pich{got[1]} but the image header says {ref[0]}x{ref[1]}"
                                   + (f" ({fig.get('fill')} fill byte(s) 0xFF before the SOF marker)" if fig.get("fill") else "")})
        # display size
        for word, inches, axis in (("picwgoal", w_in, "width"), ("pichgoal", h_in, "height")):
            g = pic.props.get(word)
            want = Fraction(inches) * 1440
            if g is None or not abs(Fraction(g) - want) < 1:
                vals = fw if axis == "width" else fh
                how = "scalar" if not isinstance(vals, list) else ("positional" if k < len(vals) else "last-value-reused")
                viol.append({"klass": None, "sig": f"display-{axis}-{how}",
                             "detail": f"{tag}: \\{word}{g} but fig_{axis}={vals!r} gives {inches} in = {float(want):.1f} twips for figure {k + 1}"})
        # counters
        bump(f"len%40={len(data) % 40}" if len(data) % 40 in (39, 0, 1) else "len%40=other")
        if len(set(data)) == 256:
            bump("all-byte-values")
        bump("fmt=" + fig["fmt"])
        if fig["sfx"] != fig["sfx"].lower():
            bump("suffix-uppercase")
        if ref is not None and max(ref) > 65535:
            bump("png-dim>65535")
        if fig["fmt"] == "jpeg" and fig.get("app"):
            bump("jpeg-app-segments")
        if ref is not None and ref[0] != ref[1]:
            bump("non-square")
    for v in (fw, fh):
        if isinstance(v, list):
            bump("size-list-shorter" if len(v) < n else "size-list-longer" if len(v) > n else "size-list-exact")
    if n > 1:
        bump("multi-figure")
    nt = n >= 2 or isinstance(fw, list) or isinstance(fh, list) or any(len(d) % 40 in (39, 0, 1) for d in datas) \
        or any(f.get("app") or f.get("tables") or f.get("fake") for f in figs)
    sample = None
    if n == 3 and isinstance(fw, list) and case.get("footnote") and not viol:
        sample = {"pages": summary, "picw_pich": [[b.props.get("picw"), b.props.get("pich"), b.props.get("picwgoal"), b.props.get("pichgoal")]
                                                   for pg in doc.pages for b in pg.blocks if b.kind == "pict"],
                  "file_bytes": [len(d) for d in datas]}
    res = {"viol": viol, "nt": nt, "cnt": cnt}
    if sample is not None:
        res["sample"] = sample
    return res


# --------------------------------------------------------------------------- enumeration

LENS = [[0, None], [0, 39], [0, 0], [0, 1], [256, 39], [256, 0], [256, 1], [4096, None]]
PNG_DIMS = [1, 255, 256, 65535, 70000]
JPG_DIMS = [1, 255, 256, 65535]
APP_LENS = [2, 16, 300]
APP_SEQS = [[]] + [[a] for a in APP_LENS] + [[a, b] for a in APP_LENS for b in APP_LENS]
ALL_SOFS = [m for m in range(0xC0, 0xD0) if m not in (0xC4, 0xC8, 0xCC)]
EMF_TOTALS = [25, 39, 40, 41, 80, 81, 88, 119, 120, 121, 4096]


def single(fig, **kw):
    return {"figs": [fig], "fw": 3, "fh": 5.1, "title": 1, **kw}


def file_variant_cases(quick: bool):
    png_sfx = [".png", ".PNG"] if quick else [".png", ".PNG", ".Png"]
    jpg_sfx = [".jpg", ".jpeg"] if quick else [".jpg", ".jpeg", ".JPG", ".JPEG"]
    emf_sfx = [".emf"] if quick else [".emf", ".EMF"]
    for sfx, w, h, ln in itertools.product(png_sfx, PNG_DIMS, PNG_DIMS, LENS):
        yield single({"fmt": "png", "sfx": sfx, "w": w, "h": h, "len": ln})
    for sfx, w, h, app, sof, ln in itertools.product(jpg_sfx, JPG_DIMS, JPG_DIMS, APP_SEQS, (0xC0, 0xC2), LENS):
        yield single({"fmt": "jpeg", "sfx": sfx, "w": w, "h": h, "app": app, "sof": sof, "len": ln})
    # every frame-header marker of T.81 table B.1 (SOF0..SOF15 without DHT C4, JPG C8, DAC CC)
    for sof, (w, h), app in itertools.product(ALL_SOFS, ((255, 256), (65535, 1), (405, 183)), ([], [16], [300, 2])):
        if sof in (0xC0, 0xC2) and (w, h) != (405, 183):
            continue  # covered above
        yield single({"fmt": "jpeg", "sfx": ".jpg", "w": w, "h": h, "app": app, "sof": sof, "len": [0, 39]})
    for sfx, tot in itertools.product(emf_sfx, EMF_TOTALS):
        yield single({"fmt": "emf", "sfx": sfx, "tot": tot})


def jpeg_structure_cases(quick: bool):
    """Segments in front of the frame header other than plain APPn: DQT/DHT, a decoy SOF inside an APPn, fill bytes."""
    sofs = (0xC0, 0xC2) if quick else tuple(ALL_SOFS)
    lens = [[0, None]] if quick else [[0, None], [0, 0], [256, 39]]
    for w, h, app, sof, fake, tables, fill, ln in itertools.product(JPG_DIMS, JPG_DIMS, APP_SEQS, sofs, (0, 1), (0, 1), (0, 1, 2), lens):
        if not (fake or tables or fill):
            continue  # covered by file_variant_cases
        if fake and not any(a >= 16 for a in app):
            continue  # no segment can hold the decoy
        yield single({"fmt": "jpeg", "sfx": ".jpg", "w": w, "h": h, "app": app, "sof": sof, "fake": fake, "tables": tables,
                      "fill": fill, "len": ln})


def cycle_figs(n: int, rot: int = 0):
    protos = [
        {"fmt": "png", "sfx": ".png", "w": 300, "h": 200, "len": [256, 0]},
        {"fmt": "jpeg", "sfx": ".jpg", "w": 640, "h": 480, "app": [16], "len": [0, 39]},
        {"fmt": "emf", "sfx": ".emf", "tot": 121},
    ]
    return [{**protos[(i + rot) % 3], "salt": i + 1} for i in range(n)]


def size_shapes(n: int):
    out = list(VALS)
    for ln in range(1, n + 2):
        for rot in range(4):
            out.append([VALS[(rot + j) % 4] for j in range(ln)])
    return out


def size_list_cases(nmax: int):
    for n in range(1, nmax + 1):
        shapes = size_shapes(n)
        for fw, fh, align in itertools.product(shapes, shapes, ("left", "center", "right")):
            yield {"figs": cycle_figs(n), "fw": fw, "fh": fh, "align": align, "title": 1, "footnote": 1, "source": 1}


def placement_cases(nmax: int):
    for n in range(1, nmax + 1):
        for (pt, pf, ps), (t, s, f, z) in itertools.product(itertools.product(PLACE, repeat=3), itertools.product((0, 1), repeat=4)):
            yield {"figs": cycle_figs(n, n), "fw": [3, 5.1], "fh": 3, "title": t, "subline": s, "footnote": f, "source": z,
                   "pt": pt, "pf": pf, "ps": ps}


def ball_cases(anchor_ids, quick: bool):
    placements = [("all", "last", "last"), ("first", "all", "first"), ("last", "first", "all")]
    alt_fig = [
        {"fmt": "png", "sfx": ".PNG", "w": 70000, "h": 1, "len": [0, 39]},
        {"fmt": "jpeg", "sfx": ".jpeg", "w": 1, "h": 65535, "app": [2, 300], "sof": 0xC2, "len": [256, 1]},
        {"fmt": "emf", "sfx": ".emf", "tot": 41},
    ]
    for a in anchor_ids:
        pt, pf, ps = placements[a]
        anchor = {"figs": cycle_figs(3, a), "fw": [3, 5.1], "fh": 7.25, "align": "center", "title": 1, "subline": 0,
                  "footnote": 1, "source": 1, "pt": pt, "pf": pf, "ps": ps, "paths": "list"}
        dims = {}
        for i in range(3):
            dims[f"fig{i}"] = [("fig", i, {**v, "salt": 10 + i}) for v in alt_fig]
        dims["n"] = [("n", m) for m in ((1, 2) if quick else (1, 2, 4, 5, 6))]
        dims["fw"] = [("set", "fw", v) for v in (0.5, [7.25], [3, 0.5, 5.1], [3, 0.5, 5.1, 7.25])]
        dims["fh"] = [("set", "fh", v) for v in (0.5, [5.1], [7.25, 3, 0.5], [3, 0.5, 5.1, 7.25])]
        dims["align"] = [("set", "align", v) for v in ("left", "right")]
        for k, cur in (("pt", pt), ("pf", pf), ("ps", ps)):
            dims[k] = [("set", k, v) for v in PLACE if v != cur]
        dims["title"] = [("set", "title", 0)]
        dims["subline"] = [("set", "subline", 1)]
        dims["footnote"] = [("set", "footnote", 0)]
        dims["source"] = [("set", "source", 0)]
        dims["paths"] = [("set", "paths", "Path")]
        names = list(dims)
        for r in (1, 2):
            for combo in itertools.combinations(names, r):
                for edits in itertools.product(*[dims[d] for d in combo]):
                    c = {**anchor, "figs": [dict(f) for f in anchor["figs"]]}
                    for e in edits:
                        if e[0] == "set":
                            c[e[1]] = e[2]
                    for e in edits:
                        if e[0] == "n":
                            c["figs"] = cycle_figs(e[1], a)
                    for e in edits:
                        if e[0] == "fig" and e[1] < len(c["figs"]):
                            c["figs"][e[1]] = dict(e[2])
                    yield c
        # single-path forms (a plain str / a Path instead of a list) only make sense for one figure
        for form in ("str",):
            yield {**anchor, "figs": cycle_figs(1, a), "paths": form}


def _selfcheck_reference_readers():
    """The oracle's header readers must agree with Pillow wherever Pillow is willing to open the file."""
    import io

    from PIL import Image

    bad = []
    for fig in ({"fmt": "png", "w": 255, "h": 3}, {"fmt": "png", "w": 1, "h": 65535},
                {"fmt": "jpeg", "w": 300, "h": 200}, {"fmt": "jpeg", "w": 300, "h": 200, "app": [16, 300], "fake": 1},
                {"fmt": "jpeg", "w": 65535, "h": 2, "app": [2], "tables": 1, "sof": 0xC2},
                {"fmt": "jpeg", "w": 300, "h": 200, "fill": 2, "app": [300]}):
        data = synth({**fig, "len": [256, 0]})
        ref = ref_size(fig["fmt"], data)
        try:
            pil = Image.open(io.BytesIO(data)).size
        except Exception as e:  # pragma: no cover
            bad.append(f"Pillow cannot open {fig}: {e}")
            continue
        if tuple(ref or ()) != tuple(pil) or tuple(pil) != (fig["w"], fig["h"]):
            bad.append(f"{fig}: reference reader {ref}, Pillow {pil}")
    return bad


def plan(run):
    quick = run.tier == "quick"
    nmax = 3 if quick else 6
    run.rule = ("(A) one-figure documents: full product suffix x header size (PNG {1,255,256,65535,70000}^2, JPEG {1,255,256,65535}^2) "
                "x 0..2 APPn of {2,16,300} bytes x SOF0/SOF2 x 8 length classes (total length % 40 in {39,0,1}, with/without all 256 "
                "byte values, 4 KiB), EMF of exact lengths 25..4096; (B) JPEG structure: DQT/DHT, decoy SOF inside APPn, 0..2 fill bytes; "
                f"(C) 1..{nmax} figures x every fig_width shape x every fig_height shape (scalar, lists of length 1..n+1, 4 rotations) x 3 alignments; "
                f"(D) 1..{nmax} figures x placement^3 x title/subline/footnote/source presence; (E) radius-2 ball over 15 dimensions around "
                f"{'the seed-selected anchor' if quick else 'all 3 anchors'}. non-trivial = >= 2 figures, or a list-valued size, or a file whose "
                "length is 39/0/1 mod 40, or a JPEG with segments in front of the frame header; distinct = distinct case")
    run.assumptions = [
        "the RTF reader's \\pict decoding and the PNG/JPEG header readers in mc/spec/figures.py are correct (cross-checked against Pillow at start)",
        "image files are synthetic: valid headers, arbitrary body bytes; EMF carries no pixel size, so \\picw/\\pich are not checked for EMF",
        "display size tolerance |goal - inches*1440| < 1 twip (truncation and rounding both accepted)",
        "subline placement, component order within a page and page-break geometry are C06's business and not demanded here",
    ]
    for msg in _selfcheck_reference_readers():
        run.harness_errors.append({"layer": "reference-readers", "case": None, "error": msg})
    try:
        cases = list(file_variant_cases(quick))
        run.layer("file-variants", "mc.props.c16:eval_case", cases, chunk=100, total=len(cases))
        cases = list(jpeg_structure_cases(quick))
        run.layer("jpeg-structure", "mc.props.c16:eval_case", cases, chunk=100, total=len(cases))
        cases = list(size_list_cases(nmax))
        run.layer("size-lists", "mc.props.c16:eval_case", cases, chunk=60, total=len(cases))
        cases = list(placement_cases(nmax))
        run.layer("placement-product", "mc.props.c16:eval_case", cases, chunk=60, total=len(cases))
        anchors = [run.seed % 3] if quick else [0, 1, 2]
        cases = list(ball_cases(anchors, quick))
        run.layer("ball-r2", "mc.props.c16:eval_case", cases, chunk=40, total=len(cases))
    finally:
        for d in glob.glob(os.path.join(repo.VERIF, ".work", f"c16-p{os.getpid()}-*")):
            shutil.rmtree(d, ignore_errors=True)
    for need in ("len%40=39", "len%40=0", "len%40=1", "all-byte-values", "png-dim>65535", "jpeg-app-segments", "non-square",
                 "fmt=png", "fmt=jpeg", "fmt=emf", "suffix-uppercase", "size-list-shorter", "size-list-longer", "size-list-exact",
                 "multi-figure"):
        if not run.cnt.get(need):
            run.harness_errors.append({"layer": "vacuity", "case": None, "error": f"counter {need} is zero"})

"""C16 - figures are embedded byte-exactly, one per page, at the configured size.

Space (exhaustive, DESIGN 5 C16): synthetic image files (PNG with any IHDR size incl. > 65535, JPEG with
SOF0/SOF2 behind 0..2 APPn segments / DQT+DHT / decoy SOF inside an APPn / fill bytes, EMF of exact byte
lengths) whose total length sits around the 80-hex-digit line length (len % 40 in {39, 0, 1}) and which
contain every byte value; suffixes .png .jpg .jpeg .emf .PNG; 1..3 (quick) / 1..6 (thorough) figures;
fig_width / fig_height scalar or list of length 1..n+1; three alignments; placement^3; caption presence;
multi-line title / subline / footnote / source (1..4 lines) x 1..4 figures x placement^3; overwrite histories over
one path inside one process (write v1, build+encode, rewrite the same path with v2, build+encode, re-encode the
first document). Core products + radius-2 ball around anchors.

Oracle (from the property text): page k carries exactly one picture; its hex payload decodes to the bytes of
file k; its blip keyword is the one of the file's format; \\picw/\\pich equal the size in the image header
(PNG IHDR / JPEG SOFn, read by a boring reference reader in mc/spec/figures.py); |\\picwgoal - inches*1440| < 1
with the positional / last-value-reused rule; title, footnote, source on exactly the pages their option selects.
Not demanded here: subline placement, component order, page-break geometry (C06), alignment keyword.
"""
from __future__ import annotations

import atexit
import glob
import hashlib
import itertools
import json
import os
import shutil
import subprocess
import sys
from fractions import Fraction

from ..core import repo
from ..rtfreader.reader import parse
from ..spec import docspec
from ..spec.figures import jpeg_size, make_emf, make_jpeg, make_png, pattern, png_size

PID = "C16"
LEVEL = "exploration"
TECHNIQUE = ("bounded exhaustive enumeration of synthetic image files x figure-document configurations on the real "
             "encoder; payload / header-size / display-size / caption-placement oracle on the re-parsed RTF")
LEVEL_TEXT = ("exploration, exhaustive inside the stated bound: the encoder is a pure function of (file bytes, suffix, "
              "sizes, options), every defect mechanism named by the property (hex line wrapping, header parsing, "
              "positional size lookup, placement predicates) has a small finite alphabet that is enumerated completely")
LEVEL_NOTE = ("trusted base: the RTF reader's \\pict decoding (self-tested) and the 30-line PNG/JPEG header readers in "
              "mc/spec/figures.py (cross-checked against Pillow in plan()); files are synthetic, not real photographs")

PLACE = ("first", "last", "all")
BLIP = {"png": "pngblip", "jpeg": "jpegblip", "emf": "emfblip"}
VALS = [0.5, 3, 5.1, 7.25]


def selected(option: str, i: int, n: int) -> bool:
    return option == "all" or (option == "first" and i == 0) or (option == "last" and i == n - 1)


# --------------------------------------------------------------------------- synthetic files


def synth(fig: dict) -> bytes:
    """Deterministic file content for a figure descriptor."""
    fmt, salt = fig["fmt"], fig.get("salt", 0)
    if fmt == "emf" and "tot" in fig:  # exact total length; a real header needs 88 bytes, shorter ones are truncated
        tot = fig["tot"]
        return make_emf(pattern(max(0, tot - 88), salt))[:tot]
    base, res = fig.get("len", [0, None])

    def mk(n):
        pl = pattern(n, salt)
        if fmt == "png":
            return make_png(fig["w"], fig["h"], pl)
        if fmt == "jpeg":
            return make_jpeg(fig["w"], fig["h"], pl, tuple(fig.get("app", ())), fig.get("sof", 0xC0),
                             fake_sof=bool(fig.get("fake")), tables=bool(fig.get("tables")), fill=fig.get("fill", 0))
        return make_emf(pl)

    n = base
    data = mk(n)
    while res is not None and len(data) % 40 != res:
        n += 1
        data = mk(n)
    return data


_DIR = None
_FILES: dict = {}


def workdir() -> str:
    global _DIR
    if _DIR is None:
        _DIR = os.path.join(repo.VERIF, ".work", f"c16-p{os.getppid()}-{os.getpid()}")
        os.makedirs(_DIR, exist_ok=True)
        atexit.register(shutil.rmtree, _DIR, True)
    return _DIR


def file_for(data: bytes, suffix: str) -> str:
    key = hashlib.sha1(data).hexdigest()[:20] + suffix
    p = _FILES.get(key)
    if p is None:
        p = os.path.join(workdir(), key)
        with open(p, "wb") as f:
            f.write(data)
        _FILES[key] = p
    return p


def ref_size(fmt: str, data: bytes):
    if fmt == "png":
        return png_size(data)
    if fmt == "jpeg":
        return jpeg_size(data)
    return None  # EMF: no pixel size in the header


def dim_at(v, i):
    """The property's rule: positional, last value reused when the list is shorter."""
    if isinstance(v, list):
        return v[i] if i < len(v) else v[-1]
    return v


# --------------------------------------------------------------------------- one case


def lines_of(tag: str, m, as_arg: bool = False):
    """The m lines of a caption component: T0..T{m-1} (a one-line component is given as a plain string)."""
    m = int(m)
    lines = [f"{tag}{i}" for i in range(m)]
    return lines[0] if as_arg and m == 1 else lines


def build(case: dict, paths: list):
    import pathlib

    import rtflite as rtf

    pk = case.get("paths", "list")
    if pk == "str":
        figures = paths[0]
    elif pk == "Path":
        figures = [pathlib.Path(p) for p in paths]
    else:
        figures = list(paths)
    fkw = {}
    for k, name in (("fw", "fig_width"), ("fh", "fig_height"), ("align", "fig_align")):
        if k in case:
            fkw[name] = case[k]
    kw = {"rtf_figure": rtf.RTFFigure(figures=figures, **fkw)}
    if case.get("title"):
        kw["rtf_title"] = rtf.RTFTitle(text=lines_of("T", case["title"], True))
    if case.get("subline"):
        kw["rtf_subline"] = rtf.RTFSubline(text=lines_of("S", case["subline"], True))
    if case.get("footnote"):
        kw["rtf_footnote"] = rtf.RTFFootnote(text=lines_of("F", case["footnote"], True), as_table=False)
    if case.get("source"):
        kw["rtf_source"] = rtf.RTFSource(text=lines_of("Z", case["source"], True), as_table=False)
    kw["rtf_page"] = rtf.RTFPage(page_title=case.get("pt", "all"), page_footnote=case.get("pf", "last"),
                                 page_source=case.get("ps", "last"))
    return rtf.RTFDocument(**kw)


# Child interpreter for the environment layer.  The host's MIME registry is changed BEFORE rtflite is imported; rtflite comes
# from ${VERIF_REPO:-/repo}/src exactly as in the workers (mc.core.repo.bind()).
_CHILD = r"""
import json, mimetypes, sys
job = json.load(sys.stdin)
env = job["env"]
mimetypes.knownfiles = []          # a host without /etc/mime.types & co (slim container, macOS, Windows without registry entries)
mimetypes.init()
if env == "png-remapped":          # a host whose registry says something unrelated about .png
    mimetypes.add_type("application/x-unrelated", ".png")
elif env == "blank":               # a host whose registry knows no type at all
    mimetypes.types_map.clear()
    mimetypes.common_types.clear()
probe = {e: mimetypes.guess_type("x" + e)[0] for e in (".png", ".jpg", ".jpeg", ".emf")}
sys.path.insert(0, job["verif"])
from mc.core import repo
repo.bind()
from mc.props import c16
out = []
for d in job["docs"]:
    try:
        out.append({"rtf": c16.build(d["case"], d["paths"]).rtf_encode()})
    except Exception as e:
        out.append({"error": f"{type(e).__name__}: {e}"})
real_stdout = sys.__stdout__
real_stdout.write(json.dumps({"probe": probe, "src": repo.SRC, "out": out}))
"""


def eval_environment(case: dict) -> dict:
    """Environment case: the same documents are encoded in this (normal) process and in a fresh interpreter whose MIME registry
    differs (case["env"]); the format of an image is a function of its file (suffix / content), not of the host's registry, so
    the child's output must be byte-identical."""
    docs = []
    viol, cnt = [], {}
    for c in case["docs"]:
        datas = [synth(f) for f in c["figs"]]
        paths = [file_for(d, f["sfx"]) for d, f in zip(datas, c["figs"])]
        try:
            normal = build(c, paths).rtf_encode()
        except Exception as e:
            viol.append({"klass": None, "sig": f"encode-raised-{type(e).__name__}", "detail": f"{type(e).__name__}: {e}"[:300]})
            normal = None
        docs.append({"case": c, "paths": paths, "normal": normal})
    job = {"env": case["env"], "verif": repo.VERIF, "docs": [{"case": d["case"], "paths": d["paths"]} for d in docs]}
    p = subprocess.run([sys.executable, "-c", _CHILD], input=json.dumps(job), capture_output=True, text=True, cwd=repo.VERIF,
                       env=dict(os.environ), timeout=900)
    try:
        res = json.loads(p.stdout[p.stdout.index('{"probe"'):])
    except ValueError:
        raise RuntimeError(f"environment child failed (rc={p.returncode}): {p.stderr[-800:]}")
    if os.path.realpath(res["src"]) != os.path.realpath(repo.SRC):
        raise RuntimeError(f"environment child imported rtflite from {res['src']}, expected {repo.SRC}")
    probe = res["probe"]
    if probe[".emf"] is None:
        cnt["env-emf-unknown-to-registry"] = 1
    if probe[".png"] not in (None, "image/png"):
        cnt["env-png-remapped"] = 1
    if all(v is None for v in probe.values()):
        cnt["env-registry-blank"] = 1
    for d, r in zip(docs, res["out"]):
        sfx = [f["sfx"] for f in d["case"]["figs"]]
        where = f"MIME registry '{case['env']}' (guess_type: {probe}): document with figures {sfx}"
        cnt["env-documents"] = cnt.get("env-documents", 0) + 1
        if d["normal"] is None:
            continue
        if "error" in r:
            viol.append({"klass": None, "sig": "environment-encode-raised", "detail": f"{where}: encodes in the normal process, but in the other "
                                                                                      f"environment raises {r['error'][:200]}"})
        elif r["rtf"] != d["normal"]:
            a, b = r["rtf"], d["normal"]
            fd = next((i for i, (x, y) in enumerate(zip(a, b)) if x != y), min(len(a), len(b)))
            viol.append({"klass": None, "sig": "environment-output-differs",
                         "detail": f"{where}: output differs from the normal process at character {fd}: {a[max(0, fd - 20):fd + 30]!r} vs {b[max(0, fd - 20):fd + 30]!r}"})
    return {"viol": viol, "nt": True, "cnt": cnt}


ENV_SUFFIXES = {"png": [".png", ".PNG"], "jpeg": [".jpg", ".jpeg", ".JPG", ".JPEG"], "emf": [".emf", ".EMF"]}


def environment_cases():
    protos = {"png": {"fmt": "png", "w": 300, "h": 200, "len": [256, 0]}, "jpeg": {"fmt": "jpeg", "w": 640, "h": 480, "app": [16], "len": [0, 39]},
              "emf": {"fmt": "emf", "tot": 121}}
    docs = []
    for fmt, sfxs in ENV_SUFFIXES.items():       # every suffix alone
        for sfx in sfxs:
            docs.append(single({**protos[fmt], "sfx": sfx, "salt": 3}))
    allsfx = [(fmt, sfx) for fmt, sfxs in ENV_SUFFIXES.items() for sfx in sfxs]
    for rot in range(len(allsfx)):               # mixed documents: every suffix next to every format, as first / middle / last figure
        figs = [{**protos[allsfx[(rot + 3 * j) % len(allsfx)][0]], "sfx": allsfx[(rot + 3 * j) % len(allsfx)][1], "salt": 20 + j} for j in range(3)]
        docs.append({"figs": figs, "fw": [3, 5.1], "fh": 2.5, "title": 1, "footnote": 1, "source": 1, "pt": "all", "pf": "last", "ps": "first",
                     "paths": "Path" if rot % 2 else "list"})
    return [{"env": env, "docs": docs} for env in ("no-system-files", "png-remapped", "blank")]


def eval_case(case: dict) -> dict:
    if "env" in case:
        return eval_environment(case)
    if "hist" in case:
        return eval_history(case)
    figs = case["figs"]
    datas = [synth(f) for f in figs]
    paths = [file_for(d, f["sfx"]) for d, f in zip(datas, figs)]
    try:
        out = build(case, paths).rtf_encode()
    except Exception as e:
        return {"viol": [{"klass": None, "sig": f"encode-raised-{type(e).__name__}", "detail": f"{type(e).__name__}: {e}"[:300]}],
                "nt": False}
    return oracle(case, figs, datas, out)


_HIST = [0]
QFIG = {"fmt": "png", "sfx": ".png", "w": 12, "h": 34, "len": [0, 1], "salt": 77}  # the file that is NOT rewritten


def eval_history(case: dict) -> dict:
    """Operation history over ONE path P inside one (long-lived) process: for each version v of case["hist"] in turn
    write v to P (in place, or via rename), build a NEW document naming P and encode it; after every rewrite also encode
    the document objects built earlier once more.

    What each output must show (decided from the property text, "each image file is embedded as a picture whose payload
    decodes to the file's exact bytes ... pixel dimensions read from the image"):
      * a document built AFTER a rewrite has never been able to see an older version: only the current file content is
        admissible (payload, blip keyword, \\picw/\\pich all of the current version);
      * a document built BEFORE the rewrite and encoded again afterwards names a *file*, not bytes; the text does not say
        whether construction or encoding is the moment of reading, so either the version current at its construction or
        the version current now is accepted - but coherently (payload and pixel size of one and the same version)."""
    wd = workdir()
    _HIST[0] += 1
    sfx = case["hist"][0]["sfx"]
    p_path = os.path.join(wd, f"hist_{_HIST[0]}{sfx}")
    shape = case["shape"]
    viol, cnt = [], {}

    def absorb(res):
        for k, v in (res.get("cnt") or {}).items():
            cnt[k] = cnt.get(k, 0) + v

    docs = []  # (document, index of the version current at construction)
    try:
        for step, fig in enumerate(case["hist"]):
            data = synth(fig)
            if case.get("how") == "replace" and step:
                tmp = p_path + ".new"
                with open(tmp, "wb") as f:
                    f.write(data)
                os.replace(tmp, p_path)
            else:
                with open(p_path, "wb") as f:
                    f.write(data)

            def version(i):
                figs = [case["hist"][i] if x == "P" else QFIG for x in shape]
                return figs, [synth(f) for f in figs]

            qpath = file_for(synth(QFIG), QFIG["sfx"])
            paths = [p_path if x == "P" else qpath for x in shape]
            what = f"history step {step + 1}/{len(case['hist'])} (path P " + ("written" if step == 0 else f"{'replaced' if case.get('how') == 'replace' else 'overwritten in place'}") \
                   + f" with version {step + 1}: {fig['fmt']} {len(data)} bytes)"
            try:
                doc = build(case, paths)
                out = doc.rtf_encode()
            except Exception as e:
                viol.append({"klass": None, "sig": f"encode-raised-{type(e).__name__}", "detail": f"{what}: {type(e).__name__}: {e}"[:300]})
                break
            figs, datas = version(step)
            res = oracle(case, figs, datas, out, label=f"{what}, document built after it: ")
            absorb(res)
            if res["viol"] and step:
                # diagnosis only: is the output exactly what an older version of the file would give?
                for old in range(step):
                    ofigs, odatas = version(old)
                    if not oracle(case, ofigs, odatas, out)["viol"]:
                        res["viol"] = [{"klass": None, "sig": "rewritten-file-embedded-stale",
                                        "detail": f"{what}: a document built and encoded AFTER the rewrite embeds version {old + 1} of the file "
                                                  f"(payload and pixel size of the old content). First oracle message: {res['viol'][0]['detail'][:200]}"}]
                        break
            viol.extend(res["viol"])
            # documents built before this rewrite, encoded again now
            for di, (odoc, born) in enumerate(docs):
                try:
                    out2 = odoc.rtf_encode()
                except Exception as e:
                    viol.append({"klass": None, "sig": f"re-encode-raised-{type(e).__name__}", "detail": f"{what}: {type(e).__name__}: {e}"[:300]})
                    continue
                now = oracle(case, figs, datas, out2, label=f"{what}, document built at step {born + 1} encoded again: ")
                if now["viol"]:
                    ofigs, odatas = version(born)
                    if oracle(case, ofigs, odatas, out2)["viol"]:
                        for v in now["viol"]:
                            v["sig"] = "re-encode-" + v["sig"]
                        viol.extend(now["viol"])
                    else:
                        cnt["re-encode-shows-construction-time-version"] = cnt.get("re-encode-shows-construction-time-version", 0) + 1
                else:
                    cnt["re-encode-shows-current-version"] = cnt.get("re-encode-shows-current-version", 0) + 1
            docs.append((doc, step))
        cnt["history"] = 1
        if len(case["hist"]) > 2:
            cnt["history-back-to-first-version"] = 1
        a, b = synth(case["hist"][0]), synth(case["hist"][1])
        if len(a) == len(b):
            cnt["history-same-length-other-bytes"] = 1
        if ref_size(case["hist"][0]["fmt"], a) != ref_size(case["hist"][1]["fmt"], b):
            cnt["history-other-pixel-size"] = 1
        return {"viol": viol, "nt": True, "cnt": cnt}
    finally:
        for q in (p_path, p_path + ".new"):
            if os.path.exists(q):
                os.remove(q)


def oracle(case: dict, figs: list, datas: list, out: str, label: str = "") -> dict:
    """The property on one encoded figure document: `figs`/`datas` are the descriptors and the bytes the files hold."""
    n = len(figs)
    viol = []
    cnt = {}

    def bump(k):
        cnt[k] = cnt.get(k, 0) + 1

    doc = parse(out)
    if doc.errors:
        viol.append({"klass": None, "sig": "unparseable-" + doc.errors[0][0], "detail": str(doc.errors[:3])})
    npages = len(doc.pages)
    if npages != n:
        viol.append({"klass": None, "sig": "figure-page-count", "detail": f"{n} figures on {npages} pages"})
    fw, fh = case.get("fw", 5.0), case.get("fh", 5.0)
    pt, pf, ps = case.get("pt", "all"), case.get("pf", "last"), case.get("ps", "last")
    summary = []
    for k, pg in enumerate(doc.pages):
        roles = [docspec.block_role(b) for b in pg.blocks]
        names = [r for r, _ in roles if r != "blank"]
        summary.append(names)
        where = f"{label}page {k + 1}/{npages}"
        picts = [b for b in pg.blocks if b.kind == "pict"]
        if len(picts) != 1:
            viol.append({"klass": None, "sig": "pictures-per-page", "detail": f"{where}: {len(picts)} pictures, expected exactly one"})
        other = [info for r, info in roles if r in ("other", "row_other")]
        if other:
            viol.append({"klass": None, "sig": "unidentified-block", "detail": f"{where}: {str(other[:2])[:200]}"})

        # captions on exactly the selected pages: a selected page carries ALL lines of the component, in order, once;
        # any other page carries none of them (lines may be rendered as \line inside one paragraph or as paragraphs / rows)
        def expect(m, option, what, tag, *rs):
            want = lines_of(tag, m) if m and selected(option, k, npages) else []
            have = []
            for b, (r, _) in zip(pg.blocks, roles):
                if r in rs:
                    texts = [b.text] if b.kind == "para" else [c.text for c in b.cells]
                    have += [ln.strip() for t in texts for ln in t.split("\n") if ln.strip()]
            if have == want:
                return
            if not want:
                sig, msg = f"{what}-unexpected", f"{what} line(s) {have} on a page its option ({option!r}) does not select"
            elif not have:
                sig, msg = f"{what}-missing", f"{what} selected for this page ({option!r}) but absent"
            elif have == want * (len(have) // len(want)) and len(have) > len(want):
                sig, msg = f"{what}-repeated", f"{what} found {len(have) // len(want)}x: {have}"
            else:
                sig, msg = f"{what}-lines", f"{what} selected for this page must show all its lines {want} in order, but the page shows {have}"
            viol.append({"klass": None, "sig": sig, "detail": f"{where}: {msg}; page has {names}"})

        expect(case.get("title"), pt, "title", "T", "title")
        expect(case.get("footnote"), pf, "footnote", "F", "footnote_para", "footnote_table")
        expect(case.get("source"), ps, "source", "Z", "source_para", "source_table")
        if k >= n or not picts:
            continue
        pic, fig, data = picts[0], figs[k], datas[k]
        tag = f"{where} ({fig['fmt']}{fig['sfx']}, {len(data)} bytes)"
        # payload
        if not pic.hex_ok or pic.data != data:
            if pic.hex_ok and pic.data in datas:
                viol.append({"klass": None, "sig": "figure-order", "detail": f"{tag}: carries the bytes of figure {datas.index(pic.data) + 1}"})
            else:
                first = next((i for i, (a, b) in enumerate(zip(pic.data, data)) if a != b), min(len(pic.data), len(data)))
                viol.append({"klass": None, "sig": "payload-mismatch",
                             "detail": f"{tag}: payload decodes to {len(pic.data)} bytes (hex_ok={pic.hex_ok}), file has {len(data)}; first difference at byte {first}"})
        # picture type
        if pic.blip != BLIP[fig["fmt"]]:
            viol.append({"klass": None, "sig": "blip-keyword", "detail": f"{tag}: \\{pic.blip}, expected \\{BLIP[fig['fmt']]}"})
        # pixel size from the image header
        ref = ref_size(fig["fmt"], data)
        got = (pic.props.get("picw"), pic.props.get("pich"))
        w_in, h_in = dim_at(fw, k), dim_at(fh, k)
        if ref is not None and got != tuple(ref):
            klass = None
            if fig["fmt"] == "jpeg" and fig.get("fill") and got == (int(w_in * 96), int(h_in * 96)):
                # completely explained: the header walker gives up on 0xFF fill bytes and the 96-dpi fallback is emitted
                klass = "jpeg-fill-bytes-before-frame-header"
            sig = klass or ("pixel-size-swapped" if got == (ref[1], ref[0]) else "pixel-size")
            viol.append({"klass": klass, "sig": sig,
                         "detail": f"{tag}: \\picw{got[0]}\\pich{got[1]} but the image header says {ref[0]}x{ref[1]}"
                                   + (f" ({fig.get('fill')} fill byte(s) 0xFF before the SOF marker)" if fig.get("fill") else "")})
        # display size
        for word, inches, axis in (("picwgoal", w_in, "width"), ("pichgoal", h_in, "height")):
            g = pic.props.get(word)
            want = Fraction(inches) * 1440
            if g is None or not abs(Fraction(g) - want) < 1:
                vals = fw if axis == "width" else fh
                how = "scalar" if not isinstance(vals, list) else ("positional" if k < len(vals) else "last-value-reused")
                viol.append({"klass": None, "sig": f"display-{axis}-{how}",
                             "detail": f"{tag}: \\{word}{g} but fig_{axis}={vals!r} gives {inches} in = {float(want):.1f} twips for figure {k + 1}"})
        # counters
        bump(f"len%40={len(data) % 40}" if len(data) % 40 in (39, 0, 1) else "len%40=other")
        if len(set(data)) == 256:
            bump("all-byte-values")
        bump("fmt=" + fig["fmt"])
        if fig["sfx"] != fig["sfx"].lower():
            bump("suffix-uppercase")
        if ref is not None and max(ref) > 65535:
            bump("png-dim>65535")
        if fig["fmt"] == "jpeg" and fig.get("app"):
            bump("jpeg-app-segments")
            if 65535 in fig["app"]:
                bump("jpeg-maximal-segment")
            if not fig.get("tables") and not fig.get("fill"):
                off = 2 + sum(a + 2 for a in fig["app"])  # where the frame-header marker starts
                for kk in (16, 17):
                    for name, lo, hi in (("just-below", -20, -1), ("at-or-above", 0, 9)):
                        if (1 << kk) + lo <= off <= (1 << kk) + hi:
                            bump(f"jpeg-frame-header-{name}-2^{kk}")
        if len(data) > 65536:
            bump("file>64KiB-" + fig["fmt"])
        if ref is not None and ref[0] != ref[1]:
            bump("non-square")
    for v in (fw, fh):
        if isinstance(v, list):
            bump("size-list-shorter" if len(v) < n else "size-list-longer" if len(v) > n else "size-list-exact")
    if n > 1:
        bump("multi-figure")
    for key in ("title", "footnote", "source"):
        if int(case.get(key) or 0) > 1:
            bump("multi-line-" + key)
    if n > 1 and int(case.get("title") or 0) == n:
        bump("title-lines==figures")
    nt = n >= 2 or isinstance(fw, list) or isinstance(fh, list) or any(len(d) % 40 in (39, 0, 1) for d in datas) \
        or any(f.get("app") or f.get("tables") or f.get("fake") for f in figs)
    sample = None
    if n == 3 and isinstance(fw, list) and case.get("footnote") and not viol:
        sample = {"pages": summary, "picw_pich": [[b.props.get("picw"), b.props.get("pich"), b.props.get("picwgoal"), b.props.get("pichgoal")]
                                                   for pg in doc.pages for b in pg.blocks if b.kind == "pict"],
                  "file_bytes": [len(d) for d in datas]}
    res = {"viol": viol, "nt": nt, "cnt": cnt}
    if sample is not None:
        res["sample"] = sample
    return res


# --------------------------------------------------------------------------- enumeration

LENS = [[0, None], [0, 39], [0, 0], [0, 1], [256, 39], [256, 0], [256, 1], [4096, None]]
PNG_DIMS = [1, 255, 256, 65535, 70000]
JPG_DIMS = [1, 255, 256, 65535]
APP_LENS = [2, 16, 300]
APP_SEQS = [[]] + [[a] for a in APP_LENS] + [[a, b] for a in APP_LENS for b in APP_LENS]
ALL_SOFS = [m for m in range(0xC0, 0xD0) if m not in (0xC4, 0xC8, 0xCC)]
EMF_TOTALS = [25, 39, 40, 41, 80, 81, 88, 119, 120, 121, 4096]


def single(fig, **kw):
    return {"figs": [fig], "fw": 3, "fh": 5.1, "title": 1, **kw}


def file_variant_cases(quick: bool):
    png_sfx = [".png", ".PNG"] if quick else [".png", ".PNG", ".Png"]
    jpg_sfx = [".jpg", ".jpeg"] if quick else [".jpg", ".jpeg", ".JPG", ".JPEG"]
    emf_sfx = [".emf"] if quick else [".emf", ".EMF"]
    for sfx, w, h, ln in itertools.product(png_sfx, PNG_DIMS, PNG_DIMS, LENS):
        yield single({"fmt": "png", "sfx": sfx, "w": w, "h": h, "len": ln})
    for sfx, w, h, app, sof, ln in itertools.product(jpg_sfx, JPG_DIMS, JPG_DIMS, APP_SEQS, (0xC0, 0xC2), LENS):
        yield single({"fmt": "jpeg", "sfx": sfx, "w": w, "h": h, "app": app, "sof": sof, "len": ln})
    # every frame-header marker of T.81 table B.1 (SOF0..SOF15 without DHT C4, JPG C8, DAC CC)
    for sof, (w, h), app in itertools.product(ALL_SOFS, ((255, 256), (65535, 1), (405, 183)), ([], [16], [300, 2])):
        if sof in (0xC0, 0xC2) and (w, h) != (405, 183):
            continue  # covered above
        yield single({"fmt": "jpeg", "sfx": ".jpg", "w": w, "h": h, "app": app, "sof": sof, "len": [0, 39]})
    for sfx, tot in itertools.product(emf_sfx, EMF_TOTALS):
        yield single({"fmt": "emf", "sfx": sfx, "tot": tot})


def jpeg_structure_cases(quick: bool):
    """Segments in front of the frame header other than plain APPn: DQT/DHT, a decoy SOF inside an APPn, fill bytes."""
    sofs = (0xC0, 0xC2) if quick else tuple(ALL_SOFS)
    lens = [[0, None]] if quick else [[0, None], [0, 0], [256, 39]]
    for w, h, app, sof, fake, tables, fill, ln in itertools.product(JPG_DIMS, JPG_DIMS, APP_SEQS, sofs, (0, 1), (0, 1), (0, 1, 2), lens):
        if not (fake or tables or fill):
            continue  # covered by file_variant_cases
        if fake and not any(a >= 16 for a in app):
            continue  # no segment can hold the decoy
        yield single({"fmt": "jpeg", "sfx": ".jpg", "w": w, "h": h, "app": app, "sof": sof, "fake": fake, "tables": tables,
                      "fill": fill, "len": ln})


def cycle_figs(n: int, rot: int = 0):
    protos = [
        {"fmt": "png", "sfx": ".png", "w": 300, "h": 200, "len": [256, 0]},
        {"fmt": "jpeg", "sfx": ".jpg", "w": 640, "h": 480, "app": [16], "len": [0, 39]},
        {"fmt": "emf", "sfx": ".emf", "tot": 121},
    ]
    return [{**protos[(i + rot) % 3], "salt": i + 1} for i in range(n)]


def size_shapes(n: int):
    out = list(VALS)
    for ln in range(1, n + 2):
        for rot in range(4):
            out.append([VALS[(rot + j) % 4] for j in range(ln)])
    return out


def size_list_cases(nmax: int):
    for n in range(1, nmax + 1):
        shapes = size_shapes(n)
        for fw, fh, align in itertools.product(shapes, shapes, ("left", "center", "right")):
            yield {"figs": cycle_figs(n), "fw": fw, "fh": fh, "align": align, "title": 1, "footnote": 1, "source": 1}


def placement_cases(nmax: int):
    for n in range(1, nmax + 1):
        for (pt, pf, ps), (t, s, f, z) in itertools.product(itertools.product(PLACE, repeat=3), itertools.product((0, 1), repeat=4)):
            yield {"figs": cycle_figs(n, n), "fw": [3, 5.1], "fh": 3, "title": t, "subline": s, "footnote": f, "source": z,
                   "pt": pt, "pf": pf, "ps": ps}


def ball_cases(anchor_ids, quick: bool):
    placements = [("all", "last", "last"), ("first", "all", "first"), ("last", "first", "all")]
    alt_fig = [
        {"fmt": "png", "sfx": ".PNG", "w": 70000, "h": 1, "len": [0, 39]},
        {"fmt": "jpeg", "sfx": ".jpeg", "w": 1, "h": 65535, "app": [2, 300], "sof": 0xC2, "len": [256, 1]},
        {"fmt": "emf", "sfx": ".emf", "tot": 41},
    ]
    for a in anchor_ids:
        pt, pf, ps = placements[a]
        anchor = {"figs": cycle_figs(3, a), "fw": [3, 5.1], "fh": 7.25, "align": "center", "title": 1, "subline": 0,
                  "footnote": 1, "source": 1, "pt": pt, "pf": pf, "ps": ps, "paths": "list"}
        dims = {}
        for i in range(3):
            dims[f"fig{i}"] = [("fig", i, {**v, "salt": 10 + i}) for v in alt_fig]
        dims["n"] = [("n", m) for m in ((1, 2) if quick else (1, 2, 4, 5, 6))]
        dims["fw"] = [("set", "fw", v) for v in (0.5, [7.25], [3, 0.5, 5.1], [3, 0.5, 5.1, 7.25])]
        dims["fh"] = [("set", "fh", v) for v in (0.5, [5.1], [7.25, 3, 0.5], [3, 0.5, 5.1, 7.25])]
        dims["align"] = [("set", "align", v) for v in ("left", "right")]
        for k, cur in (("pt", pt), ("pf", pf), ("ps", ps)):
            dims[k] = [("set", k, v) for v in PLACE if v != cur]
        dims["title"] = [("set", "title", 0)]
        dims["subline"] = [("set", "subline", 1)]
        dims["footnote"] = [("set", "footnote", 0)]
        dims["source"] = [("set", "source", 0)]
        dims["paths"] = [("set", "paths", "Path")]
        names = list(dims)
        for r in (1, 2):
            for combo in itertools.combinations(names, r):
                for edits in itertools.product(*[dims[d] for d in combo]):
                    c = {**anchor, "figs": [dict(f) for f in anchor["figs"]]}
                    for e in edits:
                        if e[0] == "set":
                            c[e[1]] = e[2]
                    for e in edits:
                        if e[0] == "n":
                            c["figs"] = cycle_figs(e[1], a)
                    for e in edits:
                        if e[0] == "fig" and e[1] < len(c["figs"]):
                            c["figs"][e[1]] = dict(e[2])
                    yield c
        # single-path forms (a plain str / a Path instead of a list) only make sense for one figure
        for form in ("str",):
            yield {**anchor, "figs": cycle_figs(1, a), "paths": form}


def caption_line_cases(nmax: int, full: bool):
    """Multi-line title / subline / footnote / source (1..4 lines each) x 1..nmax figures x placement^3.
    quick: title x footnote lines full product, source lines and subline lines derived (every value occurs with every
    figure count and placement); thorough: full product of the three line counts."""
    for n in range(1, nmax + 1):
        for (pt, pf, ps), t, f in itertools.product(itertools.product(PLACE, repeat=3), (1, 2, 3, 4), (1, 2, 3, 4)):
            for z in ((1, 2, 3, 4) if full else ((t + f + n) % 4 + 1,)):
                yield {"figs": cycle_figs(n, n + 1), "fw": 3, "fh": [3, 5.1], "title": t, "subline": (t + f + z) % 5, "footnote": f,
                       "source": z, "pt": pt, "pf": pf, "ps": ps}


HIST_VERSIONS = {
    ".png": [{"fmt": "png", "sfx": ".png", "w": 300, "h": 200, "len": [256, 0], "salt": 1},
             {"fmt": "png", "sfx": ".png", "w": 300, "h": 200, "len": [256, 0], "salt": 2},   # same length, same size, other bytes
             {"fmt": "png", "sfx": ".png", "w": 70000, "h": 1, "len": [0, 39], "salt": 3},
             {"fmt": "png", "sfx": ".png", "w": 200, "h": 300, "len": [256, 0], "salt": 1}],  # same length, other size
    ".jpg": [{"fmt": "jpeg", "sfx": ".jpg", "w": 640, "h": 480, "app": [16], "len": [0, 39], "salt": 1},
             {"fmt": "jpeg", "sfx": ".jpg", "w": 640, "h": 480, "app": [16], "len": [0, 39], "salt": 2},
             {"fmt": "jpeg", "sfx": ".jpg", "w": 1, "h": 65535, "app": [2, 300], "sof": 0xC2, "len": [256, 1], "salt": 3},
             {"fmt": "jpeg", "sfx": ".jpg", "w": 255, "h": 256, "sof": 0xCF, "tables": 1, "len": [0, 0], "salt": 4}],
    ".emf": [{"fmt": "emf", "sfx": ".emf", "tot": 121, "salt": 1}, {"fmt": "emf", "sfx": ".emf", "tot": 121, "salt": 2},
             {"fmt": "emf", "sfx": ".emf", "tot": 41, "salt": 3}, {"fmt": "emf", "sfx": ".emf", "tot": 4096, "salt": 4}],
}
HIST_SHAPES = [["P"], ["P", "Q"], ["Q", "P"], ["P", "P"]]


def history_cases(full: bool):
    """All version sequences of length 2 and 3 (adjacent versions distinct, so v1 -> v2 -> v1 is included) over 4 versions per
    suffix family x 4 document shapes x {overwrite in place, replace by rename}."""
    for sfx, vs in HIST_VERSIONS.items():
        seqs = [[a, b] for a in range(4) for b in range(4) if a != b]
        seqs += [[a, b, c] for a in range(4) for b in range(4) for c in range(4) if a != b and b != c and (full or c == a)]
        for seq, shape, how in itertools.product(seqs, HIST_SHAPES, ("overwrite", "replace")):
            yield {"hist": [vs[i] for i in seq], "shape": shape, "how": how, "fw": [3, 5.1], "fh": 2.5, "title": 1, "footnote": 1,
                   "source": 1, "pt": "all", "pf": "last", "ps": "first"}


def app_for_offset(target: int):
    """APPn segment lengths (each <= 65535, the largest a 16-bit length field can state) such that the frame-header marker
    starts at byte `target`: SOI (2 bytes) + sum(length + 2)."""
    rem, segs = target - 2, []
    while rem > 65537:
        take = min(65535, rem - 2 - 4)  # leave room for a last segment of length >= 2
        segs.append(take)
        rem -= take + 2
    assert 4 <= rem <= 65537, target
    segs.append(rem - 2)
    return segs


def size_boundary_cases(full: bool):
    """Size boundaries of the file structure: APPn segments of the largest expressible lengths, several maximal segments so that
    the frame header starts just below / at / above 2^16 and 2^17 (and 2^18 in thorough), whole files just below / at / above
    2^16 and 2^17 bytes for all three formats.  PNG: IHDR is by definition the first chunk, so no amount of data can precede
    the size fields; large PNG files exercise the payload clause only."""
    dims = ((405, 183),) if not full else ((405, 183), (65535, 1))
    sofs = (0xC0, 0xC2) if not full else (0xC0, 0xC2, 0xCF)
    for (w, h), sof in itertools.product(dims, sofs):
        for seg in (65533, 65534, 65535):  # one segment of (nearly) maximal length
            yield single({"fmt": "jpeg", "sfx": ".jpg", "w": w, "h": h, "app": [seg], "sof": sof, "len": [0, None]})
        for k in ((16, 17) if not full else (16, 17, 18)):
            for d in (-20, -11, -10, -9, -8, -4, -1, 0, 1, 9, 4096):
                yield single({"fmt": "jpeg", "sfx": ".jpg", "w": w, "h": h, "app": app_for_offset((1 << k) + d), "sof": sof, "len": [0, None]})
    # two equal maximal metadata segments (what EXIF + ICC look like), frame header behind them, with DQT/DHT and fill bytes
    for tables, fill in itertools.product((0, 1), (0, 1)):
        yield single({"fmt": "jpeg", "sfx": ".jpeg", "w": 640, "h": 480, "app": [65535, 65535], "tables": tables, "fill": fill, "len": [256, 0]})
    for k, d in itertools.product((16, 17), (-1, 0, 1)):
        n = (1 << k) + d
        yield single({"fmt": "emf", "sfx": ".emf", "tot": n})
        yield single({"fmt": "png", "sfx": ".png", "w": 70000, "h": 3, "len": [n - 57, None]})   # 57 bytes of PNG framing
        yield single({"fmt": "jpeg", "sfx": ".jpg", "w": 3, "h": 65535, "app": [16], "len": [n - 400, n % 40]})  # big scan data


def _selfcheck_reference_readers():
    """The oracle's header readers must agree with Pillow wherever Pillow is willing to open the file."""
    import io

    from PIL import Image

    bad = []
    for fig in ({"fmt": "png", "w": 255, "h": 3}, {"fmt": "png", "w": 1, "h": 65535},
                {"fmt": "jpeg", "w": 300, "h": 200}, {"fmt": "jpeg", "w": 300, "h": 200, "app": [16, 300], "fake": 1},
                {"fmt": "jpeg", "w": 65535, "h": 2, "app": [2], "tables": 1, "sof": 0xC2},
                {"fmt": "jpeg", "w": 300, "h": 200, "fill": 2, "app": [300]}):
        data = synth({**fig, "len": [256, 0]})
        ref = ref_size(fig["fmt"], data)
        try:
            pil = Image.open(io.BytesIO(data)).size
        except Exception as e:  # pragma: no cover
            bad.append(f"Pillow cannot open {fig}: {e}")
            continue
        if tuple(ref or ()) != tuple(pil) or tuple(pil) != (fig["w"], fig["h"]):
            bad.append(f"{fig}: reference reader {ref}, Pillow {pil}")
    return bad


def plan(run):
    quick = run.tier == "quick"
    nmax = 3 if quick else 6
    run.rule = ("(A) one-figure documents: full product suffix x header size (PNG {1,255,256,65535,70000}^2, JPEG {1,255,256,65535}^2) "
                "x 0..2 APPn of {2,16,300} bytes x SOF0/SOF2 x 8 length classes (total length % 40 in {39,0,1}, with/without all 256 "
                "byte values, 4 KiB), EMF of exact lengths 25..4096; (B) JPEG structure: DQT/DHT, decoy SOF inside APPn, 0..2 fill bytes; "
                f"(C) 1..{nmax} figures x every fig_width shape x every fig_height shape (scalar, lists of length 1..n+1, 4 rotations) x 3 alignments; "
                f"(D) 1..{nmax} figures x placement^3 x title/subline/footnote/source presence; (E) radius-2 ball over 15 dimensions around "
                f"{'the seed-selected anchor' if quick else 'all 3 anchors'}; (F) caption lines: 1..{4 if quick else 6} figures x placement^3 x title lines 1..4 x "
                f"footnote lines 1..4 x source lines {'1..4' if not quick else 'derived (all values occur)'}, subline 0..4 lines; (G) overwrite histories in one process: "
                "per suffix family 4 file versions (same length other bytes / other pixel size / other structure), all version sequences of length 2 "
                f"and {'3' if not quick else '3 returning to the first version'} x document shapes [P] [P,Q] [Q,P] [P,P] x overwrite in place / replace by rename; a new "
                "document is built and encoded after every rewrite and every earlier document is encoded again; "
                "(H) size boundaries: JPEG with one APPn of length 65533/65534/65535 and with several maximal APPn segments placing the frame header at "
                "2^16 and 2^17 (thorough 2^18) + {-20,-11,-10,-9,-8,-4,-1,0,1,9,4096}, two maximal segments + DQT/DHT/fill byte, whole files of 2^16, 2^17 -1/0/+1 "
                "bytes for PNG, JPEG, EMF; (I) host MIME registry: 16 documents (each of the 8 suffixes .png .PNG .jpg .jpeg .JPG .JPEG .emf .EMF alone "
                "and in 8 mixed 3-figure documents) encoded in fresh interpreters whose registry has no system files / maps .png to an unrelated type / is "
                "blank, output byte-identical to the normal process. non-trivial = >= 2 figures, or a list-valued size, or a file whose "
                "length is 39/0/1 mod 40, or a JPEG with segments in front of the frame header; distinct = distinct case")
    run.assumptions = [
        "the RTF reader's \\pict decoding and the PNG/JPEG header readers in mc/spec/figures.py are correct (cross-checked against Pillow at start)",
        "image files are synthetic: valid headers, arbitrary body bytes; EMF carries no pixel size, so \\picw/\\pich are not checked for EMF",
        "display size tolerance |goal - inches*1440| < 1 twip (truncation and rounding both accepted)",
        "PNG: IHDR is the first chunk by definition, so the size fields sit at a fixed offset whatever else the file holds - large PNG files exercise the "
        "payload clause only; EMF: the header carries no pixel size that rtflite uses, large EMF files likewise",
        "environment layer: the host's MIME registry (mimetypes.knownfiles, add_type, types_map) is changed in a child interpreter before rtflite is imported "
        "from the same source tree; the format of an image is taken to be a function of the file, not of the host, so the output must not change",
        "subline placement, component order within a page and page-break geometry are C06's business and not demanded here",
        "multi-line components: a selected page must show all lines of the component in order exactly once, however they are rendered (\\line, paragraphs, rows)",
        "histories: a document built after a file was rewritten must embed the current content; a document built before and encoded again may show "
        "either the content current at its construction or the current one, coherently (payload, keyword and pixel size of one version). Worker "
        "processes are long-lived and no rtflite cache is ever cleared between cases; every history uses a fresh path",
    ]
    for msg in _selfcheck_reference_readers():
        run.harness_errors.append({"layer": "reference-readers", "case": None, "error": msg})
    try:
        cases = list(file_variant_cases(quick))
        run.layer("file-variants", "mc.props.c16:eval_case", cases, chunk=100, total=len(cases))
        cases = list(jpeg_structure_cases(quick))
        run.layer("jpeg-structure", "mc.props.c16:eval_case", cases, chunk=100, total=len(cases))
        cases = list(size_list_cases(nmax))
        run.layer("size-lists", "mc.props.c16:eval_case", cases, chunk=60, total=len(cases))
        cases = list(placement_cases(nmax))
        run.layer("placement-product", "mc.props.c16:eval_case", cases, chunk=60, total=len(cases))
        cases = environment_cases()   # three fresh interpreters, one per registry variant, run in parallel on the workers
        run.layer("mime-registry-environments", "mc.props.c16:eval_case", cases, chunk=1, total=len(cases))
        cases = list(size_boundary_cases(not quick))
        run.layer("size-boundaries", "mc.props.c16:eval_case", cases, chunk=4, total=len(cases))
        cases = list(caption_line_cases(4 if quick else 6, not quick))
        run.layer("caption-lines", "mc.props.c16:eval_case", cases, chunk=60, total=len(cases))
        cases = list(history_cases(not quick))
        run.layer("overwrite-histories", "mc.props.c16:eval_case", cases, chunk=24, total=len(cases))
        anchors = [run.seed % 3] if quick else [0, 1, 2]
        cases = list(ball_cases(anchors, quick))
        run.layer("ball-r2", "mc.props.c16:eval_case", cases, chunk=40, total=len(cases))
    finally:
        for d in glob.glob(os.path.join(repo.VERIF, ".work", f"c16-p{os.getpid()}-*")):
            shutil.rmtree(d, ignore_errors=True)
    for need in ("len%40=39", "len%40=0", "len%40=1", "all-byte-values", "png-dim>65535", "jpeg-app-segments", "non-square",
                 "fmt=png", "fmt=jpeg", "fmt=emf", "suffix-uppercase", "size-list-shorter", "size-list-longer", "size-list-exact",
                 "multi-figure", "multi-line-title", "multi-line-footnote", "multi-line-source", "title-lines==figures",
                 "jpeg-maximal-segment", "jpeg-frame-header-just-below-2^16", "jpeg-frame-header-at-or-above-2^16",
                 "jpeg-frame-header-just-below-2^17", "jpeg-frame-header-at-or-above-2^17", "file>64KiB-png", "file>64KiB-jpeg", "file>64KiB-emf",
                 "env-emf-unknown-to-registry", "env-png-remapped", "env-registry-blank", "env-documents",
                 "history", "history-back-to-first-version", "history-same-length-other-bytes", "history-other-pixel-size"):
        # (an early-stopped or budget-cut run has not visited everything: it is reported as not exhaustive, the guards say nothing)
        if not run.cnt.get(need) and all(l["completed"] for l in run.layers):
            run.harness_errors.append({"layer": "vacuity", "case": None, "error": f"counter {need} is zero"})

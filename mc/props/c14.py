"""C14 - encoding is a pure function of the document.

Explicit-state exploration of the process-state machine on the real code.  Events: new(d), enc(d)
for d in a pool of 15 documents (plain, coloured, paginated with own margins, table footnote/source on
every page with an empty closing style, the same long texts in a narrow and in a wide column, grouped, grouped-but-non-contiguous
(its encode raises ValueError), multi-section (also with a wider last section), figure, and three documents that hold the same
RTFBody / RTFColumnHeader / RTFPage / RTFSubline / RTFFootnote objects and the same DataFrame, with
equal and with different column counts).  Canonical state = census of rtflite's process-global
mutable state + field values of every pool document and shared component + DataFrame fingerprints.
All histories up to depth k are run unmerged; then a breadth-first search with de-duplication on the
canonical state runs towards a fixpoint.  Invariants on every transition: enc(d) returns exactly what
a fresh interpreter returns for d (three hash seeds must agree), or raises the same exception type;
no event changes any DataFrame.
"""
from __future__ import annotations

import hashlib
import itertools
import json
import os
import re
import subprocess
import sys

from ..core import repo
from ..explore import census as C
from ..explore import histpool as HP

PID = "C14"
LEVEL = "model_checking"
TECHNIQUE = ("explicit-state search over the process-state machine (events construct/encode over three document pools: 15 documents, and two sharing groups of 9 and 5 documents around shared bodies, footnotes and a title), "
             "canonical state = census of process-global state + component field values; all histories to depth k unmerged + BFS with state "
             "de-duplication; every encode compared with fresh-interpreter baselines")
LEVEL_TEXT = ("Every history of construct/encode events up to the stated depth is executed from a restored pristine state and every encode in it is "
              "compared with what fresh interpreters (3 hash seeds) return; the merged BFS extends this to longer histories up to its fixpoint or cap. "
              "Residual global state changes outputs only under particular histories, which is what an exhaustive history search enumerates.")
LEVEL_NOTE = ("Trusted: the generic census/restore (asserted equal to pristine after every restore; representative histories re-run in fresh interpreters), "
              "subprocess baselines (one fresh interpreter per document). Bounds: three pools (15 + 9 + 5 documents; histories stay within one pool), events {new, enc}, depth as in evidence.")

EVENTS = [(e, n) for n in HP.POOL_NAMES for e in ("new", "enc")]
EVENT_GROUPS = [[(e, n) for n in names for e in ("new", "enc")] for names in HP.GROUPS]  # histories stay within one sharing group
# the last group is edited in place between encodes: events ed0..ed2 apply the document's k-th edit (a no-op before construction)
EVENT_GROUPS[3] = [(e, n) for n in HP.POOL4_NAMES for e in ("new", "enc") + tuple(f"ed{k}" for k in range(HP.N_EDITS))]
EVENTS2 = EVENT_GROUPS[1]


def events_for(hist):
    """The alphabet that extends `hist`: the group of its first event (all groups for the empty history)."""
    if not hist:
        return [e for g in EVENT_GROUPS[:3] for e in g]  # the edit group is explored unmerged only (baselines exist for <= 2 edits)
    return next(g for g, names in zip(EVENT_GROUPS, HP.GROUPS) if hist[0][1] in names)


_SNAP = None
_BASE = None
_PRISTINE = None
_SH0 = None
# one baseline file per run (the parent exports its name to the spawned workers and subprocesses)
BASEFILE = os.environ.get("VERIF_C14_BASE") or os.path.join(repo.VERIF, ".work", "c14", f"baseline-{os.getpid()}.json")


def _init():
    global _SNAP, _BASE, _PRISTINE, _SH0
    if _SNAP is None:
        C.import_all()
        _SNAP = C.Snapshot()
        _PRISTINE = {}
        for name in HP.ALL_NAMES:
            _SNAP.restore()
            sh = HP.mk_shared()
            try:
                _PRISTINE[name] = doc_fp(HP.construct(name, sh))
            except Exception as e:  # noqa: BLE001
                _PRISTINE[name] = f"construct-raised-{type(e).__name__}"
        _SNAP.restore()
        _SH0 = C.canon(HP.mk_shared())
    if _BASE is None:
        with open(BASEFILE) as f:
            _BASE = json.load(f)


def doc_fp(doc):
    d = {k: v for k, v in vars(doc).items()}
    priv = getattr(doc, "__pydantic_private__", None)
    return hashlib.md5((C.canon(d) + "|" + C.canon(priv)).encode()).hexdigest()


def df_fps(docs, sh):
    out = {}
    for name, d in docs.items():
        df = getattr(d, "df", None)
        if df is None:
            continue
        out[name] = C.canon(df)
    out["shared.df"] = C.canon(sh["df"])
    return out


def run_history(hist):
    """Replay `hist` from the restored pristine state -> (canonical state, observations)."""
    _init()
    _SNAP.restore()
    sh = HP.mk_shared()
    docs = {}
    obs = []
    applied = {}  # per document: the edits applied since it was constructed (the baseline key)
    for ev, name in hist:
        before = df_fps(docs, sh)
        if ev.startswith("ed"):
            res = "absent"
            if name in docs:
                try:
                    HP.edits_of(name)[int(ev[2:])](docs[name])
                    applied.setdefault(name, []).append(ev[2:])
                    res = "ok"
                except Exception as e:  # noqa: BLE001
                    res = f"exc:{type(e).__name__}"
            obs.append({"ev": ev, "doc": name, "res": ["construct", res], "df_changed": []})
            continue
        if ev == "new":
            applied.pop(name, None)
        if ev == "new" or name not in docs:
            try:
                docs[name] = HP.construct(name, sh)
                cres = "ok"
            except Exception as e:  # noqa: BLE001
                cres = f"exc:{type(e).__name__}"
                docs.pop(name, None)
            if ev == "new" or cres != "ok":
                after = df_fps(docs, sh)
                obs.append({"ev": ev, "doc": name, "res": ["construct", cres],
                            "df_changed": sorted(k for k in before if k in after and before[k] != after[k])})
                continue
            before = df_fps(docs, sh)
        r = HP.encode_result(docs[name])
        after = df_fps(docs, sh)
        obs.append({"ev": ev, "doc": name, "res": r, "df_changed": sorted(k for k in before if k in after and before[k] != after[k]),
                    "key": name + "".join("+e" + k for k in applied.get(name, []))})
    slots = []
    for name in HP.ALL_NAMES:
        if name not in docs:
            slots.append(None)
            continue
        fp = doc_fp(docs[name])
        if name in HP.SHARES:
            slots.append("C:" + fp)
        else:
            slots.append(None if fp == _PRISTINE[name] else fp)
    shc = C.canon(sh)
    state = hashlib.md5(repr((C.census(), slots, None if shc == _SH0 else shc)).encode()).hexdigest()
    return state, obs


_NUM = {"colour": re.compile(r"\\(cf|cb|chcbpat|brdrcf)\d+"), "cellx": re.compile(r"\\cellx-?\d+")}


def classify(hist, i, got, base):
    """Narrow finding classes for a wrong encode result at history position i."""
    name = hist[i][1]
    prior = hist[:i]
    if got[0] == "ok" and base[0] == "ok":
        a, b = got[1], base[1]
        if a != b and _NUM["colour"].sub(r"\\\1#", a) == _NUM["colour"].sub(r"\\\1#", b):
            return "colour-indices-only"
        if a != b and _NUM["cellx"].sub(r"\\cellx#", a) == _NUM["cellx"].sub(r"\\cellx#", b):
            if name in HP.SHARES and any(n in HP.SHARES and n != name and HP.NCOLS[n] != HP.NCOLS[name] for _, n in prior):
                return "shared-component-width-carried-over"
    if name in HP.SHARES and any(n in HP.SHARES and n != name and HP.NCOLS[n] != HP.NCOLS[name] for _, n in prior) and got[0] == "exc" and base[0] == "ok":
        return "shared-component-width-carried-over"
    return None


def check_obs(hist, obs, viol, only_last=False):
    for i, o in enumerate(obs):
        if only_last and i != len(obs) - 1:
            continue
        if o["df_changed"]:
            viol.append({"klass": None, "sig": "dataframe-modified", "detail": f"event {hist[i]} changed DataFrame(s) {o['df_changed']}; history={hist[:i + 1]}"})
        if o["res"][0] == "construct":
            continue
        base = _BASE.get(o.get("key") or o["doc"])
        if base is None:
            continue  # an edit sequence longer than the baselined ones (only reachable beyond the unmerged depth)
        got = o["res"]
        if got != base:
            k = classify(hist, i, got, base)
            klass = None
            if k == "colour-indices-only":
                # which earlier event explains it?
                failed_before = any(obs[j]["res"][0] == "exc" for j in range(i))
                klass = "colour-context-leaks-after-failed-encode" if failed_before and o["doc"] in ("multi", "figure") else None
            elif k:
                klass = k
            what = (f"returns a different string ({summ(got)} vs fresh {summ(base)})" if got[0] == "ok" and base[0] == "ok"
                    else f"{got[:2] if got[0] == 'exc' else 'returns'} but a fresh interpreter {'raises ' + base[1] if base[0] == 'exc' else 'returns a string'}")
            viol.append({"klass": klass, "sig": f"differs-from-fresh-{o['doc']}-{klass or k}",
                         "detail": f"enc({o['doc']}) after history {hist[:i]} {what}"})


def summ(r):
    return hashlib.md5(r[1].encode()).hexdigest()[:8] + f"/{len(r[1])}B"


def eval_case(case: dict) -> dict:
    _init()
    viol: list = []
    mode = case["mode"]
    n = 0
    nt_hist = 0
    out = {}
    if mode == "unmerged":
        prefix = [tuple(e) for e in case["prefix"]]

        def rec(h, d):
            nonlocal n, nt_hist
            if h:
                _, obs = run_history(h)
                n += 1
                nt_hist += len(h) >= 2
                check_obs(h, obs, viol, only_last=True)
            if d <= 0:
                return
            for e in events_for(h):
                if d == 1 and len(h) >= 2 and (e[0] == "new" or e[0].startswith("ed")):
                    continue  # a trailing construct makes no observation beyond what depth 2 already checks
                rec(h + [e], d - 1)

        rec(prefix, case["depth"])
        out = {"states": 0, "transitions": n}
    elif mode == "expand":
        h = [tuple(e) for e in case["hist"]]
        succ = []
        for e in events_for(h):
            h2 = h + [e]
            s2, obs = run_history(h2)
            n += 1
            nt_hist += len(h2) >= 2
            check_obs(h2, obs, viol)
            succ.append([list(e), s2])
        out = {"succ": succ, "transitions": n}
    elif mode == "hash-seed-sweep":  # replay artefact: the same document in fresh interpreters under the recorded hash seeds
        res = {sd: fresh_results([case["doc"]], sd)[case["doc"]] for sd in case["seeds"]}
        n = len(res)
        ref = res[case["seeds"][0]]
        bad = [sd for sd in case["seeds"][1:] if res[sd] != ref]
        if bad:
            viol.append({"klass": None, "sig": f"hash-seed-dependent-output-{case['doc']}",
                         "detail": f"fresh interpreters disagree for document '{case['doc']}': PYTHONHASHSEED {case['seeds'][0]} vs {bad}"})
        out = {"sample": {"doc": case["doc"], "digests": {str(sd): (summ(r) if r[0] == "ok" else r[1]) for sd, r in res.items()}}}
    elif mode == "replay":
        h = [tuple(e) for e in case["hist"]]
        s, obs = run_history(h)
        n += 1
        check_obs(h, obs, viol)
        out = {"sample": {"state": s, "obs": [[o["ev"], o["doc"], o["res"][0], (summ(o["res"]) if o["res"][0] == "ok" else o["res"][1])] for o in obs]}}
    best = {}
    for v in viol:
        cur = best.get(v["sig"])
        if cur is None or len(v["detail"]) < len(cur["detail"]):
            best[v["sig"]] = v
    if "sample" not in out and mode == "expand":
        out["sample"] = {"history": case["hist"], "successors": [[e, s2[:8]] for e, s2 in out.get("succ", [])][:6]}
    return {"viol": list(best.values()), "nt_n": nt_hist, "evals": n, **out}


# --------------------------------------------------------------------------- parent side


def fresh_results(names, seed):
    env = dict(os.environ, PYTHONHASHSEED=str(seed), VERIF_REPO=repo.REPO)
    last = None
    for attempt in range(2):  # a heavily loaded machine can starve one of several hundred short-lived interpreters: one retry
        try:
            p = subprocess.run([sys.executable, "-m", "mc.explore.histpool", *names], cwd=repo.VERIF, env=env, capture_output=True, text=True, timeout=900)
        except subprocess.TimeoutExpired as e:
            last = f"timeout: {e}"
            continue
        if p.returncode != 0:
            last = p.stderr[-800:]
            continue
        return json.loads(p.stdout)
    raise RuntimeError(f"baseline subprocess failed: {last}")


def fresh_history(hist, seed=0):
    """Run one history in a genuinely fresh interpreter -> (state, digest of observations)."""
    code = ("import sys,json,hashlib;sys.path.insert(0,%r);from mc.core import repo;repo.bind();import io;real=sys.stdout;sys.stdout=io.StringIO();"
            "from mc.props import c14;s,obs=c14.run_history([tuple(e) for e in json.loads(sys.argv[1])]);"
            "sys.stdout=real;print(json.dumps([s,[[o['ev'],o['doc'],o['res']] for o in obs]]))") % repo.VERIF
    env = dict(os.environ, PYTHONHASHSEED=str(seed), VERIF_REPO=repo.REPO)
    p = subprocess.run([sys.executable, "-c", code, json.dumps(hist)], cwd=repo.VERIF, env=env, capture_output=True, text=True, timeout=300)
    if p.returncode != 0:
        raise RuntimeError(p.stderr[-800:])
    return json.loads(p.stdout)


def plan(run):
    from concurrent.futures import ThreadPoolExecutor

    quick = run.tier == "quick"
    run.rule = ("events {new(d), enc(d)} over three pools (15 documents; a sharing group of 9 around a grid-bordered body, a footnote and a last-section body; a sharing group of 5 around a table footnote that a figure document must refuse and a coloured title); a group of 4 documents that are edited in place between encodes - events ed0..ed2, baseline = a fresh interpreter building the document and applying the same edits without encoding in between); histories stay within one pool; plus a sweep of 14 documents over 8 values of PYTHONHASHSEED in fresh interpreters; all histories of length <= k unmerged (every encode in every history compared with the "
                "fresh-interpreter baseline); breadth-first search over canonical states (census + component values + DataFrame fingerprints) with de-duplication; "
                "representative histories re-executed in fresh interpreters. 'encode twice' is the history enc(d).enc(d). "
                "non-trivial = distinct histories with >= 2 events; evaluations = histories executed")
    run.assumptions = ["baseline(d) = output of a fresh interpreter constructing and encoding d (three PYTHONHASHSEED values must agree)",
                       "the census sees all process-global rtflite state: module-level and class-level dict/list/set/ContextVar/instances",
                       "a constructed-but-unmodified document without shared components has the same futures as an absent one (merged)"]
    os.makedirs(os.path.dirname(BASEFILE), exist_ok=True)
    os.environ["VERIF_C14_BASE"] = BASEFILE
    seeds = [0, 1, (run.seed % 1000) + 2]
    with ThreadPoolExecutor(run.workers) as ex:
        # one genuinely fresh interpreter per (document, hash seed): no document shares a process with another
        edited = [n + "".join("+e%d" % k for k in seq) for n in HP.POOL4_NAMES for L_ in (1, 2) for seq in itertools.product(range(HP.N_EDITS), repeat=L_)]
        futs = [(s, name, ex.submit(fresh_results, [name], s)) for s in seeds for name in HP.ALL_NAMES + edited]
        per_seed = {}
        for s, name, f in futs:
            per_seed.setdefault(s, {}).update(f.result())
    # hash-seed sweep: documents whose features tempt an implementation to iterate over a set of names are encoded in fresh
    # interpreters under 8 values of PYTHONHASHSEED; all must agree (the string order of a set is not part of a document's value)
    sweep_seeds = [0, 1, 2, 3, 4, 5, 6, (run.seed % 1000) + 7]
    sweep_names = HP.HASHSEED_NAMES + ["paged", "fnall", "multi", "red"]
    with ThreadPoolExecutor(run.workers) as ex:
        sfuts = [(s, name, ex.submit(fresh_results, [name], s)) for s in sweep_seeds for name in sweep_names]
        sweep = {}
        for s, name, f in sfuts:
            sweep.setdefault(name, {})[s] = f.result()[name]
    run.evaluations += len(sfuts)
    run.extra["hash_seed_sweep"] = {"seeds": sweep_seeds, "documents": sweep_names}
    for name, by_seed in sweep.items():
        ref = by_seed[sweep_seeds[0]]
        bad = [s for s in sweep_seeds[1:] if by_seed[s] != ref]
        if bad:
            run.add_violation(None, f"fresh interpreters disagree for document '{name}': PYTHONHASHSEED {sweep_seeds[0]} vs {bad} "
                                    f"({ref[0]}/{len(ref[1]) if ref[0] == 'ok' else ref[1]} vs {by_seed[bad[0]][0]}/{len(by_seed[bad[0]][1]) if by_seed[bad[0]][0] == 'ok' else by_seed[bad[0]][1]})",
                              {"mode": "hash-seed-sweep", "doc": name, "seeds": [sweep_seeds[0]] + bad}, sig=f"hash-seed-dependent-output-{name}")
    base = per_seed[seeds[0]]
    for s in seeds[1:]:
        for name in HP.ALL_NAMES + edited:
            if per_seed[s][name] != base[name]:
                run.add_violation(None, f"fresh interpreters disagree for document '{name}' under PYTHONHASHSEED {seeds[0]} vs {s}",
                                  {"mode": "replay", "hist": [["enc", name]]}, sig="hash-seed-dependent-output")
    with open(BASEFILE, "w") as f:
        json.dump(base, f)
    run.extra["baseline"] = {n: (base[n][0], (len(base[n][1]) if base[n][0] == "ok" else base[n][1])) for n in HP.ALL_NAMES}

    # 1. unmerged: all histories up to depth k
    k = 3 if quick else 4
    cases = []
    # (depths per group follow the budget: the thorough tier of the three-pool version took 3490 of its 3600 s)
    for evs, kk in ((EVENT_GROUPS[0], k), (EVENT_GROUPS[1], k), (EVENT_GROUPS[2], 4), (EVENT_GROUPS[3], 3)):
        for e1 in evs:
            for e2 in evs:
                cases.append({"mode": "unmerged", "prefix": [list(e1), list(e2)], "depth": kk - 2})
            cases.append({"mode": "unmerged", "prefix": [list(e1)], "depth": 0})
    run.layer(f"unmerged-depth<={k}", "mc.props.c14:eval_case", cases, chunk=2, total=len(cases))

    # 2. merged BFS over canonical states
    seen = {}
    max_levels = 12 if quick else 60
    max_states = 400 if quick else 20000
    frontier = [[]]
    level = 0
    trans = 0
    fix = False
    s0 = None
    if run.viol:
        run.extra["bfs_skipped"] = "unlisted violations already found by the unmerged layer (shortest counterexamples first)"
        frontier = []
    while frontier and level < max_levels and len(seen) < max_states and run.time_left() > 20:
        level += 1
        newf = []

        def on_result(r):
            nonlocal trans
            for e, s2 in r.get("succ", []):
                trans += 1
                if s2 not in seen:
                    seen[s2] = r["_case"]["hist"] + [e]
                    newf.append(seen[s2])

        cases = [{"mode": "expand", "hist": h} for h in frontier]
        run.layer(f"bfs-level-{level}", "mc.props.c14:eval_case", cases, chunk=1, total=len(cases), on_result=on_result)
        frontier = newf
        if not frontier:
            fix = True
    run.states = len(seen) + 1
    run.transitions = trans or run.evaluations  # BFS skipped: the events executed by the unmerged layer
    run.extra["bfs_levels_completed"] = level
    run.extra["bfs_fixpoint_reached"] = fix
    run.extra["bfs_frontier_left"] = len(frontier)
    # 3. replay determinism: representative histories in fresh interpreters
    reps = sorted(seen.values(), key=len)
    reps = reps[: (24 if quick else 400)]
    bad = 0

    def one(h):
        s_f, obs_f = fresh_history(h, seed=int(os.environ.get("PYTHONHASHSEED", "0") or 0))
        return h, s_f, obs_f

    validated = 0
    with ThreadPoolExecutor(run.workers) as ex:
        for h, s_f, obs_f in ex.map(one, reps):
            validated += 1
            want = [k for k, v in seen.items() if v == h][0]
            if s_f != want:
                bad += 1
                run.harness_errors.append({"layer": "fresh-replay", "case": h,
                                           "error": f"in-process restore and a fresh interpreter reach different canonical states for history {h}"})
    run.extra["representative_histories_replayed_in_fresh_interpreters"] = validated
    run.extra["traces_validated_against_impl"] = run.evaluations
    if run.states < 10 and not run.viol:
        run.harness_errors.append({"layer": "vacuity", "case": None, "error": f"only {run.states} canonical states"})

"""C03 - no page exceeds the nrow row budget.

Paginator-automaton exploration (mc/explore/paginator.py) over layouts gamma = strategy x nrow x
header mode x footnote/source mode x placement x body font/size; histories of row events
(height 1..3 realised at the cell's OWN font and size, group change at each level) unmerged to a
depth, then a breadth-first closure over abstract page states to a fixpoint (long documents).
Invariant on every page of every state:
    header rows + group heading rows (spanning rows, subline_by paragraph) + sum of lb(data row)
    + table-rendered footnote/source rows  <=  nrow      unless the page holds exactly one data row
with lb(row) an independent lower bound (Pillow width at the cell's own font/size over the cell's
own \\cellx width).
"""
from __future__ import annotations

import itertools

from ..explore import paginator as P
from ..spec import docspec

PID = "C03"
LEVEL = "model_checking"
TECHNIQUE = ("explicit-state exploration of the paginator automaton on the real encoder: all row-event histories to depth n "
             "unmerged + breadth-first closure over abstract page states to a fixpoint; per-page row-budget invariant with an "
             "independent font-metric lower bound on wrapped lines")
LEVEL_TEXT = ("For every enumerated layout all row-event histories up to the depth are executed and the merged BFS reaches every abstract "
              "page state (fill, headings, group starts); the budget invariant is evaluated on every page of every document produced. "
              "Overflow depends on header mode x continuation headings x font size x placement per input, which only enumeration covers.")
LEVEL_NOTE = ("Trusted: RTF reader, Pillow metrics on the bundled fonts. lb() is a LOWER bound on rendered lines (no renderer is available "
              "offline), so an overflow that only real line breaking would show can be missed; none is reported that is not there.")

MECHS = ("auto-header-unreserved", "continuation-heading-unbudgeted", "multilevel-heading-budgeted-as-one", "estimator-ignores-font-size")


def page_budget(g, hist, obs, pi, start):
    """-> (total, parts, mechanism amounts) for page pi."""
    gn = P.norm_gamma(g)
    pg = obs.pages[pi]
    H = sum(1 for r, _, _ in pg if r == "header")
    G = sum(1 for r, _, _ in pg if r == "group")
    S = sum(1 for r, _, _ in pg if r == "subline_by")
    F = sum(l for r, _, l in pg if r in ("footnote_table", "source_table"))
    data = [(info[1], l) for r, info, l in pg if r == "data"]
    D = sum(l for _, l in data)
    amounts = dict.fromkeys(MECHS, 0)
    if gn["header"] == "default":
        amounts["auto-header-unreserved"] = H
    # heading runs before each data row
    pb, _, _ = P.keys_of(g, hist)
    run = 0
    first = True
    for r, info, l in pg:
        if r == "group":
            run += 1
        elif r == "data":
            row = info[1]
            # the page_by VALUES of this row equal the previous row's (the group continues, or a new
            # subline group repeats the same page_by value): the heading at the page top is a re-emission
            same_pb = row > 0 and all(pb[l_][row] == pb[l_][row - 1] for l_ in range(len(pb)))
            if run:
                if first and (start[row] == 0 or same_pb):
                    amounts["continuation-heading-unbudgeted"] += run
                else:
                    amounts["multilevel-heading-budgeted-as-one"] += run - 1
            run = 0
            first = False
        else:
            run = 0
    if (gn["font"], gn["size"]) != (1, 9):
        # what the same texts need at font 1 / size 9 (the only metrics the estimator uses)
        d9 = 0
        for row, l in data:
            d9 += 1 if hist[row][0] == 1 else lines_at_default(obs, pi, row)
        amounts["estimator-ignores-font-size"] = max(0, D - d9)
    return H + G + S + D + F, {"header": H, "group": G, "subline_by": S, "data_lines": D, "footnote_source_table": F,
                               "data_rows": [r for r, _ in data]}, amounts


def lines_at_default(obs, pi, row):
    """Lower bound on the lines of data row `row` if measured at font 1 / size 9."""
    d = obs.doc
    best = 1
    for pg in d.pages:
        for b in pg.blocks:
            if b.kind != "row":
                continue
            role, info = docspec.block_role(b)
            if role == "data" and info[1] == row:
                x0 = 0
                for c in b.cells:
                    w = ((c.cellx or 0) - x0) / 1440.0
                    x0 = c.cellx or x0
                    best = max(best, docspec.lines_lower_bound(c.text, w, 1, 9))
                return best
    return best


def classify(excess, amounts):
    nz = [(m, amounts[m]) for m in MECHS if amounts[m] > 0]
    if sum(a for _, a in nz) < excess:
        return None
    for k in range(1, len(nz) + 1):
        for sub in itertools.combinations(nz, k):
            if sum(a for _, a in sub) >= excess:
                return "+".join(m for m, _ in sub)
    return None


def check_obs(g, hist, obs, viol, cnt):
    gn = P.norm_gamma(g)
    if obs.error:
        viol.append({"klass": None, "sig": "encode-raised", "detail": f"{obs.error} hist={hist}"})
        return
    _, _, start = P.keys_of(g, hist)
    nrow = gn["nrow"]
    for pi in range(len(obs.pages)):
        total, parts, amounts = page_budget(g, hist, obs, pi, start)
        nd = len(parts["data_rows"])
        if total == nrow and nd >= 2:
            cnt["pages_exactly_full"] += 1
        if nd == 1 and total > nrow:
            cnt["single_row_overflow_pages"] += 1
        if nd >= 2 and total > nrow:
            excess = total - nrow
            klass = classify(excess, amounts)
            viol.append({"klass": klass, "sig": f"budget-exceeded-{klass}",
                         "detail": f"page {pi + 1}/{len(obs.pages)} holds {total} rows > nrow={nrow} ({parts}); excess {excess}; "
                                   f"explained amounts={ {k: v for k, v in amounts.items() if v} }; gamma={compact(gn)} hist={list(hist)}"})


def compact(g):
    return (f"{g['strategy']}/L{g['L']}/nrow{g['nrow']}/hdr={g['header']}/fn={g['footnote']}/src={g['source']}/place={','.join(g['place'])}"
            f"/font{g['font']}@{g['size']}/new_page={g['new_page']}/{g['pageby_row']}")


def eval_case(case: dict) -> dict:
    g = case["gamma"]
    viol: list = []
    cnt = {"pages_exactly_full": 0, "single_row_overflow_pages": 0}
    keep = (P.norm_gamma(g)["font"], P.norm_gamma(g)["size"]) != (1, 9)

    ntn = [0]
    sample = {}

    def visit(hist, obs, parent):
        check_obs(g, hist, obs, viol, cnt)
        if not obs.error and len(obs.pages) >= 2:
            ntn[0] += 1
            if not sample and len(hist) >= 4:
                sample.update({"gamma": compact(P.norm_gamma(g)), "history": [list(e) for e in hist],
                               "pages": [[(r if r != "data" else f"D{i[1]}x{l}") for r, i, l in pg] for pg in obs.pages]})
        obs.doc = obs.built = None

    stats = P.explore(g, case, visit, keep_doc=keep)
    # keep one representative (the shortest history) per class
    best = {}
    for v in viol:
        k = v["sig"]
        if k not in best or len(v["detail"]) < len(best[k]["detail"]):
            best[k] = dict(v, n=best.get(k, {}).get("n", 0) + 1)
        else:
            best[k]["n"] += 1
    cnt["bfs_fixpoint_reached" if (case["mode"] == "bfs" and not stats["capped"]) else "x"] = 1
    cnt.pop("x", None)
    if case["mode"] == "bfs":
        cnt["bfs_max_history_len"] = stats["max_len"]
    return {"viol": list(best.values()), "nt_n": ntn[0], "sample": sample or None, "cnt": {k: v for k, v in cnt.items() if v},
            "evals": stats["observations"], "states": len(stats["states"]), "transitions": len({(s, e) for s, e, _, _ in stats["trans"]})}


PLACES = [("all", "last", "last"), ("all", "all", "all"), ("first", "first", "first"), ("all", "first", "last"), ("last", "all", "first")]


def gammas(run):
    quick = run.tier == "quick"
    seed = run.seed
    out = []
    hdrs = ("none", "explicit", "two", "default")
    modes = (None, "table", "para")
    nrows = (2, 3, 4, 5, 6, 8, 12) if quick else (1, 2, 3, 4, 5, 6, 8, 12, 20, 30, 50)
    # plain: header x footnote x source at one nrow each (quick: rotated), all nrow at the full reservation
    k = 0
    for hm in hdrs:
        for fn, src in itertools.product(modes, repeat=2):
            for nrow in ([nrows[(seed + k) % len(nrows)]] if quick else nrows):
                out.append(({"strategy": "plain", "nrow": nrow, "header": hm, "footnote": fn, "source": src}, 5 if quick else 6))
            k += 1
    for place in PLACES[1:]:
        for nrow in ((4, 6) if quick else (3, 4, 6, 8)):
            out.append(({"strategy": "plain", "nrow": nrow, "header": "explicit", "footnote": "table", "source": "table", "place": list(place)}, 4 if quick else 5))
    # column headers shown on the first page only (pageby_header=False): page 1 must still respect the budget
    for hm in ("explicit", "two"):
        for strat, extra in (("plain", {}), ("page_by", {"L": 1, "heights": [1, 2]})):
            for nrow in ((5, 8) if quick else (4, 5, 6, 8, 12)):
                out.append(({"strategy": strat, "nrow": nrow, "header": hm, "footnote": "table", "pageby_header": False, **extra}, 4 if quick else 5))
    # the same (long) text in a wide and in a narrow column of one row: the narrow copy decides the row height
    for nrow in ((6, 10) if quick else (5, 6, 8, 10, 14)):
        out.append(({"strategy": "plain", "nrow": nrow, "header": "explicit", "dup_narrow": True, "heights": [1, 2]}, 4 if quick else 5))
    # body font / size (heights realised at the cell's own font and size)
    fs = [(1, 6), (1, 12), (1, 18), (4, 9), (9, 9), (9, 12), (4, 24)] if not quick else [(1, 12), (9, 9), (4, 18), (1, 6)]
    for font, size in fs:
        for nrow in ((5,) if quick else (4, 6, 10)):
            out.append(({"strategy": "plain", "nrow": nrow, "header": "explicit", "footnote": "table", "font": font, "size": size}, 4 if quick else 5))
    # per-column font sizes next to a removed group column (the estimate of a cell must use that cell's own size)
    for strat in ("page_by", "subline"):
        for ocs in ((5,) if quick else (5, 16)):
            for nrow in ((5,) if quick else (4, 6, 10)):
                out.append(({"strategy": strat, "L": 1, "nrow": nrow, "header": "explicit", "heights": [1, 2], "other_col_size": ocs}, 4 if quick else 5))
    # group_by whose value text wraps: the value is printed on the first row of the group AND again on the first row of every
    # continuation page (page context), where it needs its lines
    for gl in ((2,) if quick else (2, 3)):
        for nrow in ((5,) if quick else (4, 5, 7)):
            out.append(({"strategy": "group_by", "L": 1, "nrow": nrow, "header": "explicit", "heights": [1, 2], "group_by_lines": gl}, 5))
    # the consumed key column sits in the middle of the frame, widths unequal
    for strat in ("page_by", "subline"):
        out.append(({"strategy": strat, "L": 1, "nrow": 6, "header": "explicit", "heights": [1, 2], "key_not_first": True}, 4 if quick else 5))
    # rows that need their second line only because of leading blanks / no-break spaces (indentation takes width)
    for ind in ("lead", "nbsp"):
        for nrow in ((5,) if quick else (4, 6, 9)):
            out.append(({"strategy": "plain", "nrow": nrow, "header": "explicit", "heights": [1, 2], "indent_wrap": ind}, 4 if quick else 5))
    # second lines needed by FEW WIDE glyphs (W, M): extent just past the line, character count far below an average-glyph capacity
    for nrow in ((5, 10) if quick else (4, 5, 6, 9, 10)):
        for hm in ("explicit", "default"):
            out.append(({"strategy": "plain", "nrow": nrow, "header": hm, "heights": [1, 2], "wide_fill": True}, 4 if quick else 5))
    # page_by
    for L in (1, 2, 3):
        for nrow in ((4, 6) if quick else (3, 4, 5, 6, 8, 12)):
            if L == 3 and nrow < 6:
                continue
            for hm in (("explicit", "default") if quick else hdrs):
                for np_, pr in ((False, "column"), (True, "first_row")) if L == 1 else ((False, "column"),):
                    out.append(({"strategy": "page_by", "L": L, "nrow": nrow, "header": hm, "footnote": "table" if hm == "explicit" else None,
                                 "new_page": np_, "pageby_row": pr, "heights": [1, 2]}, (5 if L == 1 else 4) if quick else (6 if L == 1 else 5)))
    # subline_by (+ page_by)
    for nrow in ((3, 5) if quick else (3, 4, 5, 6, 8, 12)):
        for hm in (("explicit",) if quick else ("none", "explicit", "default")):
            out.append(({"strategy": "subline", "L": 1, "nrow": nrow, "header": hm, "source": "table", "heights": [1, 2]}, 5))
            out.append(({"strategy": "subline+page_by", "L": 1, "nrow": nrow + 1, "header": hm, "heights": [1, 2]}, 4 if quick else 5))
    return out


def plan(run):
    quick = run.tier == "quick"
    run.rule = ("per layout gamma (strategy x levels x nrow x header mode {none, explicit, two-row, default-from-column-names} x footnote/source "
                "{absent, table, paragraph} x placement x body font/size): every history of row events (heights realised at the cell's own font/size, "
                "group change per level) up to the depth, unmerged; then BFS closure over abstract page states to a fixpoint (long documents). "
                "states/transitions = abstract page states / (state,event) pairs observed; evaluations = documents executed; non-trivial = distinct histories whose document has >= 2 pages")
    run.assumptions = ["lb(row) is a lower bound on wrapped lines from font metrics; heading, header and footnote/source table rows count 1 line each (short tags)",
                       "a page holding exactly one data row is exempt (the property's only exception)"]
    cases = []
    for g, depth in gammas(run):
        gn = P.norm_gamma(g)
        # group values may also be the divider '-----' or null (neither renders a heading; neither may cost a row)
        special = gn["strategy"] == "page_by" and gn["L"] <= 2 and not gn["new_page"]
        cases += P.split_cases(g, depth if not special else max(4, depth - 1), bfs=True, bfs_caps=(300, 40) if quick else (3000, 150), split_at=6,
                               divider=special, nulls=special)
    run.layer("row-budget", "mc.props.c03:eval_case", cases, chunk=1, total=len(cases))
    run.extra["traces_validated_against_impl"] = run.evaluations
    for need in ("pages_exactly_full", "single_row_overflow_pages", "bfs_fixpoint_reached"):
        if not run.cnt.get(need):
            run.harness_errors.append({"layer": "vacuity", "case": None, "error": f"boundary counter {need} is zero"})

"""C01 - every accepted document encodes to well-formed RTF.

Configuration-graph exploration: ~30 dimensions (rows, column value classes, title/subline/header
mode/footnote/source/page header/footer, placements, orientation, paper, margins, nrow, col_width,
grouping strategy, pageby_header, attribute shapes, half-point font sizes, justification) around four
anchors (default table; paginated page_by table with all components; multi-section; figure).  Every
configuration within Hamming distance k of an anchor is built with public constructors, encoded and
read back with the strict reader.  Oracle: rtf_encode() returns (ValueError tolerated only for
non-contiguous group_by keys) and the reader reports no error.
"""
from __future__ import annotations

import os

from ..core import repo
from ..explore.ball import Space
from ..rtfreader.reader import parse
from ..spec import docspec
from ..spec.figures import make_emf, make_jpeg, make_png

PID = "C01"
LEVEL = "exploration"
TECHNIQUE = ("bounded exhaustive exploration of the configuration graph: complete Hamming balls (radius 2 quick / 3 thorough) around four anchor documents, "
             "each configuration encoded by the real code and re-read by a strict independent RTF reader")
LEVEL_TEXT = ("All configurations within k single-dimension deviations of each anchor are executed; a missing brace, a row whose \\cellx and \\cell counts differ or an "
              "internal crash shows up in combinations of at most 2-3 features, which the complete ball enumerates.")
LEVEL_NOTE = "Trusted: the strict RTF reader (self-tested on hand-written fragments and the shipped corpus). Bounds: dimension domains in mc/props/c01.py, radius as in evidence."

A4 = (8.27, 11.69)
GROUPINGS = ["none", "page_by1", "page_by2", "page_by_newpage_column", "page_by_newpage_firstrow", "subline_by", "subline_by+page_by",
             "group_by", "group_by+page_by", "group_by_noncontiguous", "group_by2", "group_by2_nulls", "page_by_nulls", "group_by+page_by_recurring", "group_by+subline_by_recurring"]

TABLE_DIMS = {
    "n": [3, 0, 1, 2, 5, 12],
    "cols": [["s", "i"], ["s"], ["s", "i", "f"], ["p", "m", "z"], ["s", "i", "f", "s", "i"], ["i", "f"], ["s", "ni", "nf"], ["u", "i", "u"], ["s", "b", "fe"], []],
    "title": [1, 0, 2],
    "subline": [False, True],
    "header": ["default", "explicit", "two", "none", "off", "explicit_long", "explicit_short"],
    "footnote": [None, "table", "table2", "para"],
    "source": [None, "para", "table", "para2"],
    "page_header": [None, "default", "text"],
    "page_footer": [None, "text"],
    "page_title": ["all", "first", "last"],
    "page_footnote": ["last", "first", "all"],
    "page_source": ["last", "first", "all"],
    "orientation": ["portrait", "landscape"],
    "paper": [None, A4, (5, 7)],
    "margin": [None, [1.1, 0.9, 1.3, 0.7, 0.55, 0.45]],
    "nrow": [None, 1, 2, 3, 5, 8],
    "col_width": [None, 4.0],
    "grouping": GROUPINGS,
    "pageby_header": [True, False],
    "text_format": [None, "b", "col", "matrix"],
    "font_size": [None, 9.5, 12, "col", "matrix"],
    "text_justification": [None, "r", "col", "matrix"],
    "border_top": [None, "double", "col", "matrix"],
    "cell_justification": [None, "l", "r", "j"],
    "text_font": [None, 4, "col"],
    "text_convert": [None, False],
    "heights": [None, "wrap"],
    "cell_vjust": [None, "center", "merge"],   # "merge": first column merge_first on row 0, merge_rest below (vertically merged cells)
    "colnames": [None, "index", "row_nr", "literal"],  # a data column carrying a name that polars / pandas helpers use by default
    "text_color": [None, "red", "col"],
    "title_color": [None, "blue"],
}
PAGED_ANCHOR = {"n": 5, "grouping": "page_by1", "nrow": 5, "header": "explicit", "footnote": "table", "source": "para", "title": 2, "subline": True,
                "page_header": "default", "page_footer": "text"}
MULTI_DIMS = {
    "nsec": [2, 3],
    "multi_header": ["nested", "flat"],
    "sec_new_page": [False, True],
    "n": [3, 1, 5],
    "n_last": [None, 0, 1, 7], "n_first": [None, 0, 1],  # row count of the last / first section when it differs from the others
    "cols2": [["s", "i"], ["s"], ["s", "i", "f"]],
    "title": [1, 0, 2], "subline": [False, True],
    "header": ["explicit", "default", "none"],
    "footnote": [None, "table", "para"], "source": [None, "para", "table"],
    "page_header": [None, "default"], "page_footer": [None, "text"],
    "page_title": ["all", "first", "last"], "page_footnote": ["last", "first", "all"], "page_source": ["last", "first", "all"],
    "orientation": ["portrait", "landscape"], "nrow": [None, 3, 5],
    "text_format": [None, "b"], "font_size": [None, 9.5],
}
FIG_DIMS = {
    "nfig": [1, 2, 3],
    "fmt": ["png", "jpeg", "mixed", "emf"],
    "title": [1, 0, 2], "subline": [False, True],
    "footnote": [None, "para"], "source": [None, "para"],
    "page_header": [None, "default", "text"], "page_footer": [None, "text"],
    "page_title": ["all", "first", "last"], "page_footnote": ["last", "first", "all"], "page_source": ["last", "first", "all"],
    "orientation": ["portrait", "landscape"], "paper": [None, A4],
    "fig_width": [None, 3, [2, 4.5]], "fig_height": [None, 2.5, [2, 3, 1]], "fig_align": [None, "left", "right"],
}


def valid_table(c):
    g = c["grouping"]
    if not c["cols"]:
        # a table whose only column(s) are group columns; needs at least one group column
        if g in ("none",) or c["heights"] == "wrap" or c["header"] in ("explicit", "two", "explicit_short"):
            return False
        return True
    if c["heights"] == "wrap" and c["cols"][0] not in ("s",):
        return False
    if c["header"] == "explicit_short" and len(c["cols"]) < 2:
        return False
    return True


def shape_value(kind, base_vals, n, ncol):
    """attribute value of a shape: scalar value / 'col' (1 x ncol) / 'matrix' (n x ncol)"""
    if kind == "col":
        return [[base_vals[j % len(base_vals)] for j in range(ncol)]]
    if kind == "matrix":
        return [[base_vals[(i + j) % len(base_vals)] for j in range(ncol)] for i in range(max(n, 1))]
    return kind


def table_spec(c):
    n = c["n"]
    cols = list(c["cols"])
    spec = {"n": n, "cols": cols, "title": c["title"], "subline": c["subline"], "header": c["header"], "footnote": c["footnote"],
            "source": c["source"], "page_header": c["page_header"], "page_footer": c["page_footer"], "pageby_header": c["pageby_header"]}
    page = {"page_title": c["page_title"], "page_footnote": c["page_footnote"], "page_source": c["page_source"], "orientation": c["orientation"]}
    if c["paper"]:
        page["width"], page["height"] = c["paper"]
        page["col_width"] = c["paper"][0] - 2.25
    if c["margin"]:
        page["margin"] = c["margin"]
    if c["nrow"]:
        page["nrow"] = c["nrow"]
    if c["col_width"]:
        page["col_width"] = c["col_width"]
    spec["page"] = page
    g = c["grouping"]
    half = [r * 2 // max(n, 1) for r in range(n)]
    third = [r * 3 // max(n, 1) for r in range(n)]
    if g == "page_by1":
        spec["page_by"] = [half]
    elif g == "page_by2":
        spec["page_by"] = [half, third]
    elif g == "page_by_newpage_column":
        spec.update(page_by=[half], new_page=True, pageby_row="column")
    elif g == "page_by_newpage_firstrow":
        spec.update(page_by=[half], new_page=True, pageby_row="first_row")
    elif g == "subline_by":
        spec["subline_by"] = [half]
    elif g == "subline_by+page_by":
        spec["subline_by"] = [half]
        spec["page_by"] = [third]
    elif g == "group_by":
        spec["group_by"] = [half]
    elif g == "group_by+page_by":
        spec["group_by"] = [third]
        spec["page_by"] = [half]
    elif g == "group_by_noncontiguous":
        spec["group_by"] = [[r % 2 for r in range(n)]]
    elif g == "group_by2":
        spec["group_by"] = [half, third]
    elif g == "group_by2_nulls":  # contiguous keys whose inner level is null on runs of rows: must be accepted
        spec["group_by"] = [half, [None if (r * 4 // max(n, 1)) % 2 == 0 else r * 4 // max(n, 1) for r in range(n)]]
    elif g == "group_by+page_by_recurring":  # page_by / subline_by values may recur (A, B, A); only group_by keys must be contiguous
        spec["group_by"] = [half]
        spec["page_by"] = [[r % 2 for r in range(n)]]
    elif g == "group_by+subline_by_recurring":
        spec["group_by"] = [half]
        spec["subline_by"] = [[(r // 2) % 2 for r in range(n)]]
    elif g == "page_by_nulls":
        spec["page_by"] = [[None if r < (n + 1) // 2 else 1 for r in range(n)]]
    ngrp = sum(len(spec.get(k) or []) for k in ("page_by", "subline_by", "group_by"))
    ncol_all = ngrp + len(cols)
    body = {}
    if c["text_format"]:
        body["text_format"] = shape_value(c["text_format"], ["b", "", "i"], n, ncol_all) if c["text_format"] in ("col", "matrix") else c["text_format"]
    if c["font_size"]:
        body["text_font_size"] = shape_value(c["font_size"], [9, 9.5, 12], n, ncol_all) if c["font_size"] in ("col", "matrix") else c["font_size"]
    if c["text_justification"]:
        body["text_justification"] = shape_value(c["text_justification"], ["l", "c", "r"], n, ncol_all) if c["text_justification"] in ("col", "matrix") else c["text_justification"]
    if c["border_top"]:
        body["border_top"] = shape_value(c["border_top"], ["single", "", "double"], n, ncol_all) if c["border_top"] in ("col", "matrix") else c["border_top"]
    if c["cell_justification"]:
        body["cell_justification"] = c["cell_justification"]
    if c["text_font"]:
        body["text_font"] = shape_value("col", [4, 1, 9], n, ncol_all) if c["text_font"] == "col" else c["text_font"]
    if c["text_convert"] is False:
        body["text_convert"] = False
    if c.get("text_color"):
        body["text_color"] = shape_value("col", ["red", "gold", "navy"], n, ncol_all) if c["text_color"] == "col" else c["text_color"]
    if c.get("title_color") and c["title"]:
        spec["title_attrs"] = {"text_color": c["title_color"]}
    if c.get("cell_vjust") == "center":
        body["cell_vertical_justification"] = "center"
    elif c.get("cell_vjust") == "merge" and n and ncol_all:
        body["cell_vertical_justification"] = [["merge_first" if r == 0 else "merge_rest"] + ["top"] * (ncol_all - 1) for r in range(n)]
    if c.get("colnames") and cols:
        spec["rename"] = {"c0": {"index": "index", "row_nr": "row_nr", "literal": "literal"}[c["colnames"]]}
    if body:
        spec["body"] = body
    if c["heights"] == "wrap" and n:
        spec["heights"] = [1 + (r % 3) for r in range(n)]
    return spec


def multi_spec(c):
    secs = []
    for si in range(c["nsec"]):
        cols = c["cols2"] if si == 1 else ["s", "i"]
        n_sec = c["n"]
        if si == c["nsec"] - 1 and c.get("n_last") is not None:
            n_sec = c["n_last"]
        if si == 0 and c.get("n_first") is not None:
            n_sec = c["n_first"]
        s = {"n": n_sec, "cols": cols, "header": c["header"]}
        if si > 0:
            s["section_new_page"] = c["sec_new_page"]
        body = {}
        if c["text_format"]:
            body["text_format"] = c["text_format"]
        if c["font_size"]:
            body["text_font_size"] = c["font_size"]
        if body:
            s["body"] = body
        secs.append(s)
    page = {"page_title": c["page_title"], "page_footnote": c["page_footnote"], "page_source": c["page_source"], "orientation": c["orientation"]}
    if c["nrow"]:
        page["nrow"] = c["nrow"]
    return {"kind": "multi", "sections": secs, "multi_header": c["multi_header"], "title": c["title"], "subline": c["subline"], "footnote": c["footnote"],
            "source": c["source"], "page_header": c["page_header"], "page_footer": c["page_footer"], "page": page}


def fig_files(nfig, fmt):
    wd = os.path.join(repo.VERIF, ".work", f"c01-{os.getpid()}")
    os.makedirs(wd, exist_ok=True)
    out = []
    for i in range(nfig):
        f = fmt if fmt != "mixed" else ("png", "jpeg", "emf")[i % 3]
        p = os.path.join(wd, f"fig{i}.{ {'png': 'png', 'jpeg': 'jpg', 'emf': 'emf'}[f] }")
        if not os.path.exists(p):
            with open(p, "wb") as fh:
                fh.write(make_png(5 + i, 4, bytes(range(50))) if f == "png" else make_jpeg(6, 3 + i, bytes(range(60))) if f == "jpeg"
                         else make_emf(bytes(range(70))))
        out.append(p)
    return out


def fig_spec(c):
    page = {"page_title": c["page_title"], "page_footnote": c["page_footnote"], "page_source": c["page_source"], "orientation": c["orientation"]}
    if c["paper"]:
        page["width"], page["height"] = c["paper"]
    spec = {"kind": "figure", "figures": fig_files(c["nfig"], c["fmt"]), "title": c["title"], "subline": c["subline"], "footnote": c["footnote"],
            "source": c["source"], "page_header": c["page_header"], "page_footer": c["page_footer"], "page": page}
    for k in ("fig_width", "fig_height", "fig_align"):
        if c[k] is not None:
            spec[k] = c[k]
    return spec


SPACES = {
    "table": (Space(TABLE_DIMS, valid_table), table_spec),
    "paged": (Space({k: ([PAGED_ANCHOR[k]] + [v for v in vals if v != PAGED_ANCHOR[k]]) if k in PAGED_ANCHOR else vals for k, vals in TABLE_DIMS.items()}, valid_table), table_spec),
    "multi": (Space(MULTI_DIMS), multi_spec),
    "figure": (Space(FIG_DIMS), fig_spec),
}


def classify(c, anchor, exc):
    """Narrow classes for the construction/encode failures already known on the pinned tree."""
    t = type(exc).__name__
    msg = str(exc)
    if anchor in ("table", "paged"):
        if c.get("header") == "off" and t == "TypeError" and "NoneType" in msg:
            return "as-colheader-false-typeerror"
        sizes = c.get("font_size")
        if sizes in (9.5, "col", "matrix") and t == "ValidationError" and "TextContent" in msg and "size" in msg:
            return "half-point-font-size-rejected"
        if c.get("cell_justification") == "j" and t == "ValueError" and "Row: Invalid justification" in msg:
            return "cell-justification-j-accepted-then-refused"
        if not c.get("cols") and (t == "ZeroDivisionError" or (t == "ValidationError" and "cols must be positive" in msg)):
            # no data column is left to render (ZeroDivisionError in the width computation; with zero rows the
            # empty-page fallback fails on a 0-column dimension instead)
            return "no-column-left-after-group-column-removal"
        if c.get("header") == "explicit_long" and t == "IndexError":
            return "header-with-more-texts-than-widths-indexerror"
    if anchor == "multi" and c.get("font_size") == 9.5 and t == "ValidationError" and "TextContent" in msg:
        return "half-point-font-size-rejected"
    return None


def eval_case(case: dict) -> dict:
    anchor = case["anchor"]
    c = case["config"]
    space, mk = SPACES[anchor]
    try:
        spec = mk(c)
    except Exception as e:
        return {"harness_error": f"spec builder: {type(e).__name__}: {e}"}
    viol = []
    stage = "construct"
    try:
        b = docspec.build(spec)
        stage = "encode"
        out = b.doc.rtf_encode()
    except Exception as e:  # noqa: BLE001
        t = type(e).__name__
        if stage == "construct":
            # constructors may refuse a configuration (that is C19's subject); it is then not "accepted at construction"
            return {"viol": [], "nt": False, "cnt": {"rejected_at_construction": 1, f"rejected:{t}": 1}}
        if anchor in ("table", "paged") and c.get("grouping") == "group_by_noncontiguous" and isinstance(e, ValueError) and c.get("n", 0) >= 3:
            return {"viol": [], "nt": True, "cnt": {"noncontiguous_refused": 1}}
        klass = classify(c, anchor, e)
        return {"viol": [{"klass": klass, "sig": f"encode-raised-{t}-{klass}", "detail": f"rtf_encode() raised {t}: {str(e)[:160]} for deviations {case.get('dev')} of anchor '{anchor}'"}],
                "nt": True, "cnt": {"encode_raised": 1}}
    if anchor in ("table", "paged") and c.get("grouping") == "group_by_noncontiguous" and c.get("n", 0) >= 3:
        viol.append({"klass": None, "sig": "noncontiguous-group-by-rendered", "detail": f"non-contiguous group_by keys were rendered; deviations {case.get('dev')}"})
    d = parse(out)
    for code, off, detail in d.errors[:3]:
        viol.append({"klass": None, "sig": f"malformed-{code}", "detail": f"{code} at byte {off}: {detail}; near {out[max(0, off - 30):off + 30]!r}; deviations {case.get('dev')} of anchor '{anchor}'"})
    nrows = sum(1 for pg in d.pages for blk in pg.blocks if blk.kind == "row")
    npic = sum(1 for pg in d.pages for blk in pg.blocks if blk.kind == "pict")
    return {"viol": viol, "nt": (nrows > 0 or npic > 0) and bool(case.get("dev")), "cnt": {"encoded": 1, "pages>=2": len(d.pages) >= 2, "table_rows": nrows, "pictures": npic},
            "sample": {"anchor": anchor, "deviations": case.get("dev"), "bytes": len(out), "pages": len(d.pages), "table_rows": nrows, "pictures": npic,
                       "reader_errors": len(d.errors)}} if len(case.get("dev") or {}) == 2 else {"viol": viol, "nt": (nrows > 0 or npic > 0) and bool(case.get("dev")),
            "cnt": {"encoded": 1, "pages>=2": len(d.pages) >= 2, "table_rows": nrows, "pictures": npic}}


def plan(run):
    quick = run.tier == "quick"
    anchors = list(SPACES)
    run.rule = ("configuration = assignment of the dimension domains listed in mc/props/c01.py; enumerated = complete Hamming ball around each of the anchors "
                "{default table, paginated page_by table with all components, multi-section, figure}: quick radius 2 around every anchor, thorough radius 3 around table/paged and full radius 3 around multi/figure. "
                "non-trivial = distinct configuration that differs from its anchor and produced >= 1 table row or picture")
    run.assumptions = ["texts are free of raw RTF metacharacters except the default page-number field", "a configuration refused by a constructor is not 'accepted at construction' (counted, C19's subject)"]
    main = anchors[run.seed % 4]
    total_edges = 0
    for a in anchors:
        space, _ = SPACES[a]
        if quick:
            k = 2
        else:
            k = 3
        cases = ({"anchor": a, "config": c, "dev": dev} for c, dev in space.ball(k))
        n = space.size(k)
        total_edges += space.edges(k)
        run.layer(f"ball-{a}-radius-{k}", "mc.props.c01:eval_case", cases, chunk=50, total=n)
    run.extra["configuration_graph_nodes"] = run.evaluations
    run.extra["configuration_graph_edges"] = total_edges
    predicted = run.evaluations
    rejected = run.cnt.get("rejected_at_construction", 0)
    run.extra["rejected_at_construction"] = rejected
    if predicted and rejected > 0.1 * predicted:
        run.harness_errors.append({"layer": "vacuity", "case": None, "error": f"{rejected} of {predicted} configurations were refused at construction (vacuity floor 90%)"})
    if not run.cnt.get("noncontiguous_refused"):
        run.harness_errors.append({"layer": "vacuity", "case": None, "error": "no non-contiguous group_by configuration was refused"})

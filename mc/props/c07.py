"""C07 - table edges are closed by the documented border hierarchy on every page.

Space (exhaustive, see plan()): footnote{absent,table,para} x source{...} x page_footnote x page_source
x header{explicit,none} x strategy{plain,page_by,subline_by} x size class (1 / 2-3 / 3+ pages)
x user-border mode {default, scalar, per column} x style assignment (every one of the 14 distinct
border styles in every one of the four page/body settings, by rotation; plus the 3^4 product of
three disjoint style triples) x page_title; full per-cell user-border matrices on interior rows
(one-page documents); header variants (auto header, two header rows, pageby_header=False);
2- and 3-section documents for the first/last clauses.

Oracle (declarative, from the property text and docs/articles/pagination.md "Three-tier border
hierarchy"); only border *styles* of \\clbrdrt/\\clbrdrb/\\clbrdrl/\\clbrdrr are compared:

  (1) top edge of the first table row of the document            = rtf_page.border_first
  (2) bottom edge of the last table row of the document          = rtf_page.border_last
  (3) bottom edge of the last table row of every non-last page   = rtf_body.border_last
  (4) top edge of the first data row of every page               = rtf_body.border_first
      (rtf_page.border_first on page 1 when there is no column header)
  (5) every other data-cell top/bottom edge, every left edge and the right edge of the row's
      last cell                                                   = the user's border_top/bottom/left/right

"table row" = a parsed \\trowd..\\row block; rows and cells are identified by sentinel tags only.
"""
from __future__ import annotations

import itertools

from ..rtfreader.reader import parse
from ..spec import docspec

PID = "C07"
LEVEL = "exploration"
TECHNIQUE = ("bounded exhaustive enumeration of the border/placement/strategy product on the real encoder; "
             "declarative five-clause edge oracle on the re-parsed RTF, every edge identified by a style unique to its source")
LEVEL_TEXT = ("exploration, exhaustive inside the stated bound: every configuration of the finite product is built, encoded by "
              "the real code, re-read and judged. The property is a forall over a configuration space whose failures are "
              "combination-specific (placement x as_table x page count), which is what a full product reaches and examples do not.")
LEVEL_NOTE = ("trusted: the independent RTF reader and the sentinel-tag role classification; the style-name -> RTF control word "
              "table below (from the RTF specification, not read from rtflite); widths/colours of borders are C09's")

# style name -> RTF control word (RTF 1.9.1 specification).  'striped' and 'engraved' share a
# code in rtflite and cannot identify their source; only one of them is in the alphabet.
CODE = {
    "single": "brdrs", "double": "brdrdb", "thick": "brdrth", "dotted": "brdrdot", "dashed": "brdrdash",
    "small-dash": "brdrdashsm", "dash-dotted": "brdrdashd", "dash-dot-dotted": "brdrdashdd", "triple": "brdrtriple",
    "wavy": "brdrwavy", "double-wavy": "brdrwavydb", "embossed": "brdremboss", "engraved": "brdrengrave",
    "frame": "brdrframe", "": None,
}
STYLES = [s for s in CODE if s]          # 14 pairwise distinct codes
PLACE = ("first", "last", "all")
SIDES = {"t": "top", "b": "bottom", "l": "left", "r": "right"}
USER_DEFAULT = {"top": "", "bottom": "", "left": "single", "right": "single"}
# defaults of table-rendered footnote/source rows (documented: as_table=True -> single l/r/t, no bottom)
COMPONENT_BOTTOM_DEFAULT = None

K_PARA = "closing-border-dropped-when-paragraph-component-on-page"
K_FIRST1 = "first-placed-table-component-not-closed-on-single-page"
K_PERCOL = "per-column-border-top-overrides-body-border-first"
K_MULTI_TOP = "multi-section-headerless-first-section-top-is-body-border-first"
K_OFF_DEFAULT = "as-colheader-false-with-textless-header-top-is-body-border-first"
# RTFBody(as_colheader=False) + RTFColumnHeader without text renders NO header row, but the first data row still gets
# rtf_body.border_first instead of rtf_page.border_first on the unchanged tree (reported to the lead; proposed finding in
# notes/proposed_findings/C07.json).  The cell is enumerated only when this is True.
ENUMERATE_ASCOLHEADER_OFF_WITH_TEXTLESS_HEADER = True


def got_style(cell, side):
    v = cell.borders.get(side)
    if not v:
        return None
    s = v[0]
    return None if s in (None, "brdrnone", "brdrnil") else s


def user_style(body_kw, side_name, r, orig_idx):
    """The style the user asked for at ABSOLUTE data row r, original column orig_idx.  A value with fewer rows than the
    table is a row pattern that is recycled down the rows (rtflite / r2rtf broadcast rule); {"tuple": [...]} stands for the
    Python tuple form, which rtflite reads as one value per ROW."""
    v = body_kw.get(f"border_{side_name}", USER_DEFAULT[side_name])
    if isinstance(v, str):
        return v
    if isinstance(v, dict):
        t = v["tuple"]
        return t[r % len(t)]
    if v and isinstance(v[0], list):
        row = v[r % len(v)]
        return row[orig_idx % len(row)]
    return v[orig_idx % len(v)]    # flat per-column vector


def _materialise(spec):
    """JSON-able case -> constructor arguments: {"tuple": [...]} becomes a tuple."""
    body = spec.get("body")
    if body and any(isinstance(v, dict) and "tuple" in v for v in body.values()):
        spec = dict(spec)
        spec["body"] = {k: (tuple(v["tuple"]) if isinstance(v, dict) and "tuple" in v else v) for k, v in body.items()}
    return spec


def _selected(option, i, n):
    return option == "all" or (option == "first" and i == 0) or (option == "last" and i == n - 1)


def _row_edge(row, side):
    return [got_style(c, side) for c in row.cells]


def _fmt(codes):
    s = set(codes)
    return (next(iter(s)) or "none") if len(s) == 1 else "/".join(c or "none" for c in codes)


def eval_case(case: dict) -> dict:
    """Build the document once, encode it `_encodes` times (default 1) and judge EVERY output by the
    same declarative oracle: the property holds for each encode of a document, not only the first."""
    spec = dict(case)
    spec.pop("_layer", None)
    n_enc = spec.pop("_encodes", 1)
    try:
        b = docspec.build(_materialise(spec))
        outs = [b.doc.rtf_encode() for _ in range(n_enc)]
    except Exception as e:  # every configuration of the space is valid
        return {"viol": [{"klass": None, "sig": f"encode-raised-{type(e).__name__}", "detail": f"{type(e).__name__}: {e}"}],
                "nt": False, "cnt": {"encode-raised": 1, "multi" if spec.get("kind") == "multi" else "single": 1}}
    res = _judge(spec, b, outs[0])
    for k, out in enumerate(outs[1:], start=2):
        rk = _judge(spec, b, out)
        res.setdefault("cnt", {})["repeated-encodes-judged"] = res.get("cnt", {}).get("repeated-encodes-judged", 0) + 1
        for v in rk.get("viol") or []:
            res["viol"].append({"klass": v["klass"], "sig": v["sig"] if v["klass"] else f"encode{k}-{v['sig']}",
                                "detail": f"encode #{k} of the same document: {v['detail']}"})
    return res


def _own_bottom(spec, b, role, info, ncells):
    """The bottom style the user asked for on that row itself (single-section documents)."""
    if role == "data":
        body_kw = spec.get("body") or {}
        return [CODE[user_style(body_kw, "bottom", info[1], b.colnames.index(cn))] for cn in b.shown[:ncells]]
    key = {"footnote_table": "footnote_attrs", "source_table": "source_attrs"}.get(role)
    if key is None:
        return [None] * ncells
    v = (spec.get(key) or {}).get("border_bottom", "")
    return [CODE[v]] * ncells


def _closing_wrong(spec, b, row, role, info, setting, multi):
    """Does the closing row violate its clause?  A non-empty setting must be on every cell.  The EMPTY
    setting ('') is ambiguous between "no line" and "no override"; read the only safe way: each cell shows
    either nothing or the row's own requested border_bottom - in particular never the other tier's style."""
    got = _row_edge(row, "b")
    if setting is not None:
        return any(g != setting for g in got)
    own = [None] * len(got) if multi else _own_bottom(spec, b, role, info, len(got))
    return any(g is not None and g != own[j] for j, g in enumerate(got))


def _judge(spec, b, out) -> dict:
    viol, cnt = [], {}

    def bump(k, v=1):
        cnt[k] = cnt.get(k, 0) + v

    doc = parse(out)
    if doc.errors:
        viol.append({"klass": None, "sig": "unparseable-" + doc.errors[0][0], "detail": str(doc.errors[:3])})
    multi = spec.get("kind") == "multi"
    pk = spec.get("page") or {}
    PF, PL = CODE[pk.get("border_first", "double")], CODE[pk.get("border_last", "double")]
    pf_opt, ps_opt = pk.get("page_footnote", "last"), pk.get("page_source", "last")
    n_pages = len(doc.pages)

    # ---- parsed structure: per page the list of (row block, role, info)
    pages = []
    for pg in doc.pages:
        rows = []
        paras = []
        for bl in pg.blocks:
            role, info = docspec.block_role(bl)
            if bl.kind == "row":
                if role == "row_other" and len(bl.cells) == 1 and not bl.cells[0].text.strip():
                    # a blank-text footnote/source spacer cannot carry a tag: a single-cell blank row, told apart by its exact text
                    t = bl.cells[0].text
                    if spec.get("footnote_text") is not None and t == spec["footnote_text"]:
                        role = "footnote_table"
                        bump("blank-text-component-rows")
                    elif spec.get("source_text") is not None and t == spec["source_text"]:
                        role = "source_table"
                        bump("blank-text-component-rows")
                rows.append((bl, role, info))
            elif role in ("footnote_para", "source_para"):
                paras.append(role)
        pages.append((rows, paras))
    all_rows = [(pi, i, t) for pi, (rows, _) in enumerate(pages) for i, t in enumerate(rows)]
    if not all_rows:
        return {"viol": viol + [{"klass": None, "sig": "no-table-row", "detail": "document without any table row"}], "nt": False}

    strat = "page_by" if spec.get("page_by") else "subline_by" if spec.get("subline_by") else "plain"
    if multi:
        strat = "multi"
    # "is there a column header above the first data row" is decided from what is RENDERED on page 1 (a header row in
    # front of the first data row), not from how the configuration spells it (explicit text, [], [None], as_colheader)
    p0 = pages[0][0]
    first_data_p0 = next((i for i, t in enumerate(p0) if t[1] == "data"), len(p0))
    has_header = any(t[1] == "header" for t in p0[:first_data_p0])
    bump("first-page-header=" + ("rendered" if has_header else "absent"))
    # the property excludes page_by without column headers from the top-edge clause(s)
    skip_top = strat == "page_by" and not has_header

    def bad(clause, where, want, row, side, klass=None, sigx=""):
        got = _row_edge(row, side)
        viol.append({"klass": klass, "sig": f"{clause}{sigx}" if klass is None else klass,
                     "detail": f"{clause}: {where}: {SIDES[side]} edge is {_fmt(got)}, expected {want or 'none'} "
                               f"[{strat}, header={'yes' if has_header else 'no'}, pages={n_pages}, footnote={spec.get('footnote')}/{pf_opt}, "
                               f"source={spec.get('source')}/{ps_opt}]"})

    # ---- clause 1: first table row of the document
    first_pi, _, (frow, frole, _finfo) = all_rows[0]
    if skip_top:
        bump("c1-excluded-page_by-without-header")
    else:
        bump("c1-edges")
        if first_pi != 0:
            viol.append({"klass": None, "sig": "first-page-without-table-row", "detail": "page 1 has no table row"})
        if any(g != PF for g in _row_edge(frow, "t")):
            klass = None
            if (not multi and not has_header and frole == "data" and spec.get("as_colheader") is False
                    and spec.get("header", "default") == "default"
                    and all(g == CODE[(spec.get("body") or {}).get("border_first", "single")] for g in _row_edge(frow, "t"))):
                klass = K_OFF_DEFAULT
            if multi and not has_header and frole == "data":
                # narrow: [None] headers for section 1 count as "has column headers", so the first data
                # row gets section 1's body border_first (all cells) instead of the page border_first
                bf1 = CODE[(spec["sections"][0].get("body") or {}).get("border_first", "single")]
                if all(g == bf1 for g in _row_edge(frow, "t")):
                    klass = K_MULTI_TOP
            bad("clause1-doc-top", f"first table row of the document ({frole})", PF, frow, "t", klass=klass, sigx=f"-{frole}")

    # ---- clause 2: last table row of the document
    last_pi, _, (lrow, lrole, _linfo) = all_rows[-1]
    bump("c2-edges")
    bump(f"doc-closing-row={lrole}")
    c2_failed = _closing_wrong(spec, b, lrow, lrole, _linfo, PL, multi)
    if PL is None:
        bump("c2-empty-page-border_last")
    tbl_comp = [(k, o) for k, o in (("footnote", pf_opt), ("source", ps_opt)) if (spec.get(k) or "").startswith("table")]
    # narrow class B: one-page document (multi-section: one-page last section), every table-rendered component is placed "first", the
    # component row (which closes the table) shows its own default bottom (none) and the page
    # border_last sits on the last data row instead.
    last_data_on_last_page = [t for t in pages[last_pi][0] if t[1] == "data"]
    if multi:   # the table part that the component closes = the last section; is it on one page?
        last_tag = "ABCDE"[len(spec["sections"]) - 1]
        on_pages = {pi for pi, _, (_r, role, info) in all_rows if role == "data" and info[0] == last_tag}
        single_page = on_pages == {last_pi}
    else:
        single_page = n_pages == 1
    first1 = (single_page and lrole in ("footnote_table", "source_table") and tbl_comp
              and all(o == "first" for _, o in tbl_comp) and last_data_on_last_page
              and all(g == COMPONENT_BOTTOM_DEFAULT for g in _row_edge(lrow, "b"))
              and all(g == PL for g in _row_edge(last_data_on_last_page[-1][0], "b")))
    if c2_failed:
        bad("clause2-doc-bottom", f"last table row of the document ({lrole}, page {last_pi + 1}/{n_pages})",
            PL or "none or the row's own border_bottom (rtf_page.border_last='')", lrow, "b",
            klass=K_FIRST1 if first1 else None, sigx=f"-{lrole}" + ("-empty-setting" if PL is None else ""))
    if last_pi != n_pages - 1:
        viol.append({"klass": None, "sig": "last-page-without-table-row", "detail": f"last table row is on page {last_pi + 1}/{n_pages}"})

    if multi:
        # ---- clause 5 where it is safe in a multi-section document: rows inside a section and the rows
        # where two sections meet on the same page.  A section joint is neither the first / last table row
        # of the document nor a page boundary, so those edges are "other" edges: the user's own borders.
        tags = "ABCDE"
        for pi, (rows, _paras) in enumerate(pages):
            for i, (row, role, info) in enumerate(rows):
                if role != "data" or info[0] not in tags[:len(spec["sections"])]:
                    continue
                si, r = tags.index(info[0]), info[1]
                sspec, sb = spec["sections"][si], b.sections[si]
                skw = sspec.get("body") or {}
                if len(row.cells) != len(sb.shown):
                    viol.append({"klass": None, "sig": "data-row-cell-count", "detail": f"section {si + 1} row {r}: {len(row.cells)} cells"})
                    continue
                oidx = [sb.colnames.index(cn) for cn in sb.shown]
                where = f"section {si + 1}/{len(spec['sections'])} data row {info[0]}{r} (page {pi + 1}/{n_pages})"
                prev = rows[i - 1] if i > 0 else None
                nxt = rows[i + 1] if i + 1 < len(rows) else None
                # top: preceded on the same page by a data row of the same section (interior), or first row of a
                # later header-less section that continues below other table rows of the page (section joint)
                same_sec_above = prev is not None and prev[1] == "data" and prev[2][0] == info[0]
                joint_top = (r == 0 and si > 0 and prev is not None and sspec.get("header", "default") == "none")
                if same_sec_above or joint_top:
                    bump("multi-c5-joint-top-edges" if joint_top else "multi-c5-edges")
                    want = [CODE[user_style(skw, "top", r, k)] for k in oidx]
                    if _row_edge(row, "t") != want:
                        bad("clause5-multi-user-top", where + (", first row of a header-less later section" if joint_top else ""),
                            _fmt(want), row, "t", sigx="-joint" if joint_top else "")
                # bottom: followed by another table row on the same page and not the last table row of the document
                if nxt is not None and row is not lrow:
                    joint_bottom = not (nxt[1] == "data" and nxt[2][0] == info[0])
                    bump("multi-c5-joint-bottom-edges" if joint_bottom else "multi-c5-edges")
                    want = [CODE[user_style(skw, "bottom", r, k)] for k in oidx]
                    if _row_edge(row, "b") != want:
                        bad("clause5-multi-user-bottom", where + f", followed by {nxt[1]}" + (" (section joint)" if joint_bottom else ""),
                            _fmt(want), row, "b", sigx="-joint" if joint_bottom else "")
                bump("multi-c5-edges", 2)
                want = [CODE[user_style(skw, "left", r, k)] for k in oidx]
                if _row_edge(row, "l") != want:
                    bad("clause5-multi-user-left", where, _fmt(want), row, "l")
                wr = CODE[user_style(skw, "right", r, oidx[-1])]
                if got_style(row.cells[-1], "r") != wr:
                    viol.append({"klass": None, "sig": "clause5-multi-user-right",
                                 "detail": f"clause5-multi-user-right: {where}: right edge of the last cell is "
                                           f"{got_style(row.cells[-1], 'r') or 'none'}, expected {wr or 'none'}"})
        nt = n_pages >= 2 or lrole != "data"
        return {"viol": viol, "nt": nt, "cnt": {**cnt, "multi": 1, f"multi-pages={min(n_pages, 4)}": 1},
                "sample": {"first": [frole, _row_edge(frow, "t")], "last": [lrole, _row_edge(lrow, "b")], "pages": n_pages}
                if n_pages > 1 and lrole != "data" else None}

    body_kw = spec.get("body") or {}
    BF, BL = CODE[body_kw.get("border_first", "single")], CODE[body_kw.get("border_last", "single")]
    order, shown = b.colnames, b.shown
    percol_top = not isinstance(body_kw.get("border_top", ""), str)

    # ---- per page: clauses 3, 4, 5
    for pi, (rows, paras) in enumerate(pages):
        if not rows:
            viol.append({"klass": None, "sig": "page-without-table-row", "detail": f"page {pi + 1}/{n_pages}"})
            continue
        data = [(i, t) for i, t in enumerate(rows) if t[1] == "data"]
        if not data:
            viol.append({"klass": None, "sig": "page-without-data-row", "detail": f"page {pi + 1}/{n_pages}"})
            continue
        last_i = len(rows) - 1
        lastrow, lastrole, _ = rows[last_i]
        if len(data) == 1:
            bump("one-data-row-pages")
            if pi < n_pages - 1:
                bump("one-data-row-pages-followed-by-pages")
        # clause 3
        if pi < n_pages - 1:
            bump("c3-edges")
            bump(f"page-closing-row={lastrole}")
            if BL is None:
                bump("c3-empty-body-border_last")
            if _closing_wrong(spec, b, lastrow, lastrole, rows[last_i][2], BL, False):
                klass = None
                if lastrole == "data" and paras:
                    r = lastrow_r = rows[last_i][2][1]
                    own = [CODE[user_style(body_kw, "bottom", lastrow_r, order.index(cn))] for cn in shown[:len(lastrow.cells)]]
                    if _row_edge(lastrow, "b") == own:
                        klass = K_PARA   # nothing was applied: the row shows exactly the user's own border_bottom
                bad("clause3-page-bottom", f"last table row before the break after page {pi + 1}/{n_pages} ({lastrole})",
                    BL or "none or the row's own border_bottom (rtf_body.border_last='')",
                    lastrow, "b", klass=klass if BL is not None else None, sigx=f"-{lastrole}" + ("-empty-setting" if BL is None else ""))
        first_data_i = data[0][0]
        for i, (row, role, info) in data:
            r = info[1]
            if len(row.cells) != len(shown):
                viol.append({"klass": None, "sig": "data-row-cell-count", "detail": f"row D{r}: {len(row.cells)} cells, {len(shown)} columns shown"})
                continue
            oidx = [order.index(cn) for cn in shown]
            # top edge
            if i == first_data_i:
                if skip_top:
                    bump("c4-excluded-page_by-without-header")
                elif (pi, i) == (0, 0):
                    pass  # this edge is clause 1's (no column header: page border_first)
                else:
                    want = PF if (pi == 0 and not has_header) else BF
                    bump("c4-edges")
                    got = _row_edge(row, "t")
                    if any(g != want for g in got):
                        klass = None
                        if percol_top and want == BF:
                            own = [CODE[user_style(body_kw, "top", 0, k)] for k in range(len(row.cells))]
                            own_aligned = [CODE[user_style(body_kw, "top", r, k)] for k in oidx]
                            # explained completely by: a non-empty per-column user border_top replaces
                            # border_first in that column (looked up by shown position or by original column)
                            if all(g == BF or (g is not None and g in (own[j], own_aligned[j])) for j, g in enumerate(got)):
                                klass = K_PERCOL
                        bad("clause4-first-data-row-top", f"first data row D{r} of page {pi + 1}/{n_pages}", want, row, "t", klass=klass)
            else:
                bump("c5-edges")
                want = [CODE[user_style(body_kw, "top", r, k)] for k in oidx]
                if _row_edge(row, "t") != want:
                    bad("clause5-user-top", f"data row D{r} (page {pi + 1}/{n_pages}, not first on its page)", _fmt(want), row, "t")
            # bottom edge
            if i != last_i:
                bump("c5-edges")
                want = [CODE[user_style(body_kw, "bottom", r, k)] for k in oidx]
                got = _row_edge(row, "b")
                if got != want:
                    klass = K_FIRST1 if (first1 and i == data[-1][0] and all(g == PL for g in got)) else None
                    bad("clause5-user-bottom", f"data row D{r} (page {pi + 1}/{n_pages}, followed by {rows[i + 1][1]})", _fmt(want), row, "b",
                        klass=klass)
            # left edges, right edge of the last cell
            bump("c5-edges", 2)
            want = [CODE[user_style(body_kw, "left", r, k)] for k in oidx]
            if _row_edge(row, "l") != want:
                bad("clause5-user-left", f"data row D{r} page {pi + 1}", _fmt(want), row, "l")
            wr = CODE[user_style(body_kw, "right", r, oidx[-1])]
            if got_style(row.cells[-1], "r") != wr:
                viol.append({"klass": None, "sig": "clause5-user-right",
                             "detail": f"clause5-user-right: data row D{r} page {pi + 1}: right edge of the last cell is "
                                       f"{got_style(row.cells[-1], 'r') or 'none'}, expected {wr or 'none'}"})

    cls = "1" if n_pages == 1 else "2" if n_pages == 2 else "3" if n_pages == 3 else "many"
    bump(f"pages={cls}")
    bump(f"{strat}:pages={cls}")
    nt = n_pages >= 2 or lrole in ("footnote_table", "source_table")
    sample = None
    if n_pages == 2 and lrole != "data" and strat != "plain":
        sample = {"pages": [[(role, _fmt(_row_edge(row, "t")), _fmt(_row_edge(row, "b"))) for row, role, _ in rows] for rows, _ in pages]}
    return {"viol": viol, "nt": nt, "cnt": cnt, "sample": sample}


# --------------------------------------------------------------------------- enumeration

NCOL = 3
COLS = ["s", "i", "s"]
# (rows, nrow): one page / two-three pages / three and more, for every reservation of the product
SIZES = {"1": (4, 40), "2": (7, 7), "3": (11, 6)}


def keys_for(strat, size_cls, n):
    if strat == "plain":
        return {}
    if strat == "page_by":
        return {"page_by": [[r * 2 // n for r in range(n)]]}
    if size_cls == "1":
        return {"subline_by": [[0] * n]}
    return {"subline_by": [[r * 2 // n for r in range(n)]]}


def assignment(k):
    """k-th rotation of the 14 styles over the roles: every style visits every role."""
    s = [STYLES[(k + i) % len(STYLES)] for i in range(10)]
    return dict(zip(("PF", "PL", "BF", "BL", "UT", "UB", "UT2", "UB2", "UL", "UR"), s))


def user_borders(mode, a, ncols_orig, n):
    if mode == "default":
        return {}
    if mode == "scalar":
        return {"border_top": a["UT"], "border_bottom": a["UB"], "border_left": a["UL"], "border_right": a["UR"]}
    if mode == "percol":
        def vec(x, y):
            return [[(x, y, "")[c % 3] for c in range(ncols_orig)]]
        return {"border_top": vec(a["UT"], a["UT2"]), "border_bottom": vec(a["UB"], a["UB2"]),
                "border_left": vec(a["UL"], a["UR"]), "border_right": vec(a["UR"], a["UL"])}
    if mode in ("rows2t", "rows3t", "rows2m", "rows3m"):
        # row patterns SHORTER than the table: k = 2 / 3 values, as a tuple (k x 1) or as a list of k rows (k x ncol)
        k = int(mode[4])
        top = [a["UT"], "", a["UT2"]][:k]
        bot = ["", a["UB"], a["UB2"]][:k]
        if mode.endswith("t"):
            return {"border_top": {"tuple": top}, "border_bottom": {"tuple": bot}, "border_left": a["UL"], "border_right": a["UR"]}
        def rows(vals, alt):
            return [[(x, alt, "")[(i + c) % 3] if x else ("", alt)[c % 2] for c in range(ncols_orig)] for i, x in enumerate(vals)]
        return {"border_top": rows(top, a["UB2"] if k == 2 else a["UB"]), "border_bottom": rows(bot, a["UT"]),
                "border_left": a["UL"], "border_right": a["UR"]}
    if mode == "matrix":   # per-cell, non-default on interior rows only (one-page documents)
        def mat(x, y):
            return [[("" if r in (0, n - 1) else (x, y, "")[(r + c) % 3]) for c in range(ncols_orig)] for r in range(n)]
        return {"border_top": mat(a["UT"], a["UT2"]), "border_bottom": mat(a["UB"], a["UB2"])}
    raise ValueError(mode)


def table_spec(fn, src, pf, ps, hm, strat, size_cls, a, umode, pt="all", size=None, **more):
    n, nrow = size or SIZES[size_cls]
    spec = {"n": n, "cols": COLS, "title": 1, "footnote": fn, "source": src, "header": hm,
            "page": {"nrow": nrow, "page_title": pt, "page_footnote": pf, "page_source": ps,
                     "border_first": a["PF"], "border_last": a["PL"]}}
    spec.update(keys_for(strat, size_cls, n))
    ncols_orig = NCOL + (1 if strat != "plain" else 0)
    spec["body"] = {"border_first": a["BF"], "border_last": a["BL"], **user_borders(umode, a, ncols_orig, n)}
    spec.update(more)
    return spec


MODES = (None, "table", "para")


def core_cells():
    for fn, src in itertools.product(MODES, repeat=2):
        for pf, ps in itertools.product(PLACE, repeat=2):
            for hm in ("explicit", "none"):
                yield fn, src, pf, ps, hm


def plan(run):
    quick = run.tier == "quick"
    run.rule = (
        "core = footnote{absent,table,para} x source{absent,table,para} x page_footnote{first,last,all} x page_source{...} x "
        "header{explicit,none} (162 cells) x strategy{plain,page_by,subline_by} x size class{1 page, 2-3, 3+} x user borders "
        "{default, scalar, per column} x style rotation (14 rotations put each of the 14 distinct styles into each of "
        "rtf_page.border_first/last, rtf_body.border_first/last and the user's top/bottom/left/right; quick: 2 seed-rotated rotations (the second with scalar user borders only), "
        "thorough: all 14) x page_title (quick: one seed-rotated value; thorough: all 3 for rotations 0/5/10, one value for the others); 3^4 product of three disjoint style triples over "
        "the four settings x a 2-page anchor set; per-cell user-border matrices on interior rows of one-page documents; header variants "
        "(auto header, two header rows, pageby_header=False); exactly one of rtf_page.border_last / rtf_body.border_last = '' with distinct own "
        "border_bottom on table-rendered footnote/source x the 162 cells x sizes (x strategies), each document encoded twice and both outputs judged; "
        "rtf_body.as_colheader {True, False} x header {explicit text, [], text-less} x strategies x sizes (the combination False + text-less header is "
        "left out: see ENUMERATE_ASCOLHEADER_OFF_WITH_TEXTLESS_HEADER); "
        "pages with exactly one data row (first / middle / last page; page_by new_page=True with pageby_row='column' and group sizes [1,3] [2,1,2] [3,1] [1,1,2]; "
        "plain tables with a one-row tail page) under per-column 1 x ncol user borders, each document encoded twice and both outputs judged; "
        "footnote / source with EMPTY text in every spelling ('', [], [''], None) as table and as paragraph x placements x sizes; user borders as row "
        "patterns shorter than the table (k = 2, 3; tuple and list-of-rows form) x page sizes not multiples of k x plain / page_by(new_page, column); "
        "table-rendered footnote / source with blank texts ' ' / '  ' (each alone, both, next to a paragraph one) x placements x sizes; "
        "2- and 3-section documents, distinct user styles per section, sections with / without headers (clauses 1, 2 and clause 5 inside sections and at section joints). "
        "non-trivial = >= 2 pages or a table-rendered footnote/source closes the table; distinct = distinct spec")
    run.assumptions = [
        "the RTF reader (mc/rtfreader) and the role classification by sentinel tags are correct; a side without \\clbrdrX or without a style word is 'no border'",
        "only border styles are compared; widths and colours belong to C09",
        "a user border value with fewer rows than the table is a pattern recycled down the ABSOLUTE data rows (the library's documented broadcast rule)",
        "a blank-text footnote/source row carries no tag and is recognised as the single-cell blank row with exactly the configured text; the closing clauses "
        "are applied to whatever is the last table row of the page / document",
        "the four page/body settings range over the 14 non-empty styles with distinct RTF codes ('striped' shares the code of 'engraved' and is left out; "
        "'' as rtf_page.border_last or rtf_body.border_last (exactly one of them, layer one-empty-closing-style-encoded-twice) is ambiguous "
        "between 'no line' and 'no override' and is read the safe way: the closing row shows nothing or its own requested border_bottom, never "
        "another style; '' / None for border_first settings is not enumerated)",
        "documents of the empty-closing-style layer are encoded twice and both outputs are judged by the same oracle (the property holds for every encode)",
        "page_by without column headers is excluded from both top-edge statements (first table row of the document, first data row of a page), as the property's quantifier says",
        "'there is no column header' is decided from the rendered output: no header row in front of the first data row of page 1",
        "with page_by and column headers 'the first data row of every page' is read literally: the first row carrying data cells, i.e. the row below the group heading row",
        "interior vertical edges are observed as the left edge of the right-hand cell; border_right is demanded on the last cell of a row only",
        "full per-row user-border matrices are enumerated on one-page documents only: on later pages the matrix is re-based per page (C09's finding), which is not this property's subject",
        "multi-section documents (sections continue on the same page: new_page=False) are judged on the first and last clauses and on clause 5 where it is "
        "safe: edges between two rows that follow each other on the same page - inside a section, and where sections meet (bottom of a section's last "
        "data row when another table row follows on the page; top of the first row of a later section WITHOUT column header). A section joint is neither "
        "the first/last table row of the document nor a page boundary. Not judged: the top of a later section's first row under its own column header "
        "(per-section border_first is a defensible reading), and edges at page breaks inside a section",
    ]
    seed = run.seed
    rots = list(range(len(STYLES))) if not quick else [(seed * 5) % 14, (seed * 5 + 7) % 14]
    pts = PLACE if not quick else (PLACE[seed % 3],)
    umodes = ("default", "scalar", "percol")

    def pts_of(k):
        # thorough: every rotation with one page_title value, rotations 0/5/10 with all three
        return pts if (quick or k in (0, 5, 10)) else (PLACE[k % 3],)

    def core_layer():
        for ki, k in enumerate(rots):
            a = assignment(k)
            for pt in pts_of(k):
                for um in (umodes if not (quick and ki > 0) else umodes[1:2]):
                    for strat in ("plain", "page_by", "subline_by"):
                        for sc in ("1", "2", "3"):
                            for fn, src, pf, ps, hm in core_cells():
                                yield table_spec(fn, src, pf, ps, hm, strat, sc, a, um, pt)

    total = sum(len(pts_of(k)) * (3 if not (quick and ki > 0) else 1) for ki, k in enumerate(rots)) * 3 * 3 * 162
    run.layer("core-product", "mc.props.c07:eval_case", core_layer(), chunk=120, total=total)

    # 3^4 product of disjoint style triples for the four settings
    T = {"PF": STYLES[0:3], "PL": STYLES[3:6], "BF": STYLES[6:9], "BL": STYLES[9:12]}
    anchors = [(fn, src, pf, ps, hm) for fn, src, pf, ps, hm in core_cells()
               if (not quick) or (pf == ps and hm == ("explicit", "none")[pf != "all"] and
                           (fn, src) in ((None, None), ("table", "para"), ("para", "table"), ("para", None), ("table", "table")))]
    prod = []
    for pfs, pls, bfs, bls in itertools.product(T["PF"], T["PL"], T["BF"], T["BL"]):
        a = {"PF": pfs, "PL": pls, "BF": bfs, "BL": bls, "UT": STYLES[12], "UB": STYLES[13], "UT2": STYLES[13], "UB2": STYLES[12],
             "UL": STYLES[12], "UR": STYLES[13]}
        for fn, src, pf, ps, hm in anchors:
            for strat in (("plain", "page_by", "subline_by") if not quick else ("plain",)):
                prod.append(table_spec(fn, src, pf, ps, hm, strat, "2", a, "scalar"))
    run.layer("style-product-3^4", "mc.props.c07:eval_case", prod, chunk=120, total=len(prod))

    # per-cell matrices on interior rows, one-page documents
    mats = []
    for k in (rots if not quick else rots[:1]):
        a = assignment(k)
        for strat in ("plain", "page_by", "subline_by"):
            for fn, src, pf, ps, hm in core_cells():
                mats.append(table_spec(fn, src, pf, ps, hm, strat, "1", a, "matrix", size=(5, 40)))
    run.layer("interior-cell-matrix-one-page", "mc.props.c07:eval_case", mats, chunk=120, total=len(mats))

    # header variants
    hv = []
    for k in (rots[::4] if not quick else rots[:1]):
        a = assignment(k)
        for hm, more in (("default", {}), ("two", {}), ("explicit", {"pageby_header": False}), ("default", {"pageby_header": False})):
            for strat in ("plain", "page_by", "subline_by"):
                for sc in ("1", "2", "3"):
                    for fn, src in itertools.product(MODES, repeat=2):
                        for pf, ps in (itertools.product(PLACE, repeat=2) if not quick else (("all", "all"), ("first", "last"), ("last", "first"))):
                            hv.append(table_spec(fn, src, pf, ps, hm, strat, sc, a, "scalar", **more))
    run.layer("header-variants", "mc.props.c07:eval_case", hv, chunk=120, total=len(hv))

    # exactly one of rtf_page.border_last / rtf_body.border_last is '' (the empty style); the footnote / source
    # rows carry their own distinct border_bottom; every document is encoded twice and both outputs are judged
    # (an override written into the caller's component leaks to the next page or to the next encode exactly here)
    em = []
    for k in (rots[::4] if not quick else rots[:1]):
        base = assignment(k)
        for which in ("PL", "BL"):
            a = dict(base)
            a[which] = ""
            for strat in (("plain", "page_by", "subline_by") if not quick else ("plain",)):
                for sc in ("1", "2", "3"):
                    for fn, src, pf, ps, hm in core_cells():
                        if quick and strat == "plain" and sc == "1" and hm == "none":
                            continue
                        more = {"_encodes": 2}
                        if fn == "table":
                            more["footnote_attrs"] = {"border_bottom": base["UT2"]}
                        if src == "table":
                            more["source_attrs"] = {"border_bottom": base["UB2"]}
                        em.append(table_spec(fn, src, pf, ps, hm, strat, sc, a, "scalar", **more))
    if quick:   # the other strategies on the cells where a table component is shown on every page
        base = assignment(rots[0])
        for which in ("PL", "BL"):
            a = dict(base)
            a[which] = ""
            for strat in ("page_by", "subline_by"):
                for fn, src, pf, ps, hm in core_cells():
                    if hm == "explicit" and ((fn == "table" and pf == "all") or (src == "table" and ps == "all")) and pf != "first" and ps != "first":
                        more = {"_encodes": 2}
                        if fn == "table":
                            more["footnote_attrs"] = {"border_bottom": base["UT2"]}
                        if src == "table":
                            more["source_attrs"] = {"border_bottom": base["UB2"]}
                        em.append(table_spec(fn, src, pf, ps, hm, strat, "2", a, "scalar", **more))
    run.layer("one-empty-closing-style-encoded-twice", "mc.props.c07:eval_case", em, chunk=80, total=len(em))

    # the body flag as_colheader x header mode: an explicit header text is rendered whatever the flag says, [] never, a
    # text-less header only when the flag is True.  The top-edge clauses follow what is rendered.
    ac = []
    a = assignment(rots[0])
    anchors5 = ((None, None), ("table", "para"), ("para", "table"), ("para", None), ("table", "table"))
    for flag, hm in ((False, "explicit"), (False, "none"), (True, "default"), (True, "explicit"), (True, "none")) + (
            ((False, "default"),) if ENUMERATE_ASCOLHEADER_OFF_WITH_TEXTLESS_HEADER else ()):
        if quick and flag and hm != "default":
            continue    # flag True with explicit / no header is the core product itself
        for strat in ("plain", "page_by", "subline_by"):
            for sc in ("1", "2", "3"):
                for fn, src in (anchors5 if quick else itertools.product(MODES, repeat=2)):
                    for pf, ps in ((("all", "all"), ("first", "last"), ("last", "first")) if quick else itertools.product(PLACE, repeat=2)):
                        for um in (("scalar",) if quick else ("default", "scalar")):
                            ac.append(table_spec(fn, src, pf, ps, hm, strat, sc, a, um, as_colheader=flag))
    run.layer("as_colheader-flag-x-header-mode", "mc.props.c07:eval_case", ac, chunk=60, total=len(ac))

    # pages holding exactly ONE data row, also in the middle of the document, under per-column (1 x ncol) user borders that
    # span every displayed column (no column removed): page_by with new_page=True / pageby_row="column" and group sizes
    # with a one-row group first, in the middle and last; plain tables whose tail page has one row.  Every document is
    # encoded twice and both outputs are judged (a boundary border written back into the caller's 1 x ncol vector shows
    # on every row of the later pages and of the next encode).
    one = []
    anchors5 = ((None, None), ("table", "para"), ("para", "table"), ("para", None), ("table", "table"))
    cells = [c for c in core_cells() if (not quick) or (c[2] == c[3] and (c[0], c[1]) in anchors5)]
    a = assignment(rots[0])
    for groups in ([0, 1, 1, 1], [0, 0, 1, 2, 2], [0, 0, 0, 1], [0, 1, 2, 2]):
        for fn, src, pf, ps, hm in cells:
            one.append(table_spec(fn, src, pf, ps, hm, "page_by", "1", a, "percol", size=(len(groups), 40),
                                  page_by=[groups], new_page=True, pageby_row="column", _encodes=2))
    for n in ((5, 7, 9) if quick else (5, 6, 7, 8, 9, 10)):
        for fn, src, pf, ps, hm in cells:
            one.append(table_spec(fn, src, pf, ps, hm, "plain", "2", a, "percol", size=(n, 6), _encodes=2))
    run.layer("one-row-pages-per-column-borders-encoded-twice", "mc.props.c07:eval_case", one, chunk=40, total=len(one))

    # blank-but-non-empty texts (" ", "  ") for table-rendered footnote / source: the blank row is rendered and is then
    # the last table row of its page; the closing clauses hold on whatever IS the last table row
    bl = []
    a = assignment(rots[0])
    for fn, src, ft, st in (("table", None, " ", None), (None, "table", None, "  "), ("table", "table", " ", "  "),
                            ("table", "para", "  ", None), ("para", "table", None, " ")):
        for pf, ps in itertools.product(PLACE, repeat=2):
            if (fn is None and pf != "last") or (src is None and ps != "last"):
                continue
            for hm in ("explicit", "none"):
                for strat in (("plain",) if quick else ("plain", "page_by", "subline_by")):
                    for sc in ("1", "2", "3"):
                        more = {}
                        if ft is not None:
                            more["footnote_text"] = ft
                        if st is not None:
                            more["source_text"] = st
                        bl.append(table_spec(fn, src, pf, ps, hm, strat, sc, a, "scalar", **more))
    run.layer("blank-text-table-components", "mc.props.c07:eval_case", bl, chunk=40, total=len(bl))

    # EMPTY (not blank) texts in every spelling the constructors accept - "", [], [""], None - for footnote and source, as
    # table and as paragraph: such a component is configured and placed but never rendered, so the closing clauses must
    # hold on the last row that IS there (normally the last data row), whatever the placement and page count
    emp = []
    spellings = (("", False), ([], False), ([""], False), (None, True))
    for which in ("footnote", "source", "both"):
        for mode in ("table", "para"):
            for si, (txt, is_none) in enumerate(spellings):
                for pi_, place in enumerate(PLACE):
                    for other in ((None, "para", "table") if not quick else ((None, "para", "table")[(si + pi_) % 3],)):
                        for hm, sc in ((("explicit", "2"), ("none", "3")) if quick else itertools.product(("explicit", "none"), ("1", "2", "3"))):
                            for strat in (("plain",) if quick else ("plain", "page_by", "subline_by")):
                                more = {}
                                fn = src = None
                                if which in ("footnote", "both"):
                                    fn = mode
                                    more.update({"footnote_text_none": True} if is_none else {"footnote_text": txt})
                                if which in ("source", "both"):
                                    src = mode
                                    more.update({"source_text_none": True} if is_none else {"source_text": txt})
                                if which == "footnote":
                                    src = other
                                elif which == "source":
                                    fn = other
                                elif other is not None:
                                    continue
                                emp.append(table_spec(fn, src, place, place if which == "both" else ("all", "last", "first")[pi_],
                                                      hm, strat, sc, a, "scalar", **more)
                                           if which != "source" else
                                           table_spec(fn, src, ("all", "last", "first")[pi_], place, hm, strat, sc, a, "scalar", **more))
    run.layer("empty-text-components-every-spelling", "mc.props.c07:eval_case", emp, chunk=40, total=len(emp))

    # user borders given as ROW patterns shorter than the table (k = 2, 3 rows; tuple form = k x 1, list of rows = k x ncol),
    # recycled down the absolute rows, on page sizes that are not multiples of k; no column is removed
    rp = []
    pb = dict(page_by=[[0, 0, 0, 1, 1, 2, 2, 2, 2]], new_page=True, pageby_row="column")
    for um in ("rows2t", "rows3t", "rows2m", "rows3m"):
        for strat, more, size in (("plain", {}, (7, 7)), ("plain", {}, (11, 6)), ("plain", {}, (10, 6)), ("page_by", pb, (9, 40))):
            for hm in ("explicit", "none"):
                for fn, src, pf, ps, hm2 in core_cells():
                    if hm2 != hm:
                        continue
                    if quick and not (pf == ps and pf != "first" and (fn, src) in ((None, None), ("table", "para"), ("para", "table"))):
                        continue
                    rp.append(table_spec(fn, src, pf, ps, hm, strat, "2", a, um, size=size, **more))
    run.layer("row-patterns-shorter-than-table", "mc.props.c07:eval_case", rp, chunk=40, total=len(rp))

    # multi-section documents: clauses 1 and 2, and clause 5 inside sections and where sections meet
    ms = []
    for k in (rots if not quick else rots[:1]):
        a = assignment(k)
        for nsec in (2, 3):
            for hmode in ("explicit", "none", "first-only"):
                for n, nrow in ((3, 40), (5, 7)):
                    for fn, src in itertools.product(MODES, repeat=2):
                        for pf, ps in itertools.product(PLACE, repeat=2):
                            secs = []
                            for si in range(nsec):
                                hm = "explicit" if hmode == "explicit" or (hmode == "first-only" and si == 0) else "none"
                                ut, ub = (("UT", "UB"), ("UT2", "UB2"), ("UL", "UR"))[si]   # distinct user styles per section
                                secs.append({"n": n, "cols": COLS[:2], "header": hm,
                                             "body": {"border_first": a["BF"], "border_last": a["BL"], "border_top": a[ut], "border_bottom": a[ub]}})
                            ms.append({"kind": "multi", "sections": secs, "title": 1, "footnote": fn, "source": src,
                                       "page": {"nrow": nrow, "page_footnote": pf, "page_source": ps, "border_first": a["PF"], "border_last": a["PL"]}})
    run.layer("multi-section-first-last", "mc.props.c07:eval_case", ms, chunk=80, total=len(ms))

    # vacuity guards
    if not run.cnt.get("blank-text-component-rows") and not run.viol:
        # (when the blank rows are missing AND the closing clauses fail, that is the violation itself, not a vacuous run)
        run.harness_errors.append({"layer": "vacuity", "case": None, "error": "vacuity guard: no blank-text footnote/source row was ever rendered"})
    for need in ("pages=1", "pages=2", "pages=3", "c1-edges", "c2-edges", "c3-edges", "c4-edges", "c5-edges", "multi",
                 "plain:pages=1", "page_by:pages=1", "subline_by:pages=1", "plain:pages=2", "page_by:pages=2", "subline_by:pages=2",
                 "plain:pages=3", "page_by:pages=3", "subline_by:pages=3",
                 "doc-closing-row=data", "doc-closing-row=footnote_table", "doc-closing-row=source_table",
                 "page-closing-row=data", "page-closing-row=footnote_table", "page-closing-row=source_table",
                 "c1-excluded-page_by-without-header", "first-page-header=rendered", "first-page-header=absent", "one-data-row-pages", "one-data-row-pages-followed-by-pages", "multi-c5-edges", "multi-c5-joint-top-edges", "multi-c5-joint-bottom-edges",
                 "c2-empty-page-border_last", "c3-empty-body-border_last",
                 "repeated-encodes-judged"):
        if not run.cnt.get(need):
            run.harness_errors.append({"layer": "vacuity", "case": None, "error": f"vacuity guard: counter {need!r} is zero"})

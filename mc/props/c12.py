"""C12 - colour and font references resolve to what the user asked for.

Every text run of the re-parsed output is joined, through the sentinel tag it carries, with the
element the user configured (title line, subline, header cell, body cell, footnote, source, page
header, page footer) and therefore with the colour names / font number requested for THAT element.

Oracle (declarative; reference tables frozen in data/colors.json, data/fonts.json):
  * every \\cf \\cb \\chcbpat \\brdrcf parameter p: 0 <= p < len(colour table of the document);
  * p == 0 (or no reference at all) only where black / nothing was requested;
  * RGB of entry p == frozen RGB of the colour requested for that element and role;
  * a requested non-default text / background colour must be referenced by the element's run;
  * exactly one colour table, present whenever a non-default colour is used; entry 0 is the default entry;
  * every \\fN of a tagged run names an entry of the emitted font table whose face name is the
    frozen name of the font number requested for that element (default 1).
Border colours are checked only where a \\brdrcf is emitted (their emission is C09's subject).
"""
from __future__ import annotations

import itertools
import json
import os
import re
import tempfile

from ..core import repo
from ..rtfreader.reader import parse
from ..spec import docspec
from ..spec.figures import make_png

PID = "C12"
LEVEL = "exploration"
TECHNIQUE = ("bounded exhaustive enumeration of colour/font placements (each of 657 colours x role x component, all 255 subsets of an "
             "8-colour palette, each of 10 fonts x component; single, 2-4 section and figure documents) on the real encoder; "
             "tag-joined reference-resolution oracle against frozen colour/font tables")
LEVEL_TEXT = ("exploration, exhaustive inside the stated bound. Index resolution depends on the SET of colours of a document (dense, "
              "master-ordered table) and on the encode path; the bound contains every colour in every slot, every subset of a palette "
              "built around the ordering edge cases, and all three document kinds.")
LEVEL_NOTE = ("trusted: the RTF reader; data/colors.json and data/fonts.json (frozen from the pinned commit by tools/gen_c12_tables.py - "
              "they are the specification of what a colour name / font number means)")

K_CTX = "colour-context-not-set-on-multi-section-or-figure-path"

_DATA = os.path.join(repo.VERIF, "data")
with open(os.path.join(_DATA, "colors.json")) as _f:
    _C = json.load(_f)["names"]
COLORS = {k: tuple(v[:3]) for k, v in _C.items()}          # name -> (r, g, b)
MASTER = {k: v[3] for k, v in _C.items()}                  # name -> index in the 657-entry master table
ORDER = sorted(COLORS, key=lambda k: MASTER[k])            # names in master order
with open(os.path.join(_DATA, "fonts.json")) as _f:
    FONTS = {int(k): v for k, v in json.load(_f)["fonts"].items()}
assert len(ORDER) == 657 and len(FONTS) == 10


# --------------------------------------------------------------------------- document construction
# A case lists, per element, what is requested:  elems = {key: [text colour|None, background|None, font|None]}
# keys: T0 T1 S0 F0 Z0 PH PF ; H<j> D<r>.<c> (single) ; <sec>H<j> <sec>D<r>.<c> with sec in A..D (multi)
# border colours: bcol = {"body_left": [c0, c1], "header_top": [c0, c1], "footnote_bottom": c}   (single / per section body+header)

NCOL, NROW = 2, 2
SHARED = ["T0", "T1", "S0", "F0", "Z0", "PH", "PF"]


def hkey(prefix, row, j):
    """element key of header cell j of header row `row` (row 0 keeps the short form H<j>)"""
    return f"{prefix}H{j}" if row == 0 else f"{prefix}H{row}x{j}"


def section_keys(prefix="", hrows=1):
    return ([hkey(prefix, r, j) for r in range(hrows) for j in range(NCOL)]
            + [f"{prefix}D{r}.{c}" for r in range(NROW) for c in range(NCOL)])


def element_keys(kind, nsec=1, hrows=None):
    """hrows: number of column-header rows per section (default 1 each)"""
    hrows = hrows or [1] * nsec
    if kind == "figure":
        return list(SHARED)
    if kind == "single":
        return SHARED + section_keys("", hrows[0])
    return SHARED + [k for s in range(nsec) for k in section_keys("ABCD"[s], hrows[s])]


def _attrs(vals, shape):
    """vals: list of [text, bg, font] for the elements of one component -> rtflite kwargs."""
    out = {}
    tc = [v[0] for v in vals]
    bg = [v[1] for v in vals]
    ft = [v[2] for v in vals]

    def form(xs, default):
        xs = [default if x is None else x for x in xs]
        if shape == "scalar":
            return xs[0]
        if shape == "lines":
            return xs
        if shape == "cols":
            return xs
        return [xs[r * NCOL:(r + 1) * NCOL] for r in range(NROW)]   # matrix

    if any(x is not None for x in tc):
        out["text_color"] = form(tc, "")
    if any(x is not None for x in bg):
        out["text_background_color"] = form(bg, "")
    if any(x is not None for x in ft):
        out["text_font"] = form(ft, 1)
    return out


def bkey_header(prefix, row):
    return prefix + ("header_top" if row == 0 else f"header{row}_top")


def _section_spec(elems, prefix, bcol, extra, hrows=1, hauto=False):
    spec = {"n": NROW, "cols": ["s"] * NCOL, "header": "explicit"}
    rows_attrs = []
    for r in range(hrows):
        h = _attrs([elems[hkey(prefix, r, j)] for j in range(NCOL)], "cols")
        if bcol.get(bkey_header(prefix, r)):
            h["border_color_top"] = bcol[bkey_header(prefix, r)]
        rows_attrs.append(h)
    if hrows == 1:
        spec["header_attrs"] = rows_attrs[0]
        if hauto:   # RTFColumnHeader WITHOUT text: the header row is generated from the column names
            spec["header"] = "default"
    else:   # several header rows, each with its own colours / fonts
        spec["header"] = "rows"
        spec["header_rows_attrs"] = rows_attrs
    b = _attrs([elems[f"{prefix}D{r}.{c}"] for r in range(NROW) for c in range(NCOL)], "matrix")
    if bcol.get(prefix + "body_left"):
        b["border_color_left"] = [list(bcol[prefix + "body_left"])]
    if extra and (extra.get("page_by") or extra.get("subline_by")):
        # the grouping column comes first in the frame: attribute matrices get a leading default column
        dflt = {"text_color": "", "text_background_color": "", "text_font": 1, "border_color_left": ""}
        for name in list(b):
            b[name] = [[dflt[name]] + list(row) for row in b[name]]
    spec["body"] = b
    spec.update(extra or {})
    return spec


def make_spec(case):
    kind = case["kind"]
    elems = case["elems"]
    bcol = case.get("bcol") or {}
    spec = {"title": 2, "subline": True, "page_header": "text", "page_footer": "text",
            "footnote": case.get("footnote", "table"), "source": case.get("source", "para"),
            "title_attrs": _attrs([elems["T0"], elems["T1"]], "lines"),
            "subline_attrs": _attrs([elems["S0"]], "scalar"),
            "footnote_attrs": _attrs([elems["F0"]], "scalar"),
            "source_attrs": _attrs([elems["Z0"]], "scalar"),
            "page_header_attrs": _attrs([elems["PH"]], "scalar"),
            "page_footer_attrs": _attrs([elems["PF"]], "scalar"),
            "page": dict(case.get("page") or {})}
    if bcol.get("footnote_bottom") and spec["footnote"] == "table":
        spec["footnote_attrs"]["border_color_bottom"] = bcol["footnote_bottom"]
    if kind == "figure":
        spec["kind"] = "figure"
        spec["footnote"] = spec["source"] = "para"      # rtflite requires as_table=False next to a figure
        spec["footnote_attrs"].pop("border_color_bottom", None)
        return spec
    if kind == "single":
        spec.update(_section_spec(elems, "", bcol, case.get("extra"), (case.get("hrows") or [1])[0], bool((case.get("hauto") or [0])[0])))
        return spec
    spec["kind"] = "multi"
    hrows = case.get("hrows") or [1] * case["nsec"]
    hauto = case.get("hauto") or [0] * case["nsec"]
    spec["sections"] = [_section_spec(elems, "ABCD"[s], bcol, None, hrows[s], bool(hauto[s])) for s in range(case["nsec"])]
    return spec


def element_of(text, kind):
    """tag carried by a run -> element key (or None)."""
    tg = docspec.tag_of(text)
    if tg is None:
        return None
    p, a, b = tg
    if p in ("PH", "PF"):
        return p
    if p in ("T", "S", "F", "Z") and b is None:
        return f"{p}{a}"
    if kind == "single":
        if p == "H" and b is not None:
            return hkey("", a, b)
        if p == "D" and b is not None:
            return f"D{a}.{b}"
    if kind == "multi":
        if len(p) == 2 and p[0] == "H" and b is not None:
            return hkey(p[1], a, b)
        if len(p) == 1 and p in "ABCD" and b is not None:
            return f"{p}D{a}.{b}"
    return None


# --------------------------------------------------------------------------- oracle


def _figfiles(wd, n):
    out = []
    for i in range(n):
        p = os.path.join(wd, f"f{i}.png")
        with open(p, "wb") as f:
            f.write(make_png(4 + i, 3 + i, bytes([i + 1]) * 5))
        out.append(p)
    return out


def _reset_colour_context():
    """A trivial single-table encode through the public API: it leaves the library's per-document
    colour context as a completed encode leaves it, so a case never depends on what this worker
    encoded before (that dependence is C14's subject, not C12's)."""
    import polars as pl
    import rtflite as rtf

    rtf.RTFDocument(df=pl.DataFrame({"a": ["x"]})).rtf_encode()


def eval_case(case: dict) -> dict:
    kind = case["kind"]
    elems = case["elems"]
    viol, cnt = [], {}

    def bump(k, v=1):
        cnt[k] = cnt.get(k, 0) + v

    bump(f"kind={kind}")
    spec = make_spec(case)
    tmp = None
    try:
        if kind == "figure":   # scratch files only under /verif/.work, removed with the case
            os.makedirs(os.path.join(repo.VERIF, ".work"), exist_ok=True)
            tmp = tempfile.TemporaryDirectory(prefix="c12-", dir=os.path.join(repo.VERIF, ".work"))
            spec["figures"] = _figfiles(tmp.name, case.get("nfig", 1))
        if kind != "single":
            _reset_colour_context()
        try:
            b = docspec.build(spec)
            out = b.doc.rtf_encode()
        finally:
            if tmp is not None:
                tmp.cleanup()
    except Exception as e:
        return {"viol": [{"klass": None, "sig": f"encode-raised-{type(e).__name__}", "detail": f"{type(e).__name__}: {e}"}],
                "nt": False, "cnt": cnt}
    doc = parse(out)
    if doc.errors:
        viol.append({"klass": None, "sig": "unparseable-" + doc.errors[0][0], "detail": str(doc.errors[:3])})
    table = doc.colortbl
    tlen = len(table) if table is not None else 0
    if doc.colortbl_count > 1:
        viol.append({"klass": None, "sig": "several-colour-tables", "detail": f"{doc.colortbl_count} \\colortbl groups"})
    if table is not None and tlen and table[0] not in (None, (0, 0, 0)):
        viol.append({"klass": None, "sig": "entry-0-not-default", "detail": f"colour table entry 0 is {table[0]}, index 0 must mean the default colour"})

    used_nondefault = False
    ctx_kind = kind in ("multi", "figure")

    def check_ref(word, p, want, where):
        """p: emitted parameter (None = no reference); want: requested colour name or None."""
        nonlocal used_nondefault
        default_requested = want in (None, "", "black")
        if p is None:
            if not default_requested and word in ("cf", "chcbpat"):
                viol.append({"klass": None, "sig": f"requested-colour-not-referenced-{word}",
                             "detail": f"{where}: {want} requested but the run carries no \\{word}"})
            return
        bump(f"refs-{word}")
        if p > 0:
            used_nondefault = True

        def ctx():
            # narrow: explained completely by "index taken from the 657-entry master table"
            return K_CTX if (ctx_kind and not default_requested and p == MASTER[want]) else None

        if p < 0 or p >= max(tlen, 1) or (table is None and p > 0):
            viol.append({"klass": ctx(), "sig": ctx() or f"index-out-of-range-{word}-{kind}",
                         "detail": f"{where}: \\{word}{p} but the document's colour table has {tlen} entries (requested {want}, master index "
                                   f"{MASTER.get(want)})"})
            return
        if p == 0:
            if not default_requested:
                viol.append({"klass": None, "sig": f"index-0-for-non-default-{word}",
                             "detail": f"{where}: \\{word}0 (default colour) but {want} = {COLORS[want]} was requested"})
            return
        rgb = table[p]
        want_rgb = (0, 0, 0) if default_requested else COLORS[want]
        if default_requested and word != "cf":
            viol.append({"klass": None, "sig": f"colour-where-none-requested-{word}",
                         "detail": f"{where}: \\{word}{p} = {rgb} but no {word} colour was requested"})
        elif rgb != want_rgb:
            viol.append({"klass": ctx(), "sig": ctx() or f"wrong-rgb-{word}-{kind}",
                         "detail": f"{where}: \\{word}{p} resolves to {rgb} in this document's table, requested "
                                   f"{want or 'default'} = {want_rgb}" + (f" (master index {MASTER[want]})" if want in MASTER else "")})
        else:
            bump("refs-resolved-to-requested-rgb")

    def check_run(text, props, where_prefix, key_override=None):
        key = key_override or element_of(text, kind)
        # every reference, tagged or not, must at least be inside the table
        if key is None or key not in elems:
            for word in ("cf", "cb", "chcbpat"):
                p = props.get(word)
                if p is not None and (p < 0 or p >= max(tlen, 1)):
                    viol.append({"klass": None, "sig": f"index-out-of-range-{word}-untagged",
                                 "detail": f"{where_prefix} run {text[:20]!r}: \\{word}{p}, table has {tlen} entries"})
            f = props.get("f")
            if f is not None and f not in doc.fonttbl:
                viol.append({"klass": None, "sig": "font-not-in-table-untagged", "detail": f"run {text[:20]!r}: \\f{f} not in the font table"})
            return None
        tc, bg, ft = elems[key]
        where = f"{where_prefix} element {key}"
        seen[key] = seen.get(key, 0) + 1
        check_ref("cf", props.get("cf"), tc, where)
        check_ref("chcbpat", props.get("chcbpat"), bg, where)
        if props.get("cb") is not None or props.get("chcbpat") is not None:
            check_ref("cb", props.get("cb"), bg, where)
        # font
        want_font = ft or 1
        f = props.get("f")
        bump("font-refs")
        if f is None:
            viol.append({"klass": None, "sig": "no-font-reference", "detail": f"{where}: run without \\fN (font {want_font} requested)"})
        elif f not in doc.fonttbl:
            viol.append({"klass": None, "sig": "font-not-in-table", "detail": f"{where}: \\f{f} is not an entry of the emitted font table {sorted(doc.fonttbl)}"})
        elif doc.fonttbl[f].strip() != FONTS[want_font]:
            viol.append({"klass": None, "sig": "font-resolves-to-wrong-face",
                         "detail": f"{where}: font {want_font} ({FONTS[want_font]}) requested, \\f{f} names {doc.fonttbl[f]!r}"})
        return key

    seen: dict = {}
    bcol = case.get("bcol") or {}

    def runs_of(events):
        return [(e[1], e[2]) for e in events if e[0] == "t" and e[1].strip()]

    for what, lst in (("page header", doc.headers), ("page footer", doc.footers)):
        for grp in lst:
            for para in grp:
                for text, props in runs_of(para.events):
                    check_run(text, props, what)
    for pi, pg in enumerate(doc.pages):
        for bl in pg.blocks:
            if bl.kind == "para":
                for text, props in runs_of(bl.events):
                    check_run(text, props, f"page {pi + 1}")
            elif bl.kind == "row":
                # a header generated from the column names (RTFColumnHeader without text) carries no tag: it is the row whose
                # cells are exactly the column names c0, c1, ...; its section is the one of the next data row on the page
                auto_prefix = None
                if bl.cells and all(re.fullmatch(r"c\d+", c.text or "") for c in bl.cells):
                    auto_prefix = ""
                    if kind == "multi":
                        auto_prefix = None
                        for nb in pg.blocks[pg.blocks.index(bl) + 1:]:
                            if nb.kind == "row":
                                tg = docspec.tag_of(nb.cells[0].text) if nb.cells else None
                                if tg and len(tg[0]) == 1 and tg[0] in "ABCD" and tg[2] is not None:
                                    auto_prefix = tg[0]
                                    break
                for j, cell in enumerate(bl.cells):
                    key = None
                    for text, props in runs_of(cell.events):
                        ko = None
                        if auto_prefix is not None and hkey(auto_prefix, 0, j) in elems:
                            ko = hkey(auto_prefix, 0, j)
                            bump("joined-auto-header-cells")
                        key = check_run(text, props, f"page {pi + 1}", ko) or key
                    for side, (style, width, cfp) in cell.borders.items():
                        if cfp is None:
                            continue
                        want = None
                        if key is not None:
                            sec = key[0] if kind == "multi" and key[0] in "ABCD" and key[1] in "HD" else ""
                            base = key[len(sec):]
                            if base.startswith("H") and side == "t":
                                hrow = int(base[1:].split("x")[0]) if "x" in base else 0
                                want = (bcol.get(bkey_header(sec, hrow)) or [None] * NCOL)[j]
                            elif base.startswith("D") and side == "l":
                                want = (bcol.get(sec + "body_left") or [None] * NCOL)[j]
                            elif base == "F0" and side == "b":
                                want = bcol.get("footnote_bottom")
                        check_ref("brdrcf", cfp, want, f"page {pi + 1} {SIDE.get(side, side)} border of cell {key or j}")

    # colour table presence
    requested_nondefault = any(c not in (None, "", "black") for k, v in elems.items() if seen.get(k) for c in v[:2])
    if (used_nondefault or requested_nondefault) and table is None:
        viol.append({"klass": None, "sig": "colour-table-missing",
                     "detail": "a non-default colour is used/requested but the document has no \\colortbl"})
    for k in elems:
        if not seen.get(k):
            bump("element-not-rendered")
    bump("elements-joined", sum(seen.values()))
    for k in seen:
        comp = k[1] if (kind == "multi" and k not in SHARED) else re.match(r"[A-Z]+", k).group(0)
        bump(f"joined-{comp}")
        if "x" in k:
            bump("joined-later-header-row")
    if bcol:
        bump("docs-with-border-colour-requests")
    ncol_used = len({c for v in elems.values() for c in v[:2] if c not in (None, "", "black")})
    sample = None
    if viol and kind != "single":
        sample = {"table_len": tlen, "first": viol[0]["detail"][:200]}
    elif case.get("_sample"):
        sample = {"table_len": tlen, "elements": dict(sorted(seen.items()))}
    return {"viol": viol, "nt": ncol_used >= 1 or any(v[2] not in (None, 1) for v in elems.values()), "cnt": cnt, "sample": sample}


SIDE = {"t": "top", "b": "bottom", "l": "left", "r": "right"}

# --------------------------------------------------------------------------- enumeration

# 8-colour palette around the ordering edge cases: first entry, master-order neighbours on both
# sides of black (which is index 0, not an entry), two names with identical RGB, the last entry
PALETTE = ["white", "aliceblue", "bisque4", "black", "blanchedalmond", "blue", "blue1", "yellowgreen"]


def colour_slots(keys):
    """(element key, role index) for role text/background, in a fixed order."""
    return [(k, r) for k in keys for r in (0, 1)]


def rotation_case(kind, d, nsec=1, stride=None, fonts=True, hrows=None, **more):
    """Document number d of a family of 657: slot s carries master-order colour (d + stride*s) mod 657,
    so that over d = 0..656 every slot (component x role) sees every colour, and all colours of one
    document are pairwise distinct."""
    keys = element_keys(kind, nsec, hrows)
    slots = colour_slots(keys)
    border_slots = []
    if kind != "figure":
        for s in range(nsec):
            p = "ABCD"[s] if kind == "multi" else ""
            border_slots += [(p + "body_left", 0), (p + "body_left", 1)]
            for hr in range((hrows or [1] * nsec)[s]):
                border_slots += [(bkey_header(p, hr), 0), (bkey_header(p, hr), 1)]
        border_slots.append(("footnote_bottom", None))
    nslots = len(slots) + len(border_slots)
    stride = stride or (657 // nslots)
    elems = {k: [None, None, None] for k in keys}
    for s, (k, r) in enumerate(slots):
        elems[k][r] = ORDER[(d + stride * s) % 657]
    if fonts:
        for i, k in enumerate(keys):
            elems[k][2] = (d + i) % 10 + 1
    bcol = {}
    for t, (name, j) in enumerate(border_slots):
        c = ORDER[(d + stride * (len(slots) + t)) % 657]
        if j is None:
            bcol[name] = c
        else:
            bcol.setdefault(name, [None, None])[j] = c
    case = {"kind": kind, "elems": elems, "bcol": bcol, "footnote": "table" if d % 2 == 0 else "para",
            "source": "para" if d % 2 == 0 else "table"}
    if kind == "multi":
        case["nsec"] = nsec
    if hrows:
        case["hrows"] = list(hrows)
    case.update(more)
    return case


def subset_case(kind, mask, variant, nsec=1, **more):
    """Colours of the palette subset `mask` laid over the colour slots round-robin
    (variant 0: every slot; variants 1,2: every third slot, the others stay default)."""
    sub = [c for i, c in enumerate(PALETTE) if mask >> i & 1]
    keys = element_keys(kind, nsec)
    elems = {k: [None, None, None] for k in keys}
    t = 0
    for s, (k, r) in enumerate(colour_slots(keys)):
        if variant and s % 3 != variant - 1:
            continue
        elems[k][r] = sub[t % len(sub)]
        t += 1
    case = {"kind": kind, "elems": elems, "footnote": "table" if mask % 2 else "para", "source": "para" if mask % 3 else "table"}
    if kind == "multi":
        case["nsec"] = nsec
    case.update(more)
    return case


def font_case(kind, f, nsec=1, **more):
    keys = element_keys(kind, nsec)
    elems = {k: [None, None, (f + i) % 10 + 1] for i, k in enumerate(keys)}
    case = {"kind": kind, "elems": elems}
    if kind == "multi":
        case["nsec"] = nsec
    case.update(more)
    return case


def plan(run):
    quick = run.tier == "quick"
    seed = run.seed
    run.rule = (
        "rotation families: document d of 657 puts master-order colour (d + stride*s) mod 657 into slot s (slot = element x role{text, "
        "background} plus border-colour slots; elements = 2 title lines, subline, 2 header cells, 2x2 body cells, footnote, source, page "
        "header, page footer), so each of the 657 colours visits every slot; one family per document kind: single, 2-, 3-, 4-section, "
        "figure with 1 and 2 figures, all 657 documents each; further strides (1 = master-order neighbours in one document, 2 3 5 7 11 13) "
        "(quick: strides 1 and 7, every 4th document of a seed-rotated phase; thorough: all seven, every document, every section count); all 255 "
        "non-empty subsets of an 8-colour palette {first, neighbours of black, black, two equal-RGB names, last} x 3 slot layouts x kinds; "
        "documents with 2-3 column-header rows per section (single: flat list; 2/3/4 sections: nested lists), each row with its own colours "
        "(quick: every 3rd document of a seed-rotated phase); documents whose column header has NO text (row generated from the column names) "
        "in the single section / in some or all sections, with its own colours, fonts and border colours (same phase rule); each of the 10 fonts on each element x kinds; page_by / subline_by / paginated variants of the single kind. "
        "non-trivial = at least one non-default colour or non-default font requested; distinct = distinct case")
    run.assumptions = [
        "the RTF reader is correct; runs are joined with the configured element by the sentinel tag in their text",
        "data/colors.json and data/fonts.json (frozen from the pinned commit) define what a colour name and a font number mean",
        "'black', '' and None all request the default colour: index 0, no reference, or an entry with RGB (0,0,0) satisfy them for text; for backgrounds only index 0 / no reference",
        "border colours are judged only where a \\brdrcf is emitted (never on the pinned tree); whether they must be emitted is C09's subject",
        "a font reference is judged by the face name it resolves to in the emitted font table, not by its number",
        "before each multi-section / figure case one trivial single-table document is encoded through the public API so that the library's "
        "process-global colour context is in its post-encode state (history dependence is C14's subject)",
        "per-row colour matrices are used on one-page bodies only (row re-basing on later pages is C09's finding)",
    ]
    # ---- rotation families, default stride: every kind, all 657 documents, in both tiers
    single = [rotation_case("single", d) for d in range(657)]
    single[0]["_sample"] = True
    run.layer("single-rotation-657", "mc.props.c12:eval_case", single, chunk=30, total=len(single))

    def fig_page(d):
        return {"page_title": ("all", "first", "last")[d % 3], "page_footnote": ("last", "all", "first")[d % 3],
                "page_source": ("all", "last", "first")[(d // 3) % 3]}

    fam = []
    for d in range(657):
        for nsec in (2, 3, 4):
            fam.append(rotation_case("multi", d, nsec))
        fam.append(rotation_case("figure", d, nfig=1 + d % 2, page=fig_page(d)))
    run.layer("multi-and-figure-rotation-657", "mc.props.c12:eval_case", fam, chunk=30, total=len(fam))

    # ---- other strides: stride 1 packs master-order NEIGHBOURS into one document (dense table of adjacent
    # entries), the others are further spreads.  quick: strides 1 and 7, every 4th document of a seed-rotated
    # phase, one section count per document; thorough: seven strides, all documents, all section counts.
    step = 4 if quick else 1
    more = []
    for stride in ((1, 7) if quick else (1, 2, 3, 5, 7, 11, 13)):
        for d in range(seed % step, 657, step):
            more.append(rotation_case("single", d, stride=stride))
            for nsec in ((2 + d % 3,) if quick else (2, 3, 4)):
                more.append(rotation_case("multi", d, nsec, stride=stride))
            more.append(rotation_case("figure", d, nfig=1 + d % 2, stride=stride, page=fig_page(d)))
    run.layer("rotation-other-strides", "mc.props.c12:eval_case", more, chunk=30, total=len(more))

    # ---- several column-header rows per section (single: flat list of 2 / 3 rows; multi: nested lists with 1-3 rows per
    # section).  All colours of a document are pairwise distinct, so every colour of a 2nd / 3rd header row is used ONLY there.
    hr = []
    for d in range(seed % (3 if quick else 1), 657, 3 if quick else 1):
        hr.append(rotation_case("single", d, hrows=[2 + d % 2]))
        hr.append(rotation_case("multi", d, 2, hrows=[2, 3] if d % 2 else [3, 2]))
        hr.append(rotation_case("multi", d, 3, hrows=[[1, 2, 3], [2, 3, 1], [3, 1, 2]][d % 3]))
        if not quick:
            hr.append(rotation_case("multi", d, 4, hrows=[[2, 1, 3, 2], [1, 3, 2, 2]][d % 2]))
            hr.append(rotation_case("single", d, hrows=[3 - d % 2], stride=1))
    run.layer("several-header-rows", "mc.props.c12:eval_case", hr, chunk=30, total=len(hr))

    # ---- colours on components whose text is generated: RTFColumnHeader WITHOUT text (the row shows the column names) in
    # single-section documents and in some / all sections of 2-4 section documents; every colour of a document is distinct,
    # so the colours of such a header are used nowhere else
    ha = []
    for d in range((seed + 1) % (3 if quick else 1), 657, 3 if quick else 1):
        ha.append(rotation_case("single", d, hauto=[1]))
        ha.append(rotation_case("multi", d, 2, hauto=[[1, 1], [0, 1], [1, 0]][d % 3]))
        ha.append(rotation_case("multi", d, 3, hauto=[[0, 1, 0], [1, 0, 1], [1, 1, 1]][d % 3]))
        if not quick:
            ha.append(rotation_case("multi", d, 4, hauto=[[1, 0, 0, 1], [0, 1, 1, 0]][d % 2]))
            ha.append(rotation_case("single", d, hauto=[1], stride=1))
    run.layer("headers-generated-from-column-names", "mc.props.c12:eval_case", ha, chunk=30, total=len(ha))

    # ---- palette subsets
    subs = []
    for mask in range(1, 256):
        for variant in (0, 1, 2):
            subs.append(subset_case("single", mask, variant))
            if quick:
                if variant == (mask + seed) % 3:
                    subs.append(subset_case("multi", mask, variant, nsec=2 + mask % 3))
                    subs.append(subset_case("figure", mask, variant, nfig=1 + mask % 2))
            else:
                for nsec in (2, 3, 4):
                    subs.append(subset_case("multi", mask, variant, nsec=nsec))
                for nfig in (1, 2):
                    subs.append(subset_case("figure", mask, variant, nfig=nfig))
    run.layer("palette-subsets-255", "mc.props.c12:eval_case", subs, chunk=30, total=len(subs))

    # ---- fonts
    fonts = []
    for f in range(10):
        fonts.append(font_case("single", f))
        for nsec in (2, 3, 4):
            fonts.append(font_case("multi", f, nsec))
        fonts.append(font_case("figure", f, nfig=2))
    run.layer("fonts-10-per-element", "mc.props.c12:eval_case", fonts, chunk=10, total=len(fonts))

    # ---- single kind: grouping strategies, repeated components over several pages (colours per column only)
    var = []
    for d in (range(0, 657, 9) if quick else range(0, 657, 2)):
        base = rotation_case("single", d)
        # per-column colours only: make both body rows equal so that pagination cannot re-base anything
        for c in range(NCOL):
            base["elems"][f"D1.{c}"] = list(base["elems"][f"D0.{c}"])
        for extra in ({"page_by": [[0, 1]]}, {"subline_by": [[0, 1]]}, {"page": {"nrow": 4}},):
            cs = json.loads(json.dumps(base))
            if "page" in extra:
                cs["page"] = {**extra["page"], "page_title": "all", "page_footnote": "all", "page_source": "all"}
            else:
                cs["extra"] = extra
            var.append(cs)
    run.layer("single-strategies-and-pages", "mc.props.c12:eval_case", var, chunk=30, total=len(var))

    for need in ("kind=single", "kind=multi", "kind=figure", "refs-cf", "refs-chcbpat", "refs-cb", "font-refs", "refs-resolved-to-requested-rgb", "joined-later-header-row", "joined-auto-header-cells",
                 "joined-T", "joined-S", "joined-H", "joined-D", "joined-F", "joined-Z", "joined-PH", "joined-PF"):
        if not run.cnt.get(need):
            run.harness_errors.append({"layer": "vacuity", "case": None, "error": f"vacuity guard: counter {need!r} is zero"})

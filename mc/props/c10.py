"""C10 - every Unicode character reaches the reader intact.

Space (exhaustive): every Unicode scalar value except the 65 C0/C1 controls and the three raw
RTF metacharacters (backslash, braces; with text conversion on also ^ and _, which are
conversion tokens), as a whole user string (= at both string boundaries) and in the interior
of a longer string, in each of the twelve text-bearing positions, with text conversion on and off.

One case = one document: a range (or list) of code points x position x conversion flag x form.
The document is written with write_rtf, the *bytes* of the file are read back with the
independent reader (7-bit ASCII, \\'hh and raw high bytes in the declared ANSI code page,
\\uN with \\ucN skipping, surrogate pairs combined) and every slot is compared with the string
that was put in.  Slots are found by sentinel tags that sit in *separate* cells / lines next to
the code point, and the complete tag sequence is verified, so a lost or merged cell cannot
shift the comparison silently.
"""
from __future__ import annotations

import contextlib
import io
import itertools
import os
from collections import Counter

from ..core import repo
from ..rtfreader.reader import parse

PID = "C10"
LEVEL = "exploration"
TECHNIQUE = ("exhaustive enumeration of all Unicode scalar values x text-bearing positions x conversion flag on the real "
             "write_rtf; byte-level read-back with the independent RTF reader and per-slot equality with the input string")
LEVEL_TEXT = ("exploration, exhaustive: the input space (1.1M code points x 12 positions x 2 flags) is finite and "
              "is enumerated completely by the thorough tier for whole strings, and for the inner form in body cells (the quick tier enumerates "
              "in body cells all code points with conversion on and the BMP plus one seed-rotated plane with conversion off, and the "
              "class-boundary code points and their ordered pairs in all positions); there is no state graph to search")
LEVEL_NOTE = ("trusted: mc/rtfreader decoding rules (cp1252 for plain \\ansi, \\uN/\\ucN, surrogate pairing); the three raw RTF "
              "metacharacters are outside the space because raw RTF pass-through is a documented feature")

POSITIONS = ("body", "colheader", "title", "subline", "footnote_table", "footnote_para", "source_table",
             "source_para", "page_by", "subline_by", "page_header", "page_footer")
FILLERS = [("x", "y"), ("a", "b"), ("1", "2"), (" ", " "), ("*", "*"), ("x ", " y")]

# code points around every class boundary of any plausible escaping scheme
BOUNDARY = [0x20, 0x21, 0x27, 0x2A, 0x2D, 0x3B, 0x3C, 0x3D, 0x3E, 0x3F, 0x5E, 0x5F, 0x7E, 0xA0, 0xA1, 0xAD, 0xB0, 0xB1,
            0xB2, 0xD7, 0xE9, 0xFE, 0xFF, 0x100, 0x101, 0x17F, 0x394, 0x3B1, 0x7FF, 0x800, 0x2028, 0x20AC, 0x2264, 0x2265,
            0x7FFE, 0x7FFF, 0x8000, 0x8001, 0xD7FF, 0xE000, 0xF8FF, 0xFEFF, 0xFFFD, 0xFFFE, 0xFFFF, 0x10000, 0x10001,
            0x1F600, 0x1FFFF, 0x20000, 0xE0001, 0x10FFFD, 0x10FFFF]

K_BODY = 19          # code points per body row (plus the tag cell)
K_HEAD = 4           # code points per explicit header row
PB_LEVELS = 3        # page_by levels per document

# documents are sized so that encode + read-back stays well below a second
PER_DOC = {"body": 2000, "colheader": 2000, "title": 2000, "subline": 2000, "page_header": 2000, "page_footer": 2000,
           "footnote_table": 4000, "footnote_para": 4000, "source_table": 4000, "source_para": 4000,
           "page_by": 150, "subline_by": 10}


def in_space(cp: int, conv: bool) -> bool:
    if cp < 0x20 or 0x7F <= cp <= 0x9F:
        return False
    if 0xD800 <= cp <= 0xDFFF:
        return False
    if cp in (0x5C, 0x7B, 0x7D):
        return False
    if conv and cp in (0x5E, 0x5F):
        return False
    return True


def case_cps(case: dict) -> list:
    if "cps" in case:
        return [cp for cp in case["cps"] if in_space(cp, case["conv"])]
    return [cp for cp in range(case["lo"], case["hi"], case.get("step", 1)) if in_space(cp, case["conv"])]


def pair_strings(case: dict) -> list:
    """form 'pairs': every ordered pair of the boundary code points with first element in [lo, hi) as a two-character
    string (adjacent escapes, surrogate pairs next to each other, fallback characters next to digits ...)."""
    conv = case["conv"]
    b = [cp for cp in BOUNDARY if in_space(cp, conv)]
    out = []
    for x in b[case["lo"]:case["hi"]]:
        for y in b:
            if conv and (x, y) in ((0x3E, 0x3D), (0x3C, 0x3D)):
                continue  # >= and <= are conversion tokens
            out.append((x, chr(x) + chr(y)))
    return out


RUN_CPS = [0xE9, 0x3B1, 0x20AC, 0x8000, 0xFFFD, 0x1F600]
RUN_FOLLOW = [" ", "a", "1", "-", "?", "*", ";", " z", "'", "Z9"]


def run_strings(case: dict) -> list:
    """form 'runs': a run of two (and three) adjacent non-ASCII characters FOLLOWED by ASCII text - the delimiter after the last
    escape of a run is where a run-wise escaper differs from a per-character one (the space after the run is data, not a
    delimiter); prefix '' or 'x'."""
    out = []
    for x in RUN_CPS:
        for y in RUN_CPS:
            for f in RUN_FOLLOW:
                out.append((x, chr(x) + chr(y) + f))
                out.append((x, "x" + chr(x) + chr(y) + f))
        for f in RUN_FOLLOW[:4]:
            out.append((x, chr(x) + chr(0x394) + chr(x) + f + chr(x) + chr(x) + f))
    return out[case["lo"]:case["hi"]]


# Text that is escape syntax of some *other* layer (XML/HTML character references, percent-encoding, quoted-printable,
# U+ notation, printf/format directives, shell/SQL quoting, RTF words without their backslash).  For rtflite it is
# ordinary text and must be read back unchanged.  Backslash / brace spellings (\\u0041, \\x41, {\\b x}, \\'e9) are not
# listed: they are raw RTF by the documented pass-through and therefore outside this property's space.
FOREIGN_TARGETS_QUICK = [0x41, 0x20, 0xE9, 0x20AC, 0x1F600, 0x0, 0x5C, 0x7B, 0xD83D, 0x110000]
FOREIGN_TARGETS_MORE = [0x7F, 0x80, 0xFF, 0x100, 0x7FFF, 0x8000, 0xFFFF, 0x10000, 0x10FFFF, 0xDE00, 0x9, 0xA, 0x26, 0x23, 0x3B]
FOREIGN_FIXED = ["&amp;", "&lt;", "&gt;", "&quot;", "&apos;", "&nbsp;", "&eacute;", "&euro;", "&;", "&#;", "&#x;", "&# 65;", "&&#65;;",
                 "%", "%%", "%d", "%s", "%5.2f", "%(x)s", "$x", "$(x)", "$$", "`x`", "''", '""', "??/", "#65;", "&#", "#", ";",
                 "u65*", "uc1 u233*", "'e9", "par", "cell", "u-3913?", "*", "?", "~", "-", ":", "|", "+", "a&b;c"]
FOREIGN_MIX = [("", ""), ("\u00e9", ""), ("", "\U0001F600"), ("x", "y"), ("\u0394 ", " \u20ac")]


def _utf8_bytes(cp: int) -> bytes:
    return chr(cp).encode("utf-8", "surrogatepass") if cp < 0x110000 else b"\xf4\x90\x80\x80"


def foreign_strings(conv: bool, more: bool) -> list:
    """form 'foreign': -> [(code point used for the class counters, string)], deterministic and duplicate-free"""
    base = []
    for t in FOREIGN_TARGETS_QUICK + (FOREIGN_TARGETS_MORE if more else []):
        b = _utf8_bytes(t)
        base += [f"&#{t};", f"&#{t}", f"&#{t:07d};", f"&#x{t:x};", f"&#X{t:04X};", f"&#{t};&#{t};",
                 "".join(f"%{x:02X}" for x in b), "".join(f"={x:02X}" for x in b), f"U+{t:04X}", f"u{t}*", f"#{t}"]
    base += FOREIGN_FIXED
    out = {}
    for s in base:
        for a, b in FOREIGN_MIX:
            x = a + s + b
            if conv and ("^" in x or "_" in x or ">=" in x or "<=" in x):
                continue
            out.setdefault(x, max(ord(c) for c in x))
    return [(cp, x) for x, cp in out.items()]


# The conversion switch per CELL: text_convert given as a full matrix over a single-segment body.
CELLCONV_PATTERNS = ("row0-on-rest-off", "row0-off-rest-on", "alternating-rows", "alternating-columns", "checkerboard")
CELLCONV_ROWS = 16
# token-bearing texts (backslash-free): in a conversion-off cell they must be read back verbatim
TOKEN_TEXTS = [">=", "<=", "x^2", "a_b", "AUC_0-t >= 5", "p<=0.05", "a^b_c", "x_1^2>=0", "^_", "_^", ">=<=", "a_", "^b", "<= >=",
               "\u00e9_1", "\u0394^2", "\U0001F600>=\u20ac", "x_\u00e9", "n<=\u20ac5", "\u00b1^\u00b1_\u00b1"]


def cellconv_flag(pattern: str, i: int, j: int) -> bool:
    """flag of body cell (row i, column j); column 0 is the tag column"""
    if pattern == "row0-on-rest-off":
        return i == 0
    if pattern == "row0-off-rest-on":
        return i != 0
    if pattern == "alternating-rows":
        return i % 2 == 0
    if pattern == "alternating-columns":
        return j % 2 == 0
    if pattern == "checkerboard":
        return (i + j) % 2 == 0
    raise ValueError(pattern)


def cellconv_slots(pattern: str, fill: int):
    """-> (matrix, [(cp, string, flag)] in slot order).  Conversion-off cells take the token-bearing texts and every
    boundary code point (whole and inner form) of the conversion-off space, conversion-on cells the boundary code points
    of the conversion-on space; each list is walked cyclically."""
    off = ([(max(ord(c) for c in t), t) for t in TOKEN_TEXTS]
           + [(cp, slot_string(cp, form, fill)) for form in ("whole", "inner") for cp in BOUNDARY if in_space(cp, False)])
    on = [(cp, slot_string(cp, form, fill)) for form in ("whole", "inner") for cp in BOUNDARY if in_space(cp, True)]
    matrix = [[cellconv_flag(pattern, i, j) for j in range(K_BODY + 1)] for i in range(CELLCONV_ROWS)]
    slots, k_on, k_off = [], 0, 0
    for i in range(CELLCONV_ROWS):
        for j in range(1, K_BODY + 1):
            if matrix[i][j]:
                cp, t = on[k_on % len(on)]
                k_on += 1
            else:
                cp, t = off[k_off % len(off)]
                k_off += 1
            slots.append((cp, t, matrix[i][j]))
    return matrix, slots


def slot_string(cp: int, form: str, fill: int) -> str:
    if form == "whole":
        return chr(cp)
    a, b = FILLERS[fill % len(FILLERS)]
    return a + chr(cp) + b


def rclass(cp: int) -> str:
    if cp < 0x80:
        return "ascii"
    if cp == 0xB1:
        return "U+00B1"
    if cp <= 0xFF:
        return "latin1"
    if cp < 0x8000:
        return "bmp-low"
    if cp <= 0xFFFF:
        return "bmp-high"
    return "astral"


# --------------------------------------------------------------------------- building the documents


def _interleave(strings, tag):
    """c0, T0, c1, T1, ..., c(n-1): code points at the true start and end, tags in between."""
    out = []
    for i, s in enumerate(strings):
        if i:
            out.append(f"{tag}{i - 1}")
        out.append(s)
    return out


DTYPES = ("categorical", "enum", "list", "object")


class _Obj:
    """value of a pl.Object column: displays as its text"""

    def __init__(self, v):
        self.v = v

    def __str__(self):
        return self.v

    __repr__ = __str__


def _as_dtype(name: str, values: list, dtype):
    """the body column `values` (strings) as a polars Series of a non-String dtype whose display text carries the strings"""
    import polars as pl

    if dtype is None:
        return pl.Series(name, values, dtype=pl.String)
    if dtype == "categorical":
        return pl.Series(name, values, dtype=pl.Categorical)
    if dtype == "enum":
        return pl.Series(name, values, dtype=pl.Enum(list(dict.fromkeys(values))))
    if dtype == "list":
        return pl.Series(name, [[v] for v in values], dtype=pl.List(pl.String))
    if dtype == "object":
        return pl.Series(name, [_Obj(v) for v in values], dtype=pl.Object)
    raise ValueError(dtype)


def repr_safe(s: str) -> bool:
    """str([s]) shows s verbatim between single quotes (no repr escape, which would bring in a backslash)"""
    return repr(s) == "'" + s + "'"


def build(pos: str, strings: list, conv: bool, dtype=None):
    import polars as pl
    import rtflite as rtf

    n = len(strings)
    page = rtf.RTFPage(nrow=1000000)
    one = pl.DataFrame({"a": ["B0"]})
    kw = {"rtf_page": page, "rtf_column_header": []}
    if pos == "body":
        rows = (n + K_BODY - 1) // K_BODY
        cols = [pl.Series("t", [f"D{i}" for i in range(rows)], dtype=pl.String)]
        for j in range(K_BODY):
            cols.append(_as_dtype(f"c{j}", [strings[i * K_BODY + j] if i * K_BODY + j < n else "pad" for i in range(rows)], dtype))
        return rtf.RTFDocument(df=pl.DataFrame(cols), rtf_body=rtf.RTFBody(text_convert=conv), **kw)
    if pos == "colheader":
        rows = (n + K_HEAD - 1) // K_HEAD
        hdr = []
        for i in range(rows):
            cells = [strings[i * K_HEAD + j] if i * K_HEAD + j < n else "pad" for j in range(K_HEAD)]
            hdr.append(rtf.RTFColumnHeader(text=[f"H{i}"] + cells, text_convert=conv))
        kw["rtf_column_header"] = hdr
        df = pl.DataFrame({f"c{j}": [f"B{j}"] for j in range(K_HEAD + 1)})
        return rtf.RTFDocument(df=df, **kw)
    if pos in ("title", "subline", "page_header", "page_footer"):
        cls, arg, tag = {"title": (rtf.RTFTitle, "rtf_title", "T"), "subline": (rtf.RTFSubline, "rtf_subline", "S"),
                         "page_header": (rtf.RTFPageHeader, "rtf_page_header", "P"),
                         "page_footer": (rtf.RTFPageFooter, "rtf_page_footer", "Q")}[pos]
        kw[arg] = cls(text=_interleave(strings, tag), text_convert=conv)
        return rtf.RTFDocument(df=one, **kw)
    if pos in ("footnote_table", "footnote_para", "source_table", "source_para"):
        cls, arg, tag = ((rtf.RTFFootnote, "rtf_footnote", "F") if pos.startswith("footnote")
                         else (rtf.RTFSource, "rtf_source", "Z"))
        kw[arg] = cls(text=_interleave(strings, tag), as_table=pos.endswith("table"), text_convert=conv)
        return rtf.RTFDocument(df=one, **kw)
    if pos == "page_by":
        g = (n + PB_LEVELS - 1) // PB_LEVELS
        cols = {}
        for lv in range(PB_LEVELS):
            cols[f"g{lv}"] = [strings[lv * g + i] if lv * g + i < n else f"pad{i}" for i in range(g)]
        cols["t"] = [f"D{i}" for i in range(g)]
        body = rtf.RTFBody(page_by=[f"g{lv}" for lv in range(PB_LEVELS)], text_convert=conv)
        return rtf.RTFDocument(df=pl.DataFrame(cols), rtf_body=body, **kw)
    if pos == "subline_by":
        df = pl.DataFrame({"u": strings, "t": [f"D{i}" for i in range(n)]})
        return rtf.RTFDocument(df=df, rtf_body=rtf.RTFBody(subline_by=["u"], text_convert=conv), **kw)
    raise ValueError(pos)


# --------------------------------------------------------------------------- reading the slots back


def _split_lines(events):
    """events of one paragraph / cell -> list of (text, stray) split at line breaks"""
    parts, cur, stray = [], [], []
    for e in events:
        if e[0] == "t":
            cur.append(e[1])
        elif e[0] == "line":
            parts.append(("".join(cur), stray))
            cur, stray = [], []
        else:
            stray.append(e)
    parts.append(("".join(cur), stray))
    return parts


def _rows(doc):
    return [b for pg in doc.pages for b in pg.blocks if b.kind == "row"]


def _paras(doc):
    return [b for pg in doc.pages for b in pg.blocks if b.kind == "para" and b.events]


def observe(pos: str, doc, n: int):
    """-> (obs, problems): obs[i] = (text, stray events) read for slot i or None; problems = structural findings"""
    obs = [None] * n
    problems = []

    def cell_obs(c):
        parts = _split_lines(c.events)
        text = "\n".join(p[0] for p in parts)
        return (text, [e for p in parts for e in p[1]] + ([("line",)] if len(parts) > 1 else []))

    def lines_check(blocks_events, tag, what):
        parts = []
        for ev in blocks_events:
            parts.extend(_split_lines(ev))
        if len(parts) != 2 * n - 1:
            problems.append((f"{what}-line-count", f"{len(parts)} lines read, {2 * n - 1} written"))
            return
        for i in range(n - 1):
            t = parts[2 * i + 1]
            if t[0] != f"{tag}{i}" or t[1]:
                problems.append((f"{what}-tag-sequence", f"line {2 * i + 1} reads {t[0]!r}, expected tag {tag}{i}"))
                return
        for i in range(n):
            obs[i] = parts[2 * i]

    rows, paras = _rows(doc), _paras(doc)
    if pos == "body":
        nr = (n + K_BODY - 1) // K_BODY
        if len(rows) != nr:
            problems.append(("body-row-count", f"{len(rows)} rows read, {nr} written"))
            return obs, problems
        for i, r in enumerate(rows):
            if len(r.cells) != K_BODY + 1 or r.cells[0].text != f"D{i}" or r.ncell != r.ncellx:
                problems.append(("body-row-shape", f"row {i}: {len(r.cells)} cells, tag cell {r.cells[0].text if r.cells else None!r}"))
                return [None] * n, problems
            for j in range(K_BODY):
                s = i * K_BODY + j
                if s < n:
                    obs[s] = cell_obs(r.cells[1 + j])
                elif r.cells[1 + j].text not in ("pad", "['pad']"):
                    problems.append(("body-pad-cell", repr(r.cells[1 + j].text)))
        if paras:
            problems.append(("body-unexpected-paragraph", repr(paras[0].text[:40])))
    elif pos == "colheader":
        nr = (n + K_HEAD - 1) // K_HEAD
        if len(rows) != nr + 1:
            problems.append(("colheader-row-count", f"{len(rows)} rows read, {nr} header rows + 1 data row written"))
            return obs, problems
        for i, r in enumerate(rows[:-1]):
            if len(r.cells) != K_HEAD + 1 or r.cells[0].text != f"H{i}" or r.ncell != r.ncellx:
                problems.append(("colheader-row-shape", f"header row {i}: {len(r.cells)} cells, tag cell {r.cells[0].text if r.cells else None!r}"))
                return [None] * n, problems
            for j in range(K_HEAD):
                s = i * K_HEAD + j
                if s < n:
                    obs[s] = cell_obs(r.cells[1 + j])
        if rows[-1].texts != [f"B{j}" for j in range(K_HEAD + 1)]:
            problems.append(("colheader-data-row", repr(rows[-1].texts)))
    elif pos in ("title", "subline", "footnote_para", "source_para"):
        if [r.texts for r in rows] != [["B0"]]:
            problems.append((f"{pos}-table-rows", repr([r.texts for r in rows][:3])))
        lines_check([p.events for p in paras], {"title": "T", "subline": "S", "footnote_para": "F", "source_para": "Z"}[pos], pos)
    elif pos in ("footnote_table", "source_table"):
        if not rows or rows[0].texts != ["B0"]:
            problems.append((f"{pos}-data-row", repr([r.texts for r in rows][:2])))
        if paras:
            problems.append((f"{pos}-unexpected-paragraph", repr(paras[0].text[:40])))
        lines_check([c.events for r in rows[1:] for c in r.cells], "F" if pos.startswith("f") else "Z", pos)
    elif pos in ("page_header", "page_footer"):
        if [r.texts for r in rows] != [["B0"]]:
            problems.append((f"{pos}-table-rows", repr([r.texts for r in rows][:3])))
        dest = doc.headers if pos == "page_header" else doc.footers
        lines_check([p.events for d in dest for p in d if p.events], "P" if pos == "page_header" else "Q", pos)
    elif pos == "page_by":
        g = (n + PB_LEVELS - 1) // PB_LEVELS
        if len(rows) != g * (PB_LEVELS + 1):
            problems.append(("page_by-row-count", f"{len(rows)} rows read, {g} groups x ({PB_LEVELS} headings + 1 data row) written"))
            return obs, problems
        for i in range(g):
            grp = rows[i * (PB_LEVELS + 1):(i + 1) * (PB_LEVELS + 1)]
            if grp[-1].texts != [f"D{i}"] or any(len(r.cells) != 1 for r in grp):
                problems.append(("page_by-row-shape", f"group {i}: {[r.texts for r in grp]!r}"[:200]))
                return [None] * n, problems
            for lv in range(PB_LEVELS):
                s = lv * g + i
                if s < n:
                    obs[s] = cell_obs(grp[lv].cells[0])
                elif grp[lv].texts != [f"pad{i}"]:
                    problems.append(("page_by-pad-row", repr(grp[lv].texts)))
    elif pos == "subline_by":
        if len(doc.pages) != n:
            problems.append(("subline_by-page-count", f"{len(doc.pages)} pages read, {n} subline_by groups written"))
            return obs, problems
        for i, pg in enumerate(doc.pages):
            prs = [b for b in pg.blocks if b.kind == "para" and b.events]
            rws = [b for b in pg.blocks if b.kind == "row"]
            if [r.texts for r in rws] != [[f"D{i}"]] or len(prs) != 1 or pg.blocks.index(prs[0]) > pg.blocks.index(rws[0]):
                problems.append(("subline_by-page-shape", f"page {i + 1}: paragraphs {[p.text for p in prs]!r} rows {[r.texts for r in rws]!r}"[:200]))
                return [None] * n, problems
            obs[i] = cell_obs(prs[0])
    else:
        raise ValueError(pos)
    return obs, problems


# --------------------------------------------------------------------------- classifiers of the known mechanisms


def raw_utf8_as_ansi(s: str):
    """What an RTF reader makes of the UTF-8 bytes of s under plain \\ansi (cp1252):
    -> (text, Counter of reader errors this reading produces)"""
    out, errs = [], Counter()
    for b in s.encode("utf-8"):
        if b < 0x80:
            out.append(chr(b))
        else:
            try:
                out.append(bytes([b]).decode("cp1252"))
            except UnicodeDecodeError:
                out.append("�")
                errs[("byte-undefined-in-code-page", hex(b))] += 1
    return "".join(out), errs


_BYPASS = None


def subline_by_bypasses_escaping() -> bool:
    """One probe per worker: is U+0394 in a subline_by heading written as raw UTF-8 (where the regular
    text pipeline would have to escape it)?  Used only to attribute the Latin-1 code points in that
    position, for which 'raw UTF-8 because Latin-1 is kept raw' and 'raw UTF-8 because the heading
    bypasses the pipeline' predict the same bytes."""
    global _BYPASS
    if _BYPASS is None:
        try:
            doc = _write_and_read(build("subline_by", ["Δ"], True))
            obs, problems = observe("subline_by", doc, 1)
            _BYPASS = (not problems) and obs[0] is not None and obs[0][0] == raw_utf8_as_ansi("Δ")[0]
        except Exception:
            _BYPASS = False
    return _BYPASS


MECHANISMS = ("latin1-raw-utf8-under-ansi", "astral-u-escape-out-of-range", "astral-u-escape-wraps-into-bmp",
              "subline-by-heading-unescaped")


def _applies(mech: str, cp: int) -> bool:
    if mech == "latin1-raw-utf8-under-ansi":
        return 0xA0 <= cp <= 0xFF and cp != 0xB1
    if mech == "astral-u-escape-out-of-range":
        return cp >= 0x18000
    if mech == "astral-u-escape-wraps-into-bmp":
        return 0x10000 <= cp <= 0x17FFF
    if mech == "subline-by-heading-unescaped":
        return cp >= 0x80
    return False


def predict(s: str, mechs):
    """What the reader must see for input s if exactly the mechanisms `mechs` are at work and every other
    character is written correctly -> (text, Counter of reader errors)."""
    out, errs = [], Counter()
    for ch in s:
        cp = ord(ch)
        m = next((m for m in mechs if _applies(m, cp)), None)
        if m is None:
            out.append(ch)
        elif m in ("latin1-raw-utf8-under-ansi", "subline-by-heading-unescaped"):
            # the UTF-8 bytes of the character, read byte by byte as cp1252 (C3 81/8D/8F/90/9D: second byte undefined there)
            t, e = raw_utf8_as_ansi(ch)
            out.append(t)
            errs.update(e)
        elif m == "astral-u-escape-out-of-range":
            # a single \u escape carrying cp - 65536, which is above 32767
            out.append("\ufffd")
            errs[("u-escape-out-of-range", str(cp - 65536))] += 1
        else:
            # the same single escape, but cp - 65536 <= 32767 is a valid \u value: another BMP character is read
            out.append(chr(cp - 65536))
    return "".join(out), errs


def classify(pos: str, s: str, got: str, avail: Counter):
    """-> (tuple of mechanism names or None, errors consumed).  Mechanisms are returned only if the observed text and
    the reader errors are exactly what they produce for this string, each returned mechanism applies to a character
    of the string, and all other characters were read back intact."""
    cps = [ord(c) for c in s]
    if pos == "subline_by":
        # in this position 'Latin-1 kept raw' and 'heading bypasses the text pipeline' predict the same bytes for
        # U+00A0-00FF; the probe decides which mechanism is present in this tree
        cand = ["subline-by-heading-unescaped"] if subline_by_bypasses_escaping() else list(MECHANISMS[:3])
    else:
        cand = list(MECHANISMS[:3])
    cand = [m for m in cand if any(_applies(m, cp) for cp in cps)]
    for k in range(1, len(cand) + 1):
        for sub in itertools.combinations(cand, k):
            text, errs = predict(s, sub)
            if text == got and all(avail[e] >= v for e, v in errs.items()):
                return sub, errs
    return None, Counter()


# --------------------------------------------------------------------------- one case


def _write_and_read(document):
    wd = os.path.join(repo.VERIF, ".work", f"c10-{os.getpid()}")
    os.makedirs(wd, exist_ok=True)
    path = os.path.join(wd, "d.rtf")
    try:
        with contextlib.redirect_stdout(io.StringIO()):
            document.write_rtf(path)
        with open(path, "rb") as f:
            data = f.read()
    finally:
        with contextlib.suppress(OSError):
            os.remove(path)
        with contextlib.suppress(OSError):
            os.rmdir(wd)
    return parse(data)


def eval_case(case: dict) -> dict:
    pos, conv, form, fill = case["pos"], case["conv"], case.get("form", "whole"), case.get("fill", 0)
    if form == "pairs":
        ps = pair_strings(case)
        cps, strings = [p[0] for p in ps], [p[1] for p in ps]
    elif form == "runs":
        ps = run_strings(case)
        cps, strings = [p[0] for p in ps], [p[1] for p in ps]
    elif form == "foreign":
        ps = foreign_strings(conv, case.get("more", False))[case["lo"]:case["hi"]]
        cps, strings = [p[0] for p in ps], [p[1] for p in ps]
    elif form == "cellconv":
        matrix, ps = cellconv_slots(case["pattern"], fill)
        cps, strings, flags = [p[0] for p in ps], [p[1] for p in ps], [p[2] for p in ps]
        conv = matrix  # handed to RTFBody(text_convert=...) as it is
    else:
        cps = case_cps(case)
        strings = [slot_string(cp, form, fill) for cp in cps]
    dtype = case.get("dtype")
    if dtype == "list":
        # the display of a list value is str(list): keep the strings that it shows verbatim
        keep = [k for k, x in enumerate(strings) if repr_safe(x)]
        cps, strings = [cps[k] for k in keep], [strings[k] for k in keep]
    n = len(cps)
    if n == 0:
        return {"viol": [], "nt": False, "cnt": {"empty-case": 1}}
    where = pos if dtype is None else f"{pos}[{dtype}]"
    if form == "cellconv":
        where = f"{pos}[cell-matrix {case['pattern']}]"
        convtxt = case["pattern"]
    else:
        flags = [conv] * n
        convtxt = conv
    try:
        doc = _write_and_read(build(pos, strings, conv, dtype))
    except Exception as e:
        return {"viol": [{"klass": None, "sig": f"encode-raised-{type(e).__name__}" + ("" if dtype is None else f"-{dtype}"),
                          "detail": f"{where} conv={convtxt} U+{cps[0]:04X}..U+{cps[-1]:04X}: {type(e).__name__}: {e}"[:400]}],
                "nt": False, "cnt": {"raised": 1}}
    groups: dict = {}

    def add(klass, sig, detail):
        g = groups.setdefault((klass, sig), {"n": 0, "detail": detail})
        g["n"] += 1

    obs, problems = observe(pos, doc, n)
    for sig, detail in problems:
        add(None, f"structure-{sig}" + ("" if dtype is None else f"-{dtype}"), f"{where} conv={convtxt}: {detail}")
    avail = Counter((e[0], e[2]) for e in doc.errors)
    cnt = Counter()
    checked = 0
    for cp, s, o, cv in zip(cps, strings, obs, flags):
        if o is None:
            continue
        checked += 1
        got, stray = o
        rc = rclass(cp)
        cnt[f"compared:{rc}"] += 1
        if dtype == "list":
            # how a list is displayed is not the property's business: the string must be readable inside the cell text
            if s in got and not stray:
                cnt[f"intact:{rc}"] += 1
                continue
            s = str([s])
        if got == s and not stray:
            cnt[f"intact:{rc}"] += 1
            continue
        if stray and got == s:
            add(None, f"stray-control-{where}-{rc}", f"{where} conv={convtxt} form={form}: {'on' if cv else 'off'}-cell U+{cp:04X} {s!r} read back with extra events {stray[:3]!r}")
            continue
        mechs, used = classify(pos, s, got, avail) if not stray else (None, Counter())
        avail.subtract(used)
        if mechs:
            for klass in mechs:
                cnt[f"known:{klass}"] += 1
                add(klass, klass, f"{where} conv={convtxt} form={form}: {'on' if cv else 'off'}-cell U+{cp:04X} {s!r} read back as {got!r}")
        else:
            add(None, f"altered-{where}-{rc}" + ("" if cv else "-convoff"),
                f"{where} conv={convtxt} form={form}: {'on' if cv else 'off'}-cell U+{cp:04X} {s!r} read back as {got!r}" + (f" with events {stray[:3]!r}" if stray else ""))
    for (code, detail), k in sorted(avail.items()):
        if k > 0:
            add(None, f"reader-error-{code}-{where}", f"{where} conv={convtxt} form={form} U+{cps[0]:04X}..U+{cps[-1]:04X}: {k}x {code} {detail}")
    viol = [{"klass": k, "sig": sig, "detail": g["detail"] + (f"  [{g['n']} code points in this document]" if g["n"] > 1 else "")}
            for (k, sig), g in groups.items()]
    cnt[f"checked:{where}"] += checked
    if form == "cellconv":
        cnt["checked:conv=per-cell"] += checked
        cnt["cellconv:off-cells-with-token-text"] += sum(1 for s_, f_, o_ in zip(strings, flags, obs) if o_ is not None and not f_ and s_ in TOKEN_TEXTS)
    else:
        cnt[f"checked:conv={'on' if conv else 'off'}"] += checked
    cnt[f"checked:form={form}"] += checked
    cnt["documents"] += 1
    cnt["code-point-slots"] += checked
    sample = None
    if pos != "body" and form == "inner" and conv:
        sample = {"case": {k: v for k, v in case.items() if k != "cps"}, "first": strings[0], "read": obs[0][0] if obs[0] else None,
                  "slots": n, "reader_errors": len(doc.errors)}
    res = {"viol": viol, "nt": any(cp >= 0x80 for cp in cps), "cnt": dict(cnt)}
    if sample is not None:
        res["sample"] = sample
    return res


# --------------------------------------------------------------------------- enumeration


def ranges(per_doc: int):
    lo = 0
    while lo < 0x110000:
        hi = min(lo + per_doc, 0x110000)
        if not (lo >= 0xD800 and hi <= 0xE000):
            yield lo, hi
        lo = hi


def space_size(conv: bool) -> int:
    return 0x110000 - 2048 - 65 - 3 - (2 if conv else 0)


def selfcheck():
    """hand-computed expectations for the predictors and the space (harness guard)"""
    assert raw_utf8_as_ansi("é") == ("Ã©", Counter()), raw_utf8_as_ansi("é")
    assert raw_utf8_as_ansi("Á") == ("Ã�", Counter({("byte-undefined-in-code-page", "0x81"): 1}))
    assert predict("x\U0001F600é", MECHANISMS[:3])[0] == "x�Ã©"
    assert predict("\U00010041±", MECHANISMS[:3])[0] == "A±"
    assert space_size(False) == sum(1 for r in ((0x20, 0x7F), (0xA0, 0xD800), (0xE000, 0x110000)) for _ in range(*r)) - 3
    assert not in_space(0x5C, False) and not in_space(0x5E, True) and in_space(0x5E, False) and not in_space(0xD800, False)
    good = parse(b"{\\rtf1\\ansi {\\pard x\\uc1\\u-10179*\\uc1\\u-8704*\\'e9\\u945?y\\par}}")
    assert good.errors == [] and good.pages[0].blocks[0].text == "x\U0001F600éαy", (good.errors, good.pages[0].blocks[0].text)


def plan(run):
    quick = run.tier == "quick"
    try:
        selfcheck()
    except AssertionError as e:
        run.harness_errors.append({"layer": "selfcheck", "case": None, "error": f"self-check failed: {e!r}"})
        return
    run.rule = ("every Unicode scalar value except U+0000-001F, U+007F-009F, backslash and braces (conversion on: also ^ _); "
                "one case = one document packing a code-point range into one position with one conversion flag and one form "
                "(whole = the user string is the character alone, i.e. at both string boundaries; inner = between two filler "
                "characters). quick: as whole strings in body cells all code points with conversion on, and with conversion off the BMP plus "
                f"one supplementary plane rotated by the seed (plane {1 + run.seed % 16} in this run; all 1.1M x 2 do not fit the quick budget) + "
                f"{len(BOUNDARY)} class-boundary code points x 12 positions x {{on, off}} x {{whole, inner}} (inner filler pair rotated by seed). "
                "thorough: all code points x 12 positions x {on, off} as whole strings, + inner form in body cells, + boundary layer "
                "with every filler pair. both tiers: every ordered pair of boundary code points as a two-character string (quick: body, title; "
                "thorough: six positions), and body cells taken from Categorical / Enum / List(String) / Object columns (display text = str(value); "
                "for lists: the string must be readable inside the cell text) - quick: the boundary code points, whole and inner, on and off; "
                "thorough: additionally all of U+0080-07FF and every 257th code point. both tiers: ASCII text that is escape syntax of another layer "
                "(XML/HTML character references decimal/hex/named, percent-encoding, quoted-printable, U+ notation, printf/shell/SQL directives, RTF words "
                f"without backslash: 11 syntaxes x {len(FOREIGN_TARGETS_QUICK)} (quick) / {len(FOREIGN_TARGETS_QUICK) + len(FOREIGN_TARGETS_MORE)} (thorough) target numbers + "
                f"{len(FOREIGN_FIXED)} fixed strings), alone and mixed with non-ASCII characters ({len(FOREIGN_MIX)} mixes), x 12 positions + 4 non-String dtypes x {{on, off}}; "
                f"the conversion switch per cell: {len(CELLCONV_PATTERNS)} text_convert matrices (first row on / rest off and the reverse, alternating rows, "
                f"alternating columns, checkerboard) over a {CELLCONV_ROWS}x{K_BODY + 1} single-segment body - conversion-off cells carry {len(TOKEN_TEXTS)} token-bearing "
                "texts (^ _ >= <=, also next to non-ASCII) and the boundary code points whole/inner and must read back verbatim, conversion-on cells carry "
                "the boundary code points of the conversion-on space. non-trivial = the document contains a code point >= U+0080; distinct = distinct case")
    run.assumptions = [
        "reader decoding rules: \\ansi without \\ansicpg = cp1252; \\uN signed 16 bit followed by \\ucN fallback characters; surrogate pairs combined",
        "U+005C, U+007B, U+007D are not in the space (raw RTF pass-through is a documented feature); ^ and _ only with conversion off",
        "non-String body columns: Categorical, Enum, List(String), Object are covered (Struct is not: its display contains braces, i.e. raw RTF)",
        "footnote/source lines are joined by rtflite at construction; code points sit at the true start and end of the joined string and at every line boundary",
    ]
    fn = "mc.props.c10:eval_case"
    # boundary layer: all positions
    fills = [run.seed % len(FILLERS)] if quick else list(range(len(FILLERS)))
    bcases = []
    for pos in POSITIONS:
        step = PER_DOC[pos] if pos in ("subline_by",) else len(BOUNDARY)
        for conv in (True, False):
            for k in range(0, len(BOUNDARY), step):
                bcases.append({"pos": pos, "conv": conv, "form": "whole", "cps": BOUNDARY[k:k + step]})
                for fl in fills:
                    bcases.append({"pos": pos, "conv": conv, "form": "inner", "fill": fl, "cps": BOUNDARY[k:k + step]})
    run.layer("boundary-code-points-all-positions", fn, bcases, chunk=4, total=len(bcases))
    pcases = [{"pos": pos, "conv": conv, "form": "pairs", "lo": lo, "hi": lo + 14}
              for pos in (("body", "title") if quick else ("body", "colheader", "title", "footnote_table", "source_para", "page_header"))
              for conv in (True, False) for lo in range(0, len(BOUNDARY), 14)]
    run.layer("boundary-pairs", fn, pcases, chunk=2, total=len(pcases))
    nruns = len(run_strings({"lo": 0, "hi": None}))
    rcases = [{"pos": pos, "conv": conv, "form": "runs", "lo": lo, "hi": lo + 38}
              for pos in (("body", "title", "footnote_table") if quick else ("body", "colheader", "title", "subline", "footnote_table", "footnote_para", "source_para", "page_header"))
              for conv in (True, False) for lo in range(0, nruns, 38)]
    run.layer("non-ascii-runs-followed-by-ascii", fn, rcases, chunk=2, total=len(rcases))

    # text that is escape syntax of another layer, in every position and in the non-String columns
    fcases = []
    nforeign = {conv: len(foreign_strings(conv, not quick)) for conv in (True, False)}
    for conv in (True, False):
        for pos in POSITIONS:
            step = PER_DOC[pos] if pos in ("subline_by", "page_by") else nforeign[conv]
            fcases += [{"pos": pos, "conv": conv, "form": "foreign", "more": not quick, "lo": lo, "hi": lo + step}
                       for lo in range(0, nforeign[conv], step)]
        fcases += [{"pos": "body", "dtype": dt, "conv": conv, "form": "foreign", "more": not quick, "lo": 0, "hi": nforeign[conv]}
                   for dt in DTYPES]
    run.layer("foreign-escape-syntax-all-positions", fn, fcases, chunk=3, total=len(fcases))

    # the conversion switch per cell: full text_convert matrices over a single-segment body
    ccases = [{"pos": "body", "conv": None, "form": "cellconv", "pattern": pat, "fill": fl} for pat in CELLCONV_PATTERNS for fl in fills]
    run.layer("per-cell-conversion-matrices-body", fn, ccases, chunk=1, total=len(ccases))

    # body cells from columns that are not of dtype String (their display text is str(value))
    if quick:
        slices = [{"cps": BOUNDARY}]
    else:
        per = 2000 * 257
        slices = ([{"cps": BOUNDARY}, {"lo": 0x80, "hi": 0x800}]
                  + [{"lo": lo, "hi": min(lo + per, 0x110000), "step": 257} for lo in range(0, 0x110000, per)])
    dcases = []
    for dt in DTYPES:
        for conv in (True, False):
            for sl in slices:
                dcases.append({"pos": "body", "dtype": dt, "conv": conv, "form": "whole", **sl})
                for fl in fills:
                    dcases.append({"pos": "body", "dtype": dt, "conv": conv, "form": "inner", "fill": fl, **sl})
    run.layer("body-cells-from-non-string-columns", fn, dcases, chunk=2, total=len(dcases))

    def full(pos, form, convs=(True, False)):
        return [{"pos": pos, "conv": conv, "form": form, "lo": lo, "hi": hi}
                for conv in convs for lo, hi in ranges(PER_DOC[pos])]

    body = full("body", "whole")
    plane = 1 + run.seed % 16
    if quick:
        # conversion off: the BMP and one supplementary plane (rotated by the seed); everything with conversion on
        body = [c for c in body if c["conv"] or c["lo"] < 0x10000 or plane in (c["lo"] >> 16, (c["hi"] - 1) >> 16)]
    run.layer("all-code-points-body-whole", fn, body, chunk=4, total=len(body))
    if not quick:
        inner = full("body", "inner")
        run.layer("all-code-points-body-inner", fn, inner, chunk=4, total=len(inner))
        # cheapest positions first, so that a budget cut leaves the most layers complete
        for pos in sorted(POSITIONS[1:], key=lambda p: (p == "subline_by", p == "page_by")):
            cases = full(pos, "whole")
            ch = 4 if PER_DOC[pos] >= 2000 else (20 if pos == "page_by" else 100)
            run.layer(f"all-code-points-{pos}-whole", fn, cases, chunk=ch, total=len(cases))
    # vacuity guards / accounting
    got = run.cnt.get("checked:body", 0)
    nb = sum(1 for cp in BOUNDARY for conv in (True, False) if in_space(cp, conv))
    npairs = sum(len(pair_strings({"conv": conv, "lo": 0, "hi": len(BOUNDARY)})) for conv in (True, False))
    nbody = sum(len(case_cps(c)) for c in body)
    if not quick and nbody != space_size(True) + space_size(False):
        run.harness_errors.append({"layer": "accounting", "case": None, "error": f"body layer enumerates {nbody} slots, space has {space_size(True) + space_size(False)}"})
    exp_body = nbody * (1 if quick else 2) + nb * (1 + len(fills)) + npairs + nforeign[True] + nforeign[False] + 2 * nruns
    if all(l["completed"] for l in run.layers) and got != exp_body and not run.viol:
        run.harness_errors.append({"layer": "accounting", "case": None,
                                   "error": f"body slots checked {got}, expected {exp_body}"})
    if all(l["completed"] for l in run.layers) and not run.viol and not run.cnt.get("cellconv:off-cells-with-token-text"):
        run.harness_errors.append({"layer": "vacuity", "case": None, "error": "no conversion-off cell with a token-bearing text was compared"})
    for dt in DTYPES:
        if all(l["completed"] for l in run.layers) and not run.cnt.get(f"checked:body[{dt}]") and not run.viol:
            run.harness_errors.append({"layer": "vacuity", "case": None, "error": f"no body cell from a {dt} column was compared"})
    for need in ("latin1", "U+00B1", "bmp-low", "bmp-high", "astral", "ascii"):
        if not run.cnt.get("compared:" + need):
            run.harness_errors.append({"layer": "vacuity", "case": None, "error": f"no code point of class {need} was compared"})
    run.extra["foreign_escape_strings"] = {"conversion_on": nforeign[True], "conversion_off": nforeign[False]}
    run.extra["space"] = {"code_points_conversion_on": space_size(True), "code_points_conversion_off": space_size(False),
                          "positions": list(POSITIONS), "body_slots_enumerated_this_run": nbody}

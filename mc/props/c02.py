"""C02 - no data cell is lost, duplicated, reordered or altered.

Exhaustive product of the pagination-relevant core (row count x nrow x strategy x every composition
of the rows into group runs x height vectors x position of the removed column), plus radius-1
deviations (header / footnote / source modes, placements, value classes, text_convert off with
conversion-triggering ASCII).  Oracle: the data rows of all parsed pages concatenated in page order
are exactly the DataFrame's rows in order, each once; every visible cell's text equals the value's
display text; the columns consumed by page_by (as spanning rows) / subline_by are the only ones not
rendered and the others keep their order; per section for multi-section documents.
"""
from __future__ import annotations

import itertools

from ..rtfreader.reader import parse
from ..spec import docspec

PID = "C02"
LEVEL = "exploration"
TECHNIQUE = ("bounded exhaustive enumeration of the pagination core product (rows x nrow x strategy x all group-run compositions x height vectors x removed-column "
             "position) on the real encoder; table reconstructed from the re-parsed RTF and compared cell by cell with the input")
LEVEL_TEXT = ("Every combination of row count 0..8 (12), page size, strategy, group-run composition and wrapped/unwrapped heights within the bounds is executed and the "
              "whole table is reconstructed from the output; a row dropped or repeated at a page boundary or cells attached to the wrong column after column removal "
              "depends on exactly these combinations.")
LEVEL_NOTE = "Trusted: RTF reader, sentinel tags. Bounds as in the evidence rule; group_by absent (C13)."

STRATS = ("plain", "page_by", "page_by2", "page_by_newpage_column", "page_by_newpage_firstrow", "subline_by", "subline_by+page_by", "multi2")
NROWS = (1, 2, 3, 4, 5, 7, 10, 50)
SPECIAL = "a^b_c >= d <= e"


def compositions(n):
    """All compositions of n rows into runs -> list of group ordinal vectors."""
    if n == 0:
        return [[]]
    out = []
    for mask in range(1 << (n - 1)):
        keys, k = [0], 0
        for i in range(n - 1):
            if mask >> i & 1:
                k += 1
            keys.append(k)
        out.append(keys)
    return out


def run_vectors(n):
    if n <= 6:
        return compositions(n)
    out = []
    for run in sorted({1, 2, n - 1, n}):
        out.append([r // run for r in range(n)])
    out.append([0] * (n // 2) + [1] * (n - n // 2))
    return out


def make_spec(c):
    n, strat = c["n"], c["strat"]
    cols = list(c.get("cols") or ["s", "ni", "s"])
    spec = {"n": n, "cols": cols, "title": c.get("title", 0), "header": c.get("header", "explicit"), "footnote": c.get("footnote"), "source": c.get("source"),
            "page": {"nrow": c["nrow"]}}
    for k in ("page_title", "page_footnote", "page_source"):
        if c.get(k):
            spec["page"][k] = c[k]
    keys = c.get("keys") or [0] * n
    inner = keys
    if c.get("special"):  # one group of the innermost page_by level holds the divider '-----', null or an empty text
        sp = c["special"]
        inner = [({"divider": -1, "null": None, "blank": "blank"}[sp["value"]] if k == sp["group"] else k) for k in keys]
    if strat in ("page_by", "page_by_newpage_column", "page_by_newpage_firstrow"):
        spec["page_by"] = [inner]
        if strat != "page_by":
            spec["new_page"] = True
            spec["pageby_row"] = "column" if strat.endswith("column") else "first_row"
    elif strat == "page_by2":
        outer = [k // 2 for k in keys]
        spec["page_by"] = [outer, inner]
    elif strat == "subline_by":
        spec["subline_by"] = [keys]
    elif strat == "subline_by+page_by":
        spec["subline_by"] = [[k // 2 for k in keys]]
        spec["page_by"] = [inner]
    if c.get("heights"):
        spec["heights"] = c["heights"]
    gcols = [k for k in ("g0", "g1", "u0") if (k.startswith("g") and len(spec.get("page_by") or []) > int(k[1])) or (k == "u0" and spec.get("subline_by"))]
    dcols = [f"c{j}" for j in range(len(cols))]
    pos = c.get("pos", "first")
    if c.get("gperm"):  # the consumed columns sit in the frame in the opposite order (their names then sort the other way round than their positions)
        gcols = list(reversed(gcols))
    if gcols:
        if pos == "first":
            spec["colorder"] = gcols + dcols
        elif pos == "last":
            spec["colorder"] = dcols + gcols
        else:
            spec["colorder"] = dcols[:1] + gcols + dcols[1:]
    if c.get("convert_off"):
        spec["body"] = {"text_convert": False}
    return spec


def multi_spec(c):
    n = c["n"]
    if c.get("shared_body"):
        # sections of equal shape that hold ONE RTFBody object; the body removes a page_by column
        keys = c.get("keys") or [0] * n
        sec = {"n": n, "cols": ["s", "i"], "header": "explicit", "page_by": [keys]}
        return {"kind": "multi", "multi_header": "nested", "title": 0, "page": {"nrow": c["nrow"]}, "share_body": True,
                "sections": [dict(sec) for _ in range(c["shared_body"])]}
    return {"kind": "multi", "multi_header": "nested", "title": 0, "page": {"nrow": c["nrow"]},
            "sections": [{"n": n, "cols": ["s", "i"], "header": "explicit"},
                         {"n": max(n - 1, 0) if n else 0, "cols": ["s", "f", "s"], "header": c.get("header", "explicit"), "section_new_page": c.get("sec_new_page", False)}][: 2 if n else 2]}


def reconstruct(doc, tags):
    """-> {tag: [(row index, [cell texts])] in stream order}"""
    out = {t: [] for t in tags}
    pages_of = {t: [] for t in tags}
    for pi, pg in enumerate(doc.pages):
        for blk in pg.blocks:
            if blk.kind != "row":
                continue
            role, info = docspec.block_role(blk, data_tags=tags)
            if role == "data":
                out[info[0]].append((info[1], blk.texts))
                pages_of[info[0]].append(pi)
    return out, pages_of


def check_section(b, got, viol, label, ctx):
    n = len(b.display)
    idx = [r for r, _ in got]
    if idx != list(range(n)):
        lost = sorted(set(range(n)) - set(idx))
        dup = sorted({r for r in idx if idx.count(r) > 1})
        what = "lost" if lost else ("duplicated" if dup else "reordered")
        viol.append({"klass": None, "sig": f"rows-{what}", "detail": f"{label}: data rows in page order are {idx}, expected 0..{n - 1} (lost {lost}, duplicated {dup}); {ctx}"})
        return
    for r, texts in got:
        want = [b.display[r][name] for name in b.shown]
        if len(texts) != len(want):
            viol.append({"klass": None, "sig": "column-count", "detail": f"{label} row {r}: {len(texts)} cells, expected columns {b.shown}; {ctx}"})
            return
        if texts != want:
            j = next(j for j in range(len(want)) if texts[j] != want[j])
            swapped = sorted(texts) == sorted(want)
            viol.append({"klass": None, "sig": "cell-in-wrong-column" if swapped else "cell-text-altered",
                         "detail": f"{label} row {r} column {b.shown[j]}: rendered {texts[j]!r}, expected {want[j]!r} (row {texts} vs {want}); {ctx}"})
            return


def eval_case(case: dict) -> dict:
    c = case
    multi = c["strat"] == "multi2"
    spec = multi_spec(c) if multi else make_spec(c)
    try:
        b = docspec.build(spec)
        out = b.doc.rtf_encode()
    except Exception as e:  # noqa: BLE001
        return {"viol": [{"klass": None, "sig": f"encode-raised-{type(e).__name__}", "detail": f"{type(e).__name__}: {str(e)[:150]}; case={c}"}], "nt": False}
    d = parse(out)
    viol = []
    if d.errors:
        viol.append({"klass": None, "sig": "unparseable", "detail": f"{d.errors[:2]}; case={c}"})
    ctx = f"case={ {k: v for k, v in c.items() if v not in (None, False)} }"
    if multi:
        tags = ("A", "B", "C")[: len(b.sections)]
        got, _ = reconstruct(d, tags)
        for t, sec in zip(tags, b.sections):
            check_section(sec, got[t], viol, f"section {t}", ctx)
        # list order: all of section A before section B
        order = []
        for pg in d.pages:
            for blk in pg.blocks:
                if blk.kind == "row":
                    role, info = docspec.block_role(blk, data_tags=tags)
                    if role == "data":
                        order.append(info[0])
        if order != sorted(order):
            viol.append({"klass": None, "sig": "sections-interleaved", "detail": f"section order {order}; {ctx}"})
        npages = len(d.pages)
        removed = False
    else:
        got, pages_of = reconstruct(d, ("D",))
        check_section(b, got["D"], viol, "table", ctx)
        npages = len(d.pages)
        removed = bool(b.removed)
    wrapped = bool(c.get("heights")) and any(h > 1 for h in c["heights"])
    res = {"viol": viol, "nt": npages >= 2 or removed or wrapped, "cnt": {"pages>=2": npages >= 2, "removed_column": removed, "wrapped": wrapped, "multi": multi}}
    if not multi and npages >= 2 and removed and c.get("n", 0) >= 4:
        res["sample"] = {"case": c, "shown_columns": b.shown, "rows_per_page": [sum(1 for p in pages_of["D"] if p == i) for i in range(npages)],
                         "first_row": got["D"][0][1] if got["D"] else None}
    return res


def plan(run):
    quick = run.tier == "quick"
    nmax = 8 if quick else 12
    run.rule = (f"rows n in 0..{nmax} x nrow in {NROWS} x strategy in {STRATS} x every composition of the rows into group runs (n<=6; run lengths "
                "{1,2,n-1,n} beyond; every composition again for n=11 (thorough 9..13) on pages of 10 and 50 rows; every composition of 5 rows (thorough 4..7) with one group holding '-----', null or '') x height vectors {1,2}^n (n<=5, plain and page_by; quick n<=4) x removed column first/middle/last; radius-1 deviations: header "
                "mode, footnote/source mode, placements, value classes incl. blank-padded strings, ints, floats, nulls, text_convert off with '^ _ >= <='. "
                "non-trivial = >= 2 pages or a removed column or a wrapped row; distinct = distinct case")
    run.assumptions = ["data cells are identified by D<r>.<c> tags (A/B per section); numeric columns by position", "group_by is absent (C13 covers suppression)"]
    cases = []
    grouped = [s for s in STRATS if s not in ("plain", "multi2")]
    nrows_q = NROWS
    for n in range(0, nmax + 1):
        for nrow in nrows_q:
            cases.append({"n": n, "nrow": nrow, "strat": "plain"})
            cases.append({"n": n, "nrow": nrow, "strat": "multi2"})
            if 1 <= n <= 4:
                for k in (2, 3):
                    cases.append({"n": n, "nrow": nrow, "strat": "multi2", "shared_body": k, "keys": [r * 2 // n for r in range(n)]})
            for strat in grouped:
                vecs = run_vectors(n) if n else [[]]
                if quick and n > 5:
                    vecs = [v for i, v in enumerate(vecs) if (i + run.seed) % 4 == 0] if n <= 6 else vecs
                for keys in vecs:
                    poss = ("first", "middle", "last") if (n <= 5 or not quick) else (("first", "middle", "last")[(n + nrow + run.seed) % 3],)
                    for pos in poss:
                        cases.append({"n": n, "nrow": nrow, "strat": strat, "keys": keys, "pos": pos})
    # height vectors
    hmax = 4 if quick else 5
    for n in range(1, hmax + 1):
        for hs in itertools.product((1, 2), repeat=n):
            if all(h == 1 for h in hs):
                continue
            for nrow in (2, 3, 5) if quick else (1, 2, 3, 4, 5, 7):
                cases.append({"n": n, "nrow": nrow, "strat": "plain", "heights": list(hs)})
                for keys in (compositions(n) if n <= 4 else run_vectors(n)[::3]):
                    cases.append({"n": n, "nrow": nrow, "strat": "page_by", "keys": keys, "heights": list(hs), "pos": "first"})
    run.layer("core-product", "mc.props.c02:eval_case", cases, chunk=60, total=len(cases))
    # long pages: EVERY composition of n rows into group runs on pages that hold many rows (group boundaries at
    # page-relative rows 8 and beyond, several boundaries on one page, boundaries in every relative order)
    longp = []
    for n in ((11,) if quick else (9, 10, 11, 12, 13)):
        for strat in ("page_by", "page_by2") if quick else ("page_by", "page_by2", "subline_by+page_by", "page_by_newpage_firstrow"):
            for nrow in (50, 10) if quick else (50, 10, 12):
                for keys in compositions(n):
                    longp.append({"n": n, "nrow": nrow, "strat": strat, "keys": keys, "pos": ("first", "middle", "last")[(len(longp) + run.seed) % 3]})
    run.layer("long-pages-all-compositions", "mc.props.c02:eval_case", longp, chunk=100, total=len(longp))
    # group values without a heading text: every composition x every single group replaced by the divider '-----', null or ''
    spc = []
    for n in ((5,) if quick else (4, 5, 6, 7)):
        for keys in compositions(n):
            for g in range(max(keys) + 1):
                for val in ("divider", "null", "blank"):
                    for strat in ("page_by", "page_by2", "subline_by+page_by", "page_by_newpage_firstrow"):
                        for nrow in (50, 3):
                            spc.append({"n": n, "nrow": nrow, "strat": strat, "keys": keys, "pos": "first", "special": {"group": g, "value": val}})
    run.layer("groups-without-heading-text", "mc.props.c02:eval_case", spc, chunk=100, total=len(spc))
    # several consumed columns whose order in the frame is the reverse of the order of their names / of the by-lists
    perm = []
    for n in ((4, 6) if quick else (3, 4, 5, 6)):
        for keys in (compositions(n) if n <= 5 else run_vectors(n)):
            for strat in ("page_by2", "subline_by+page_by"):
                for pos in ("first", "middle", "last"):
                    for nrow in (50, 3):
                        perm.append({"n": n, "nrow": nrow, "strat": strat, "keys": keys, "pos": pos, "gperm": True})
    run.layer("consumed-columns-in-permuted-order", "mc.props.c02:eval_case", perm, chunk=100, total=len(perm))
    # radius-1 deviations around paginated anchors
    dev = []
    anchors = [{"n": 6, "nrow": 3, "strat": s, "keys": [0, 0, 1, 1, 2, 2], "pos": "middle"} for s in ("plain", "page_by", "subline_by", "page_by_newpage_firstrow")]
    for a in anchors:
        for hm in ("default", "none", "two"):
            dev.append(dict(a, header=hm))
        for fn, src in itertools.product((None, "table", "para"), repeat=2):
            dev.append(dict(a, footnote=fn, source=src))
        for pt, pf, ps in itertools.product(("first", "last", "all"), repeat=3):
            dev.append(dict(a, footnote="table", source="para", title=1, page_title=pt, page_footnote=pf, page_source=ps))
        for cols in (["p", "i"], ["s", "f", "m"], ["m", "z", "s"], ["s", "i", "f", "p", "m"], ["s"], ["s", "ni", "nf"], ["s", "nf", "z", "ni"], ["s", "b", "fe"], ["fe", "s", "b", "i"]):
            dev.append(dict(a, cols=cols))
        dev.append(dict(a, convert_off=True))
        dev.append(dict(a, convert_off=True, cols=["x", "i", "x"]))
    run.layer("radius-1-deviations", "mc.props.c02:eval_case", dev, chunk=20, total=len(dev))
    for need in ("pages>=2", "removed_column", "wrapped", "multi"):
        if not run.cnt.get(need):
            run.harness_errors.append({"layer": "vacuity", "case": None, "error": f"counter {need} is zero"})

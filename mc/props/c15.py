"""C15 - concurrent encodes do not interfere.

Stateless model checking of real threads under a controlled scheduler (mc/explore/sched.py):
2-3 threads each encode a pool document (different palettes/shapes); ALL schedules with at most p
preemptions at every library call boundary are executed (p = 0, 1 always; 2 on the smallest
document in the thorough tier, inside the start-up window and over the epoch grid).  Oracle: every thread returns exactly its solo result.
"""
from __future__ import annotations

import hashlib
import itertools
import re

from ..explore import census as C
from ..explore import histpool as HP
from ..explore import sched as SCHED
from ..explore.sched import Deadlock, Sched

PID = "C15"
LEVEL = "model_checking"
TECHNIQUE = ("stateless model checking of real threads under a cooperative baton scheduler (sys.monitoring events in library code): "
             "exhaustive enumeration of all schedules with <= p preemptions (iterative context bounding) at every library function entry and at every line of state-changing functions, plus non-nested two-preemption schedules over the epochs of constant process-global state; each thread's result compared with its solo result")
LEVEL_TEXT = ("Every schedule of 2 (and 3) encoding threads with at most one preemption at any library function-call boundary is executed on the real code; "
              "two preemptions exhaustively on the smallest document in the thorough tier, and for every pair inside the start-up window and over the epoch grid (non-nested order). Only specific preemption windows corrupt a result, so the schedule "
              "space has to be enumerated rather than stressed.")
LEVEL_NOTE = ("Preemption points are function-call boundaries inside rtflite (the property's own quantifier); the real interpreter can switch at any bytecode. "
              "Trusted: baton scheduler (zero-preemption schedule must reproduce solo outputs; failing schedules replayed twice), census restore between schedules.")

DOCS = ["red", "paged", "multi", "figure", "plain", "grouped", "pbA", "pbB", "gpA", "gpB"]
_SNAP = None
_SOLO = {}
_NUM = re.compile(r"\\(cf|cb|chcbpat|brdrcf)\d+")


def _init():
    global _SNAP
    if _SNAP is None:
        C.import_all()
        _SNAP = C.Snapshot()


def _docs(names):
    sh = HP.mk_shared()
    return [HP.construct(n, sh) for n in names]


def solo(name):
    if name not in _SOLO:
        _SNAP.restore()
        d = _docs([name])[0]
        try:
            _SOLO[name] = ("ok", d.rtf_encode())
        except Exception as e:  # noqa: BLE001
            _SOLO[name] = ("exc", type(e).__name__, str(e)[:120])
    return _SOLO[name]


def run_schedule(names, start, plan, inherit=False):
    _SNAP.restore()
    docs = _docs(names)
    if inherit:
        # the launching thread has encoded a document of its own before it starts the workers, and the workers inherit a copy of its context
        _docs([names[0]])[0].rtf_encode()
    s = Sched([d.rtf_encode for d in docs], plan, inherit_context=inherit)
    res, counts = s.run(start=start)
    return res, counts, s.switches


def digest(r):
    return (r[0], hashlib.md5(r[1].encode()).hexdigest()[:8]) if r[0] == "ok" else tuple(r)


def judge(names, res):
    bad = []
    for i, n in enumerate(names):
        want = solo(n)
        if res[i] != want:
            only_colour = res[i][0] == "ok" and want[0] == "ok" and _NUM.sub(r"\\\1#", res[i][1]) == _NUM.sub(r"\\\1#", want[1])
            bad.append((i, n, only_colour, digest(res[i]), digest(want)))
    return bad


_LIGHT = None


def eval_case(case: dict) -> dict:
    global _LIGHT
    _init()
    names = case["docs"]
    mode = case["mode"]
    if mode == "discover":
        # which library functions change process-global state while this document is encoded?
        if _LIGHT is None:
            _LIGHT = C.make_light_fingerprint()
        _SNAP.restore()
        d = _docs(names)[0]
        funcs = SCHED.discover_state_changing_functions(d.rtf_encode, _LIGHT)
        _SNAP.restore()
        return {"viol": [], "funcs": [list(f) for f in funcs], "evals": 1, "nt": False}
    SCHED.set_line_funcs([(f[0], f[1]) for f in case.get("line_funcs") or []])
    if mode == "epochs":
        # the scheduling points of a solo encode at which the process-global state differs from the previous point:
        # between two such points the thread's steps commute with every step of another thread that only writes
        # global state, so the first and last point of each epoch of constant global state represent it
        if _LIGHT is None:
            _LIGHT = C.make_light_fingerprint()
        _SNAP.restore()
        docs = _docs(names)
        s = Sched([docs[0].rtf_encode], [])
        fps = []
        s.on_point = lambda tid, k: fps.append(_LIGHT())
        s.run(start=0)
        _SNAP.restore()
        firsts = [i + 1 for i in range(len(fps)) if i == 0 or fps[i] != fps[i - 1]]
        return {"viol": [], "epoch_firsts": firsts, "npoints": len(fps), "evals": 1, "nt": False}
    if mode == "calibrate":
        res, counts, _ = run_schedule(names, 0, [])
        bad = judge(names, res)
        viol = [{"klass": None, "sig": "zero-preemption-differs-from-solo",
                 "detail": f"threads {names} run one after the other (no preemption) but thread {b[0]} ({b[1]}) returned {b[3]} instead of its solo result {b[4]}"} for b in bad]
        return {"viol": viol, "counts": counts, "evals": 1, "nt": False}
    viol = []
    outcomes = set()
    n = 0
    nt_sched = 0
    executed_switches = 0
    plans = []
    start = case.get("start", 0)
    if mode == "one":
        t = case["thread"]
        for p in range(case["lo"], case["hi"]):
            for to in case["targets"]:
                plans.append([((t, p), to)])
    elif mode == "two":  # thread t preempted at p -> u ; u preempted at q -> back to t
        t, u = case["thread"], case["other"]
        for p in range(case["lo"], case["hi"]):
            for q in range(case.get("q_lo", 1), case.get("q_hi", case["n_other"] + 1), case.get("stride", 1)):
                plans.append([((t, p), u), ((u, q), t)])
    elif mode == "grid":  # explicit (p, q) pairs: thread 0 preempted at p -> 1 ; 1 preempted at q -> back to 0
        for p, q in case["pq"]:
            plans.append([((0, p), 1), ((1, q), 0)])
    elif mode == "replay":
        plans = [[(tuple(k), v) for k, v in case["plan"]]]
    for plan in plans:
        try:
            res, counts, sw = run_schedule(names, start, plan, inherit=bool(case.get("inherit")))
        except Deadlock as e:
            viol.append({"klass": None, "sig": "deadlock", "detail": f"{e}; docs={names} start={start} plan={plan}"})
            continue
        n += 1
        nt_sched += bool(sw)
        executed_switches += len(sw)
        bad = judge(names, res)
        outcomes.add(tuple(digest(r) for r in res))
        if bad:
            # determinism: the same schedule must fail identically
            res2, _, _ = run_schedule(names, start, plan, inherit=bool(case.get("inherit")))
            b = bad[0]
            if [digest(r) for r in res2] != [digest(r) for r in res]:
                # the wrong result is real (it was returned); that the same schedule from the restored pristine state
                # gives another outcome means state outside rtflite's visible globals survives between encodes
                viol.append({"klass": None, "sig": "interference-not-reproducible",
                             "detail": f"docs={names} start={start} preemptions={plan}: thread {b[0]} ({b[1]}) returned {b[3]}, solo {b[4]}; repeating the same schedule "
                                       f"gave {[digest(r) for r in res2]} (state leaks between encodes)"})
                continue
            klass = "shared-colour-context-race" if all(x[2] for x in bad) else None
            viol.append({"klass": klass, "sig": f"interference-{klass}-{len(plan)}pre",
                         "detail": f"docs={names} start={start}{' threads-inherit-a-copy-of-the-launching-context' if case.get('inherit') else ''} preemptions={[(k, v, ) for k, v in plan]} at {sw}: thread {b[0]} ({b[1]}) returned {b[3]}, solo {b[4]}",
                         "plan": plan})
    best = {}
    for v in viol:
        cur = best.get(v["sig"])
        if cur is None:
            best[v["sig"]] = dict(v, n=1)
        else:
            cur["n"] += 1
    return {"viol": [{k: x[k] for k in ("klass", "sig", "detail")} for x in best.values()], "evals": n, "nt_n": nt_sched,
            "cnt": {"schedules": n, "preemptions_executed": executed_switches, "violating_schedules": len(viol)},
            "outcomes": sorted(map(str, outcomes)), "states": n, "transitions": executed_switches,
            "sample": {"docs": names, "mode": mode, "schedules": n, "last_plan": [[list(k), v] for k, v in plans[-1]] if plans else None,
                       "last_switches": [list(x) for x in sw] if plans and n else None, "outcomes": sorted(map(str, outcomes))[:3]} if n else None}


def plan(run):
    quick = run.tier == "quick"
    run.rule = ("threads encode pool documents (red 4x2 with title; blue/green paginated with footnote; coloured multi-section; figure with coloured title; plain; grouped; two page_by documents with different data; two paginated group_by documents whose page starts and group starts coincide); "
                "for every ordered pair (quick: 4 ordered pairs, two of them seed-rotated + one document with itself + one triple; thorough: 34 ordered pairs, 4 self-pairs, 6 triples) every schedule with 0 or 1 preemption at every library call boundary; 3 threads "
                "with <= 1 preemption; every schedule with 2 preemptions inside the first W call boundaries of both threads (W=60 quick for one seed-rotated pair, 80 thorough for the 12 ordered pairs of the four coloured documents); every NON-nested 2-preemption schedule (A paused at p, B runs to q, A runs to its end, B continues) with p, q in {first, last and the two points after the first of every epoch of constant process-global state of the solo encode} "
                "plus an even grid of G points (G=16 quick, 32 thorough); thorough: 2 preemptions exhaustively on the smallest document encoded by two threads. states = schedules executed; transitions = preemptions executed; non-trivial = distinct schedules in which a preemption was actually executed")
    run.assumptions = ["scheduling points are entries of functions whose code file is under <repo>/src/rtflite/, plus every line of the library "
                       "functions that a discovery pass observed to change process-global state (census / name bindings) while encoding",
                       "between schedules the process-global state is restored by the generic census snapshot (asserted)"]
    docs = DOCS
    all_pairs = list(itertools.permutations(DOCS[:4], 2))
    if quick:
        # seed-rotated subset of ordered pairs, each explored exhaustively
        pairs = [all_pairs[(run.seed * 3 + k * 5) % len(all_pairs)] for k in range(3)]
        # two page_by documents with different data and two paginated group_by documents are always included
        pairs = list(dict.fromkeys(pairs[:2] + [("pbA", "pbB"), ("gpA", "gpB")]))[:4]
        same = ["red"]
        trips = [("red", "paged", "multi")]
    else:
        # (sized to the budget: all ordered pairs of the first six documents plus the page_by and the group_by pair in both orders)
        pairs = list(itertools.permutations(DOCS[:6], 2)) + [("pbA", "pbB"), ("pbB", "pbA"), ("gpA", "gpB"), ("gpB", "gpA")]
        same = DOCS[:4]
        trips = list(itertools.permutations(DOCS[:3]))
    line_funcs = {}

    def on_disc(r):
        for f in r.get("funcs", []):
            line_funcs[(f[0], f[1])] = f[2]

    run.layer("discover-state-changing-functions", "mc.props.c15:eval_case", [{"mode": "discover", "docs": [d]} for d in DOCS], chunk=1, on_result=on_disc)
    LF = [[f, l, q] for (f, l), q in sorted(line_funcs.items())]
    run.extra["state_changing_functions_with_line_granular_points"] = [f"{f}:{l} {q}" for f, l, q in LF]
    counts = {}

    def on_cal(r):
        if "counts" in r:
            counts[r["_case"]["docs"][0]] = r["counts"][0]

    run.layer("calibrate", "mc.props.c15:eval_case", [{"mode": "calibrate", "docs": [d], "line_funcs": LF} for d in DOCS] +
              [{"mode": "calibrate", "docs": list(p), "line_funcs": LF} for p in pairs], chunk=1, on_result=on_cal)
    run.extra["call_boundaries_per_encode"] = dict(counts)
    outcomes = set()

    def on_res(r):
        for o in r.get("outcomes", []):
            outcomes.add((tuple(r["_case"]["docs"]), o))

    # two threads, every ordered pair, one preemption at every point of the first thread
    cases = []
    step = 40
    for a, b in pairs:
        na = counts.get(a, 0)
        for lo in range(1, na + 1, step):
            cases.append({"mode": "one", "docs": [a, b], "start": 0, "thread": 0, "lo": lo, "hi": min(na + 1, lo + step), "targets": [1], "line_funcs": LF})
    for a in same:  # same document twice (two equal-valued documents encoded concurrently)
        na = counts.get(a, 0)
        for lo in range(1, na + 1, step):
            cases.append({"mode": "one", "docs": [a, a], "start": 0, "thread": 0, "lo": lo, "hi": min(na + 1, lo + step), "targets": [1], "line_funcs": LF})
    run.layer("2-threads-1-preemption", "mc.props.c15:eval_case", cases, chunk=1, total=len(cases), on_result=on_res)
    # three threads, one preemption, every start thread and switch target
    cases = []
    for perm in trips:
        n0 = counts.get(perm[0], 0)
        for lo in range(1, n0 + 1, step):
            cases.append({"mode": "one", "docs": list(perm), "start": 0, "thread": 0, "lo": lo, "hi": min(n0 + 1, lo + step), "targets": [1, 2], "line_funcs": LF})
    run.layer("3-threads-1-preemption", "mc.props.c15:eval_case", cases, chunk=1, total=len(cases), on_result=on_res)
    # two preemptions inside the start-up window of both threads (where process-wide registries, contexts and
    # caches are initialised): thread 0 preempted at p <= W, thread 1 preempted at q <= W, back to thread 0
    W = 60 if quick else 80
    wpairs = [[("red", "paged"), ("paged", "red"), ("multi", "red")][run.seed % 3]] if quick else list(itertools.permutations(DOCS[:4], 2))
    for a, b in dict.fromkeys(wpairs):
        cases = [{"mode": "two", "docs": [a, b], "start": 0, "thread": 0, "other": 1, "lo": lo, "hi": min(W + 1, lo + 3), "n_other": counts.get(b, 0),
                  "q_lo": 1, "q_hi": W + 1, "line_funcs": LF} for lo in range(1, W + 1, 3)]
        run.layer(f"2-threads-2-preemptions-startup-window-{a}-{b}", "mc.props.c15:eval_case", cases, chunk=1, total=len(cases), on_result=on_res)
    # two preemptions in the NON-nested order (A paused at p, B runs to q, A runs to its end, B continues), p and q drawn from
    # the epoch structure of each solo encode: the first and last scheduling point of every epoch of constant process-global
    # state (a thread's steps inside an epoch commute with another thread's writes), plus an even grid of G points
    epochs = {}

    def on_ep(r):
        if "epoch_firsts" in r:
            epochs[r["_case"]["docs"][0]] = (r["epoch_firsts"], r["npoints"])

    run.layer("epochs-of-constant-global-state", "mc.props.c15:eval_case", [{"mode": "epochs", "docs": [d], "line_funcs": LF} for d in DOCS], chunk=1, on_result=on_ep)
    G = 16 if quick else 32

    def point_set(d):
        firsts, n = epochs.get(d, ([1], counts.get(d, 1)))
        lasts = [f - 1 for f in firsts[1:]] + [n]
        near = [f + k for f in firsts for k in (1, 2) if f + k <= n]  # just inside each epoch
        grid = [max(1, round(n * k / G)) for k in range(1, G + 1)]
        return sorted({x for x in firsts + lasts + near + grid if 1 <= x <= n})

    run.extra["epochs_per_encode"] = {d: len(v[0]) for d, v in epochs.items()}
    gpairs = list(dict.fromkeys(list(pairs) + [(a, a) for a in same])) if quick else list(itertools.permutations(DOCS[:4], 2)) + [("pbA", "pbB"), ("pbB", "pbA")] + [(a, a) for a in same]
    cases = []
    for a, b in gpairs:
        pq = [(p_, q_) for p_ in point_set(a) for q_ in point_set(b)]
        for i in range(0, len(pq), 30):
            cases.append({"mode": "grid", "docs": [a, b], "start": 0, "pq": pq[i:i + 30], "line_funcs": LF})
    run.layer("2-threads-2-preemptions-non-nested-epoch-grid", "mc.props.c15:eval_case", cases, chunk=1, total=len(cases), on_result=on_res)
    # the same grid with worker threads that start inside a COPY of the launching thread's context, after that thread has encoded
    # once (asyncio.to_thread / copy_context().run; optional for plain threads from Python 3.14 on)
    cases = []
    for a, b in (gpairs[:1] if quick else gpairs):
        pq = [(0, 0)] + [(p_, q_) for p_ in point_set(a)[::2] for q_ in point_set(b)[::2]]
        for i in range(0, len(pq), 30):
            cases.append({"mode": "grid", "docs": [a, b], "start": 0, "pq": pq[i:i + 30], "line_funcs": LF, "inherit": True})
    run.layer("2-threads-inherited-context-epoch-grid", "mc.props.c15:eval_case", cases, chunk=1, total=len(cases), on_result=on_res)
    if not quick:
        # (sized to the budget: |A| x |B| schedules; the first thorough run showed that two different documents are out of reach)
        small = sorted(counts, key=counts.get)[:1]
        for a, b in [(small[0], small[0])]:
            na, nb = counts[a], counts[b]
            cases = [{"mode": "two", "docs": [a, b], "start": 0, "thread": 0, "other": 1, "lo": lo, "hi": min(na + 1, lo + 4), "n_other": nb, "line_funcs": LF}
                     for lo in range(1, na + 1, 4)]
            run.layer(f"2-threads-2-preemptions-{a}-{b}", "mc.props.c15:eval_case", cases, chunk=1, total=len(cases), on_result=on_res)
    run.extra["distinct_outcomes"] = len(outcomes)
    run.extra["traces_validated_against_impl"] = run.evaluations
    if run.cnt.get("preemptions_executed", 0) < 100:
        run.harness_errors.append({"layer": "vacuity", "case": None, "error": "fewer than 100 preemptions were actually executed"})
